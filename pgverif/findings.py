"""Violation records, mechanism keys and the KNOWN_FINDINGS protocol.

KNOWN_FINDINGS.txt is line oriented and never written at run time:

  open:  property=C01 key=<clause>:<mechanism>  free text
  fixed: property=C05 <commit> free text

`open:` lines turn a violation with exactly that key into a KNOWN-FINDING
line (exit code unaffected); `fixed:` lines suppress nothing.
"""
import os
import re

ROOT = os.path.dirname(os.path.dirname(os.path.abspath(__file__)))
KNOWN_FILE = os.path.join(ROOT, 'KNOWN_FINDINGS.txt')

_OPEN = re.compile(r'^open:\s+property=(C\d+)\s+key=(\S+)\s*(.*)$')
_FIXED = re.compile(r'^fixed:\s+property=(C\d+)\s+(\S+)\s*(.*)$')


def load_known(path=KNOWN_FILE):
  """Returns ({(prop, key): text}, [(prop, commit, text)])."""
  opened, fixed = {}, []
  lines = []
  # PGVERIF_KNOWN_EXTRA (development only): extra files with `open:` lines
  # that are being triaged and not merged into KNOWN_FINDINGS.txt yet.
  paths = [path] + [p for p in os.environ.get('PGVERIF_KNOWN_EXTRA', '').split(':') if p]
  for p in paths:
    if os.path.exists(p):
      with open(p) as f:
        lines.extend(f.read().splitlines())
  if True:
    for line in lines:
      line = line.rstrip('\n')
      if not line.strip() or line.lstrip().startswith('#'):
        continue
      m = _OPEN.match(line)
      if m:
        opened[(m.group(1), m.group(2))] = m.group(3).strip()
        continue
      m = _FIXED.match(line)
      if m:
        fixed.append((m.group(1), m.group(2), m.group(3).strip()))
        continue
      raise ValueError(f'KNOWN_FINDINGS.txt: unparsable line: {line!r}')
  return opened, fixed


def known_keys(prop, path=KNOWN_FILE):
  opened, _ = load_known(path)
  return {k for (p, k) in opened if p == prop}


def safe_name(key):
  return re.sub(r'[^A-Za-z0-9_.+-]+', '_', key)[:120]
