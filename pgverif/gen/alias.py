"""Aliased operands within ONE call, literal constructor forms and typed
containers with symbolic members (workload dimensions of C01).

New description kinds (understood by `CallBuilder`, not by `desc.build`):

  ['same', tag, desc]   the value of `desc`, built ONCE per call: every further
                        occurrence of the same tag in the operands of that call
                        is the very same Python object
  ['ctor', form, desc]  `desc` (kind D / L / O) built through another public
                        construction form:
                          D: 'dict' 'kwargs' 'pairs' 'dict+kwargs' 'from_json'
                          L: 'list' 'from_json'
                          O: 'kwargs' 'positional' 'partial' 'from_json'
  ['ref', desc]         pg.Ref(<value of desc>): a reference NODE (a leaf of the
                        tree it is stored in); `desc` is a fresh container or a
                        ['node', ...] alias of a live node (a Ref node included)

Classes with dynamic (regex-keyed) fields whose value specs have SYMBOLIC
defaults (`Dyn`, `DynNotifier`, `DynAll`) live here (`cls_of` finds them next
to the classes of `pgverif.models`); their members may be given as
['missing'] (an explicit pg.MISSING_VALUE argument).

Everything here is harness side; the only library calls are the public
constructors / `pg.from_json` and the operation table of `gen/ops.py`.
"""
import pyglove as pg
from pgverif import models as M
from pgverif.gen import desc as D
from pgverif.gen import history as H
from pgverif.gen import ops as O
from pgverif.gen import values as V
from pgverif.monitors import tree as TM

T = pg.typing

UNTYPED = ('Any2', 'Writable', 'Notifier', 'Bound', 'NoSymCmp')
ONE_FIELD = ('Bound', 'NoSymCmp')
SYMBOLIC_KINDS = ('D', 'L', 'O')
CONTAINER_KINDS = ('D', 'L', 'd', 'l', 'O')


# --------------------------------------------------------------- descs ------

def inner(desc):
  """Strips 'same' / 'ctor' wrappers."""
  while desc[0] in ('same', 'ctor'):
    desc = desc[2]
  return desc


def has_ext(desc):
  """Does the description use a kind `desc.build` does not know?"""
  k = desc[0]
  if k in ('same', 'ctor', 'ref'):
    return True
  if k == 'O' and desc[1] in LOCAL_CLASSES:
    return True
  if k in ('D', 'd', 'O'):
    return any(has_ext(v) for _, v in desc[2 if k == 'O' else 1])
  if k in ('L', 'l', 't'):
    return any(has_ext(v) for v in desc[1])
  if k == 'ins':
    return has_ext(desc[1])
  return False


def members(desc):
  """The mutable member list of a container description and whether its
  entries are [key, desc] pairs."""
  k = desc[0]
  if k in ('D', 'd'):
    return desc[1], True
  if k == 'O':
    return desc[2], True
  if k in ('L', 'l'):
    return desc[1], False
  return None, False


def open_container(desc):
  """True when any value may be put into a member slot of this description
  (untyped containers; objects of the untyped model classes)."""
  k = desc[0]
  if k in ('D', 'L'):
    return not (len(desc) > 2 and desc[2])
  if k in ('d', 'l'):
    return True
  if k == 'O':
    return desc[1] in UNTYPED
  return False


def show(desc):
  k = desc[0]
  if k == 'same':
    return f'<same#{desc[1]} {show(desc[2])}>'
  if k == 'ctor':
    return f'{show(desc[2])}@{desc[1]}'
  if k == 'ref':
    return f'pg.Ref({show(desc[1])})'
  if k in ('D', 'd'):
    s = ', '.join(f'{kk!r}: {show(vv)}' for kk, vv in desc[1])
    typed = '/typed' if len(desc) > 2 and desc[2] else ''
    return ('pg.Dict%s({%s})' % (typed, s)) if k == 'D' else '{%s}' % s
  if k in ('L', 'l'):
    s = ', '.join(show(vv) for vv in desc[1])
    typed = '/typed' if len(desc) > 2 and desc[2] else ''
    return ('pg.List%s([%s])' % (typed, s)) if k == 'L' else '[%s]' % s
  if k == 't':
    return '(%s,)' % ', '.join(show(vv) for vv in desc[1])
  if k == 'O':
    return '%s(%s)' % (desc[1], ', '.join(f'{kk}={show(vv)}' for kk, vv in desc[2]))
  if k == 'ins':
    return f'Insertion({show(desc[1])})'
  return D.show(desc)


_KINDS = ('v', 'D', 'L', 'd', 'l', 'O', 'leaf', 'node', 'missing', 'ins', 't',
          'same', 'ctor', 'ref')


def show_step(step):
  def sa(v):
    if isinstance(v, list) and v and isinstance(v[0], str) and v[0] in _KINDS:
      try:
        return show(v)
      except Exception:  # a key list that happens to look like a description
        pass
    if isinstance(v, list):
      return '[' + ', '.join(sa(x) for x in v) + ']'
    return repr(v)
  args = ', '.join(f'{k}={sa(v)}' for k, v in step['args'].items())
  sc = (' in ' + '+'.join(step['scopes'])) if step.get('scopes') else ''
  if step['op'] in CTOR_OPS:
    return f"{step['op']}({args}){sc}"
  return f"root{step['at'][0]}{step['at'][1]}.{step['op']}({args}){sc}"


# ------------------------------------- classes with dynamic fields ----------
# pg.Object classes whose fields are keyed by a NON-CONST key spec (a regular
# expression matches any number of attribute names) and whose value specs have
# symbolic defaults (an object, a typed dict, an untyped dict, a list, a
# pg.Dict under Any): every key that is given as pg.MISSING_VALUE is completed
# with the default of its field, and each completion must be a node of its own.

def dyn_fields():
  return [
      (T.StrKey('o_.*'), T.Object(M.Inner, default=M.Inner())),
      (T.StrKey('d_.*'), T.Dict([('k', T.Int(default=1)),
                                 ('sub', T.Dict(default={})),
                                 ('vs', T.List(T.Any(), default=[]))])),
      (T.StrKey('e_.*'), T.Dict(default={'z': [1]})),
      (T.StrKey('l_.*'), T.List(T.Any(), default=[{'a': 1}])),
      (T.StrKey('a_.*'), T.Any(default=pg.Dict(w=pg.List([1])))),
      ('fixed', T.Object(M.Inner, default=M.Inner())),
      ('free', T.Any(default=None)),
  ]


@pg.members(dyn_fields())
class Dyn(pg.Object):
  """Regex-keyed members with symbolic defaults + two const fields."""


@pg.members(dyn_fields())
class DynNotifier(pg.Object):
  """Same, with an overridden change handler (declares the fields itself: a
  subclass inherits only the first regex-keyed field of its base)."""

  def _on_change(self, field_updates):
    M._record(self, 'change', field_updates)   # pylint: disable=protected-access
    super()._on_change(field_updates)


@pg.members([('x', T.Any(default=None)),
             (T.StrKey(), T.Any(default=pg.Dict(w=pg.List([1]))))])
class DynAll(pg.Object):
  """Every keyword is a member; the catch-all field has a symbolic default."""


def dyn_dict_spec():
  """The regex-keyed fields of `Dyn`, bound to a pg.Dict directly."""
  return T.Dict([f for f in dyn_fields() if not isinstance(f[0], str)])


LOCAL_CLASSES = {'Dyn': Dyn, 'DynNotifier': DynNotifier, 'DynAll': DynAll}
DYN_PREFIXES = 'odela'


def cls_of(name):
  return LOCAL_CLASSES.get(name) or getattr(M, name)


def is_dyn(node):
  return isinstance(node, (Dyn, DynNotifier, DynAll))


def missing_groups(desc):
  """The largest number of members of an object / typed-dict description that
  are given as ['missing'] and fall under ONE key spec."""
  b = inner(desc)
  mem, paired = members(b)
  if not paired:
    return 0
  groups = {}
  for k, v in mem:
    if v == ['missing'] and isinstance(k, str):
      if b[0] == 'O' and b[1] == 'DynAll':
        g = 'x' if k == 'x' else '*'
      else:
        g = k.split('_')[0] if '_' in k else k
      groups[g] = groups.get(g, 0) + 1
  return max(groups.values()) if groups else 0


def max_missing(desc):
  """`missing_groups` of the description and of everything below it."""
  b = inner(desc)
  if b[0] == 'ref':
    return max_missing(b[1])
  mem, paired = members(b)
  if mem is None:
    return 0
  n = missing_groups(b) if b[0] in ('O', 'D') else 0
  for e in mem:
    n = max(n, max_missing(e[1] if paired else e))
  return n


def obj_kind(desc):
  """Constructor kind (mechanism part) of an object description."""
  if desc[1] not in LOCAL_CLASSES:
    return 'Object'
  return 'Object/dynamic' + (
      '+missing' if any(v == ['missing'] for _, v in desc[2]) else '')


def dyn_value(rng, prefix, sub):
  """A valid member for the `Dyn` field with this key prefix."""
  if prefix == 'o':
    return ['O', 'Inner', [['p', ['v', rng.randint(0, 5)]]]]
  if prefix == 'd':
    f = []
    if rng.random() < 0.5:
      f.append(['k', ['v', rng.randint(0, 5)]])
    if rng.random() < 0.5:
      f.append(['sub', ['d', [[V.key(rng, False), sub()]]]])
    if rng.random() < 0.5:
      f.append(['vs', ['l', [sub() for _ in range(rng.randint(0, 2))]]])
    return ['d', f]
  if prefix == 'e':
    return ['d', [[V.key(rng, False), sub()]] if rng.random() < 0.7 else []]
  if prefix == 'l':
    return ['l', [sub() for _ in range(rng.randint(0, 2))]]
  return sub()


def dyn_names(rng, prefix, n):
  return [f'{prefix}_{s}' for s in rng.sample(['0', '1', 'x', '', 'b_c'], n)]


def dyn_desc(rng, sub, p_missing=0.45):
  """An object of the dynamic-field classes (or a pg.Dict bound to the same
  fields): 1-3 key specs with 1-3 keys each, every member either given or
  left to its default by an EXPLICIT pg.MISSING_VALUE."""
  r = rng.random()
  p_missing = rng.choice([0.0, p_missing, p_missing, 0.8])
  val = lambda pre: (['missing'] if rng.random() < p_missing
                     else dyn_value(rng, pre, sub))
  if r < 0.2:
    names = rng.sample(['x', 'p', 'q', 'r1', 'zz', 'o_1'], rng.randint(1, 4))
    return ['O', 'DynAll', [[n, val('a')] for n in names]]
  f = []
  for pre in rng.sample(DYN_PREFIXES, rng.randint(1, 3)):
    for name in dyn_names(rng, pre, rng.randint(1, 3)):
      f.append([name, val(pre)])
  if r < 0.35:
    rng.shuffle(f)
    return ['D', f, {'value_spec': dyn_dict_spec()}]
  if rng.random() < 0.3:
    f.append(['fixed', val('o')])
  if rng.random() < 0.3:
    f.append(['free', sub()])
  rng.shuffle(f)
  return ['O', rng.choice(['Dyn', 'Dyn', 'DynNotifier']), f]


# ------------------------------------------------------ hostile keys --------
# Legal keys of an untyped pg.Dict that a printed path cannot tell apart from
# another position, or that print as nothing / like an index / like a nested
# path. `values.key` never produces them; they are part of the key alphabet of
# C01 (forest, operands and written keys), at the root and nested.

HOSTILE_KEYS = ['', '', ' ', '0', '1', '-1', 'a.b', 'a.b.c', 'k.a', '[0]', '[1]',
                'a[0]', '[a]', '.', '..', '[', ']', '[]', 'a.', '.a', ' a',
                'x y', '\n', '\u00e9', "'", '"', '$', '*', 'None', 'a/b',
                0, 1, -1]


def _render(keys):
  try:
    return str(pg.KeyPath(list(keys)))
  except Exception:  # pylint: disable=broad-except
    return None


def lookalike_keys(member_keys, below):
  """Keys that print like something else that exists next to / below the
  container: the text of a relative path of a descendant ('a.b', 'a[0]',
  '[0]'), an int sibling as text and a numeric text sibling as int.

  member_keys: keys of the container; below: iterable of relative key lists
  (length >= 1) of positions below the container."""
  out = []
  for k in member_keys:
    if isinstance(k, int) and not isinstance(k, bool):
      out += [str(k), f'[{k}]']
    elif isinstance(k, str):
      if k.lstrip('-').isdigit():
        out.append(int(k))
      out += [k + '.', '.' + k, k + ' ', f'[{k}]']
  for rel in below:
    r = _render(rel)
    if r is not None:
      out.append(r)
      if len(rel) > 1:
        out.append(_render(rel[1:]))
  return [k for k in out if k is not None and k not in member_keys]


def live_lookalikes(node, limit=12):
  """`lookalike_keys` for a live pg.Dict (two levels of descendants, and the
  printed paths of the positions around it)."""
  keys = list(node.sym_keys())
  below = []
  for k in keys[:limit]:
    below.append([k])
    c = node.sym_getattr(k)
    if isinstance(c, pg.Symbolic) and not isinstance(c, pg.Ref):
      for k2 in list(c.sym_keys())[:4]:
        below.append([k, k2])
  out = lookalike_keys(keys, below)
  par = node.sym_parent
  if par is not None and not isinstance(par, pg.Ref):
    # what a sibling / the container itself is called from the root
    out.append(str(node.sym_path))
    for k in list(par.sym_keys())[:4]:
      out.append(k if isinstance(k, str) else f'[{k}]')
  return [k for k in out if k not in keys]


def hostile_key(rng, lookalikes=()):
  if lookalikes and rng.random() < 0.4:
    return rng.choice(list(lookalikes))
  return rng.choice(HOSTILE_KEYS)


def accepts_any_key(node):
  """An untyped pg.Dict, or one bound to a dict spec without a schema."""
  if not isinstance(node, pg.Dict):
    return False
  vs = node.value_spec
  return vs is None or (isinstance(vs, pg.typing.Dict) and vs.schema is None)


def hostilize_desc(rng, desc, p=0.25):
  """Rewrites (in place) keys of the untyped dict descriptions at / below
  `desc` into hostile ones, each with probability p. Returns their number."""
  n = 0
  if desc[0] == 'same':
    return hostilize_desc(rng, desc[2], p)
  b = inner(desc)
  mem, paired = members(b)
  if mem is None or not open_container(b):
    return 0                      # typed containers: members stay as generated
  if b[0] in ('D', 'd'):
    keys = [k for k, _ in mem]
    below = []
    for k, sub in mem:
      m2, p2 = members(inner(sub))
      if m2 is not None:
        below += [[k, (e[0] if p2 else i)] for i, e in enumerate(m2[:3])]
    look = lookalike_keys(keys, below)
    for e in mem:
      if rng.random() < p:
        nk = hostile_key(rng, look)
        if nk not in keys:
          keys[keys.index(e[0])] = nk
          e[0] = nk
          n += 1
  for e in mem:
    n += hostilize_desc(rng, e[1] if paired else e, p)
  if n and desc[0] == 'ctor' and desc[1] in ('kwargs', 'dict+kwargs') and b[0] == 'D':
    if not all(isinstance(k, str) and k.isidentifier() for k, _ in mem):
      desc[1] = 'dict'
  return n


def hostilize_args(rng, node, opname, args, p=0.6):
  """Rewrites (in place) the NEW keys that a generated call writes into
  untyped dicts into hostile ones (each with probability p); keys that exist
  are chosen by the operation table from the live dict already. Returns the
  number of rewritten keys."""
  n = 0
  def new_key(d, k, taken=()):
    if not accepts_any_key(d) or d.sym_hasattr(k) or rng.random() >= p:
      return k
    nk = hostile_key(rng, live_lookalikes(d))
    return k if (nk in taken or d.sym_hasattr(nk) and rng.random() < 0.5) else nk
  try:
    if opname in ('Dict.__setitem__', 'Dict.setdefault', 'Dict.pop',
                  'Dict.__delitem__') and 'k' in args:
      k = new_key(node, args['k'])
      n += k != args['k'] or type(k) is not type(args['k'])
      args['k'] = k
    elif opname in ('Dict.update', 'Dict.__ior__', 'Dict.__or__'):
      for it in args['items']:
        k = new_key(node, it[0], [i[0] for i in args['items']])
        n += k != it[0]
        it[0] = k
      if args.get('form') in ('kwargs', 'dict+kwargs') and not all(
          isinstance(k, str) and k.isidentifier() for k, _ in args['items']):
        args['form'] = 'dict'
    elif opname == 'rebind':
      for up in args['updates']:
        rel = up[0]
        k = new_key(O.node_at(node, rel[:-1]), rel[-1])
        if k != rel[-1] and not any(u[0] == rel[:-1] + [k] for u in args['updates']):
          up[0] = rel[:-1] + [k]
          n += 1
      if args.get('form') == 'kwargs' and not all(
          isinstance(r[0], str) and r[0].isidentifier() for r, _ in args['updates']):
        args['form'] = 'dict'
    elif opname == 'clone[override]':
      rel = args['rel']
      k = new_key(O.node_at(node, rel[:-1]), rel[-1])
      n += k != rel[-1]
      args['rel'] = rel[:-1] + [k]
  except Exception:  # pylint: disable=broad-except
    return n
  return n


# ------------------------------------- pre-built values for typed slots -----

def symbolize(rng, v, p=0.7, top=True):
  """The description of a plain nested value in which dicts / lists are
  PRE-BUILT pg.Dict / pg.List (the outermost one always, inner ones with
  probability p)."""
  sym = top or rng.random() < p
  if isinstance(v, dict) and all(isinstance(k, (str, int)) for k in v):
    return ['D' if sym else 'd',
            [[k, symbolize(rng, x, p, False)] for k, x in v.items()]]
  if isinstance(v, list):
    return ['L' if sym else 'l', [symbolize(rng, x, p, False) for x in v]]
  return ['v', v]


def corrupt(rng, spec, v):
  """A copy of the plain value `v` (valid for `spec`) in which ONE member at
  some depth is replaced by a value its own spec rejects; None if there is no
  such member. Uses public attributes of the spec only."""
  T = pg.typing
  def bad_for(s):
    if isinstance(s, T.Any):
      return None
    b = V.invalid_for(s, rng)
    return None if V._accepts(s, b) else [b]   # pylint: disable=protected-access
  if isinstance(spec, T.Dict) and spec.schema is not None and isinstance(v, dict):
    fields = [(str(k), f.value) for k, f in spec.schema.fields.items()
              if isinstance(k, T.ConstStrKey) and not f.value.frozen]
    rng.shuffle(fields)
    for name, fs in fields:
      if isinstance(v.get(name), (dict, list)) and rng.random() < 0.6:
        c = corrupt(rng, fs, v[name])
        if c is not None:
          return dict(v, **{name: c})
    for name, fs in fields:
      b = bad_for(fs)
      if b is not None:
        return dict(v, **{name: b[0]})
    return None
  if isinstance(spec, T.List) and isinstance(v, list) and v:
    i = rng.randrange(len(v))
    es = spec.element.value
    c = corrupt(rng, es, v[i]) if isinstance(v[i], (dict, list)) else None
    if c is None:
      b = bad_for(es)
      if b is None:
        return None
      c = b[0]
    return v[:i] + [c] + v[i + 1:]
  return None


# ------------------------------------------------- offered operands ---------

def note_symbolic(value, out):
  """Appends the outermost symbolic objects of an operand value (looking
  through plain containers and pg.Insertion) to `out`."""
  if isinstance(value, pg.Symbolic):
    out.append(value)
  elif isinstance(value, dict):
    for v in value.values():
      note_symbolic(v, out)
  elif isinstance(value, (list, tuple)):
    for v in value:
      note_symbolic(v, out)
  elif isinstance(value, pg.Insertion):
    note_symbolic(value.value, out)


def operand_problems(forest, operands, counters=None):
  """The property, applied to the objects a caller handed to a call.

  An operand that the call did not store in the forest (or that is itself a
  root of the forest) is still held by the caller. When it reports no parent it is a root: its path must be empty, and
  everything below it must be addressed relative to it (`tree_ok`). When it
  reports a parent, that parent must really store it (no dangling claim); the
  shape of a container the caller never saw (a converted plain dict/list that
  adopted the operand and was discarded) is not judged.

  Returns [(clause, detail)]; the clauses of `tree_ok` prefixed 'operand-'."""
  out, done, reach = [], set(), None
  for x in operands:
    if id(x) in done:
      continue
    done.add(id(x))
    if reach is None:
      reach = {id(n) for _, _, n in H.all_nodes(forest)}
      reach -= {id(r) for r in forest if isinstance(r, pg.Symbolic)}
    if id(x) in reach:
      continue                    # stored below a root of the forest
    if counters is not None:
      counters['operand_checks'] += 1
    par = x.sym_parent
    if par is not None:
      if not any(c is x for _, c in TM.children(par)):
        out.append(('operand-dangling-claim',
                    f'offered {type(x).__name__} is not stored in the forest but '
                    f'reports the parent {type(par).__name__} (path '
                    f'{list(x.sym_path.keys)!r}), which does not store it'))
      continue
    for clause, detail in TM.tree_ok([x]):
      out.append(('operand-' + clause,
                  f'offered {type(x).__name__}, not stored in the forest: '
                  + detail.replace('root0', 'operand')))
  return out


SELFREF = 'ref-into-receiving-tree'


def refused_selfref(operands):
  """Is one of the offered objects a pg.Ref to a node of the very tree it was
  offered to (the library refuses such a reference when it is inserted)? Decided
  on the operand itself: it still names the container it was offered to, and
  the value it refers to lives below the same root."""
  for x in operands:
    if isinstance(x, pg.Ref) and x.sym_parent is not None:
      v = x.value
      if isinstance(v, pg.Symbolic) and v.sym_root is x.sym_parent.sym_root:
        return True
  return False


# ------------------------------------------------------------- building -----

class CallBuilder:
  """Builds the operand values of one call.

  Every symbolic container that is constructed from a description with shared
  members is checked right after its constructor returned (`tree_ok` of the
  live forest plus the new value), so that a violation is attributed to the
  constructor that produced it (`ctor[Dict|List|Object|from_json:<kind>]`) and not to
  the operation the value is handed to afterwards.
  """

  def __init__(self, forest, counters=None):
    self.forest, self.counters = forest, counters
    self.memo = {}
    self.problems = []          # (clause, mechanism, detail)
    self.shared = False         # did this call see one object at two places?
    self.uses = {}
    self.operands = []          # symbolic objects handed to the call
    self.operand_findings = []  # (clause, detail), filled by `apply_step`
    self.selfref = False        # a refused reference into the receiving tree

  def __call__(self, desc):
    v = self.build(desc)
    note_symbolic(v, self.operands)
    return v

  def ctor(self, kind, fn, members):
    """Calls a constructor; when it REJECTS its arguments, the symbolic
    objects that were offered to it must still be intact trees of their own."""
    try:
      return fn()
    except Exception:
      if not self.problems:
        offered = []
        for m in members:
          note_symbolic(m, offered)
        mech = (SELFREF if refused_selfref(offered) else f'ctor[{kind}]') + '!rejected'
        for clause, detail in operand_problems(self.forest, offered,
                                               self.counters):
          self.problems.append((clause, mech, detail))
      raise

  def build(self, desc):
    k = desc[0]
    if k == 'same':
      tag = desc[1]
      self.uses[tag] = self.uses.get(tag, 0) + 1
      if self.uses[tag] > 1:
        self.shared = True
      if tag not in self.memo:
        self.memo[tag] = self.build(desc[2])
      return self.memo[tag]
    if k == 'ctor':
      return self.construct(desc[1], desc[2])
    # Same values as `desc.build`; `made` (the check of the value a
    # constructor returned) only for descriptions with shared members.
    made = self.made if has_ext(desc) else (lambda kind, v: v)
    if k in ('D', 'd'):
      items = {kk: self.build(vv) for kk, vv in desc[1]}
      if k == 'd':
        return items
      opts = desc[2] if len(desc) > 2 else {}
      kind = 'Dict/typed' if opts.get('value_spec') else 'Dict'
      return made(kind, self.ctor(kind, lambda: pg.Dict(items, **opts),
                                  items.values()))
    if k in ('L', 'l'):
      items = [self.build(vv) for vv in desc[1]]
      if k == 'l':
        return items
      opts = desc[2] if len(desc) > 2 else {}
      kind = 'List/typed' if opts.get('value_spec') else 'List'
      return made(kind, self.ctor(kind, lambda: pg.List(items, **opts), items))
    if k == 't':
      return tuple(self.build(vv) for vv in desc[1])
    if k == 'O':
      cls = cls_of(desc[1])
      kw = {kk: self.build(vv) for kk, vv in desc[2]}
      kind = obj_kind(desc)
      return made(kind, self.ctor(kind, lambda: cls(**kw), kw.values()))
    if k == 'ins':
      return pg.Insertion(self.build(desc[1]))
    if k == 'ref':
      v = self.build(desc[1])
      r = pg.Ref(v)
      if (desc[1][0] == 'node' and not self.problems and self.forest
          and isinstance(v, pg.Symbolic)):
        # A reference to a node that is stored in the forest was made: the
        # forest must be as before (same judgement as the step kind wrap[Ref]).
        if self.counters is not None:
          self.counters['ctor_checks'] += 1
          self.counters['ctor_checks:Ref(node)'] += 1
        for clause, detail in TM.tree_ok(
            [x for x in self.forest if isinstance(x, pg.Symbolic)
             and x.sym_parent is None]):
          self.problems.append((clause, 'wrap[Ref]', detail))
      return r
    return D.build(desc, self.forest)

  def construct(self, form, desc):
    k = desc[0]
    if k == 'D':
      pairs = [(kk, self.build(vv)) for kk, vv in desc[1]]
      vals = [vv for _, vv in pairs]
      if form == 'kwargs':
        fn = lambda: pg.Dict(**dict(pairs))
      elif form == 'pairs':
        fn = lambda: pg.Dict(pairs)
      elif form == 'dict+kwargs':
        fn = lambda: pg.Dict(dict(pairs[:1]), **dict(pairs[1:]))
      elif form == 'from_json':
        return self.made('from_json:Dict', self.ctor(
            'from_json:Dict', lambda: pg.from_json(dict(pairs)), vals))
      else:
        fn = lambda: pg.Dict(dict(pairs))
      return self.made('Dict', self.ctor('Dict', fn, vals))
    if k == 'L':
      items = [self.build(vv) for vv in desc[1]]
      if form == 'from_json':
        return self.made('from_json:List', self.ctor(
            'from_json:List', lambda: pg.from_json(items), items))
      return self.made('List', self.ctor('List', lambda: pg.List(items), items))
    if k == 'O':
      cls = cls_of(desc[1])
      pairs = [(kk, self.build(vv)) for kk, vv in desc[2]]
      vals = [vv for _, vv in pairs]
      kind = obj_kind(desc)
      if form == 'positional':
        fn = lambda: cls(*vals)
      elif form == 'partial':
        fn = lambda: cls.partial(**dict(pairs))
      elif form == 'from_json':
        return self.made('from_json:' + kind, self.ctor(
            'from_json:' + kind, lambda: pg.from_json(
                dict([('_type', cls.__type_name__)] + pairs)), vals))
      else:
        fn = lambda: cls(**dict(pairs))
      return self.made(kind, self.ctor(kind, fn, vals))
    raise ValueError(f'harness: no construction form {form!r} for {k!r}')

  def made(self, kind, value):
    if (not self.problems and isinstance(value, pg.Symbolic)
        and value.sym_parent is None):
      if self.counters is not None:
        self.counters['ctor_checks'] += 1
        self.counters['ctor_checks:' + kind] += 1
      roots = [r for r in self.forest if isinstance(r, pg.Symbolic)
               and r is not value and r.sym_parent is None]
      for clause, detail in TM.tree_ok(roots + [value]):
        self.problems.append((clause, f'ctor[{kind}]', detail))
    return value


# ------------------------------------------------------- value source -------

class AliasValueSource(H.ValueSource):
  """`ValueSource` that remembers what it handed out for THIS call (one
  instance is made per generated step) and, next to fresh values and aliases of
  live nodes, hands out

    * an operand it already handed out for this call (the same fresh object /
      the same live node a second time),
    * the node that another tree of the forest stores under the very keys
      that are being written (`t.a.b = clone_of_t.a.b`), and
    * fresh nested values in which one symbolic node occurs at two places.
  """

  def __init__(self, forest, target, p_same=0.3, p_inject=0.2, p_form=0.25,
               p_twin=0.15, p_prebuilt=0.5, p_hostile=0.12, p_ref=0.06, **kw):
    super().__init__(forest, target, **kw)
    self.p_twin, self.p_ref = p_twin, p_ref
    self.n_ref = 0
    self.p_prebuilt, self.p_hostile = p_prebuilt, p_hostile
    self.n_prebuilt = self.n_hostile = 0
    self.p_same, self.p_inject, self.p_form = p_same, p_inject, p_form
    self.given = []
    self.ntags = 0
    self.n_shared = 0

  # A root alias may be handed out again deliberately (first use moves the
  # root, the next one must copy it).
  def __call__(self, rng, node, key):
    field = None
    if node is not None and key is not None:
      try:
        field = node.sym_attr_field(key)
      except Exception:  # pylint: disable=broad-except
        field = None
    typed = field is not None and not isinstance(field.value, pg.typing.Any)
    if (not typed and node is not None and key is not None
        and rng.random() < self.p_twin):
      tw = self.twin(rng, node, key)
      if tw is not None:
        self.given.append(tw)
        return tw
    if not typed and self.given and rng.random() < self.p_same:
      return self.share(rng.choice(self.given))
    if not typed and rng.random() < self.p_ref:
      d = self.reference(rng)
      self.given.append(d)
      return d
    d = super().__call__(rng, node, key)
    if (typed and d[0] == 'v' and isinstance(d[1], pg.Object)
        and rng.random() < 4 * self.p_ref):
      self.n_ref += 1
      return ['ref', d]           # a reference to an acceptable object
    if typed and d[0] == 'v':
      if isinstance(d[1], (dict, list)) and rng.random() < self.p_prebuilt:
        # The same value as a PRE-BUILT symbolic container (the caller keeps a
        # tree of its own if the slot refuses it), valid or with one member at
        # some depth that the slot's spec rejects.
        v = d[1]
        if rng.random() < 0.5:
          try:
            v = corrupt(rng, field.value, v) or v
          except Exception:  # pylint: disable=broad-except
            pass
        self.n_prebuilt += 1
        return symbolize(rng, v)
      return d
    if d[0] in CONTAINER_KINDS and rng.random() < self.p_hostile:
      self.n_hostile += hostilize_desc(rng, d, 0.3)
    if d[0] in CONTAINER_KINDS and rng.random() < self.p_inject:
      inject_sharing(rng, d, self)
    if d[0] in SYMBOLIC_KINDS and rng.random() < self.p_form:
      form = pick_form(rng, d)
      if form:
        d = ['ctor', form, d]
    if inner(d)[0] in SYMBOLIC_KINDS or d[0] == 'node':
      self.given.append(d)
    return d

  def reference(self, rng):
    """pg.Ref(...) of a fresh container or of a live node (of another tree
    mostly; a reference into the tree that receives it is refused by the
    library, which must leave everything as it was). The live node may itself
    be a reference node."""
    self.n_ref += 1
    nodes = H.all_nodes(self.forest) if self.forest else []
    if nodes and rng.random() < 0.5:
      refs = [x for x in nodes if isinstance(x[2], pg.Ref)]
      pool = refs if refs and rng.random() < 0.5 else nodes
      other = [x for x in pool if x[0] != self.target[0]]
      if other and rng.random() < 0.85:
        pool = other
      ridx, keys, _ = rng.choice(pool)
      return ['ref', ['node', ridx, list(keys)]]
    while True:
      d = D.gen(rng, 2, classes=self.classes, typed=False,
                symbolic=None if rng.random() < 0.4 else True)
      if d[0] in CONTAINER_KINDS:
        return ['ref', d]

  def twin(self, rng, node, key):
    """The node stored under the same keys in ANOTHER tree of the forest (a
    clone / a deserialized copy of the target tree is a frequent one)."""
    try:
      keys = list(node.sym_path.keys)
      if isinstance(node, pg.List):
        key = rng.randrange(len(node) + 1)
      cands, equal = [], []
      if rng.random() < 0.3:
        # The child that the written position holds right now (a write of a
        # node onto its own position; inside a batch the position may move).
        own = node.sym_getattr(key) if node.sym_hasattr(key) else None
        if isinstance(own, pg.Symbolic) and not isinstance(own, pg.Ref):
          return ['node', self.target[0], keys + [key]]
      for ridx, root in enumerate(self.forest or []):
        if ridx == self.target[0] or not isinstance(root, pg.Symbolic):
          continue
        try:
          holder = D.resolve(self.forest, ridx, keys)
          n = holder.sym_getattr(key)
        except Exception:  # pylint: disable=broad-except
          continue
        if isinstance(n, pg.Symbolic) and not isinstance(n, pg.Ref):
          cands.append(['node', ridx, keys + [key]])
          if type(holder) is type(node) and pg.eq(holder, node):
            equal.append(cands[-1])
      if equal and rng.random() < 0.8:
        return rng.choice(equal)
      return rng.choice(cands) if cands else None
    except Exception:  # pylint: disable=broad-except
      return None

  def share(self, prev):
    """A description that builds to the same object as `prev` (which is
    rewritten in place to a 'same' description when it is a fresh value)."""
    self.n_shared += 1
    if prev[0] == 'node':
      return list(prev)
    if prev[0] != 'same':
      body = list(prev)
      prev[:] = ['same', self.ntags, body]
      self.ntags += 1
    return ['same', prev[1], prev[2]]


def pick_form(rng, d):
  k = d[0]
  if k == 'D':
    if len(d) > 2 and d[2]:
      return None
    forms = ['dict', 'pairs', 'from_json']
    keys = [kk for kk, _ in d[1]]
    if all(isinstance(kk, str) and kk.isidentifier() for kk in keys):
      forms += ['kwargs', 'dict+kwargs']
    return rng.choice(forms)
  if k == 'L':
    if len(d) > 2 and d[2]:
      return None
    return rng.choice(['list', 'from_json'])
  if k == 'O' and d[1] in LOCAL_CLASSES:
    return rng.choice(['kwargs', 'kwargs', 'partial', 'from_json'])
  if k == 'O' and d[1] in UNTYPED:
    names = [kk for kk, _ in d[2]]
    forms = ['kwargs', 'partial', 'from_json']
    if names in (['x'], ['x', 'y']):
      forms.append('positional')
    return rng.choice(forms)
  return None


def slots(desc, path=()):
  """[(owner description, position in its member list, path)] of every member
  slot of an open container at or below `desc`, and [(sub description, path)]
  of every symbolic sub-description."""
  out_slots, out_subs = [], []
  def walk(d, path):
    b = inner(d)
    mem, paired = members(b)
    if mem is None or not open_container(b):
      return                      # typed containers: members stay as generated
    for i, m in enumerate(mem):
      sub = m[1] if paired else m
      p = path + (i,)
      out_slots.append((b, i, p))
      if inner(sub)[0] in SYMBOLIC_KINDS + ('node',):
        out_subs.append((sub, p))
      walk(sub, p)
  walk(desc, path)
  return out_slots, out_subs


def set_slot(owner, i, value):
  mem, paired = members(owner)
  if paired:
    mem[i][1] = value
  else:
    mem[i] = value


def add_slot(rng, owner, value):
  """Adds a member to an open container description; False if impossible."""
  mem, paired = members(owner)
  if not paired:
    mem.insert(rng.randint(0, len(mem)), value)
    return True
  if owner[0] == 'O':
    return False
  keys = [k for k, _ in mem]
  free = [k for k in V.SAFE_KEYS if k not in keys]
  if not free:
    return False
  mem.append([rng.choice(free), value])
  return True


def inject_sharing(rng, desc, src):
  """Rewrites `desc` (in place) so that one symbolic node occurs at two places
  of it: a sub-description of `desc` itself, or an operand handed out earlier
  for the same call. Never puts a node below itself."""
  sl, subs = slots(desc)
  cands = [(s, p) for s, p in subs]
  cands += [(g, None) for g in src.given]
  if not cands:
    return False
  s, sp = rng.choice(cands)
  # Containers of `desc` that may receive the second occurrence: not inside
  # the shared node itself.
  owners = []
  b = inner(desc)
  if open_container(b):
    owners.append((b, ()))
  for sub, p in subs:
    if open_container(inner(sub)):
      owners.append((inner(sub), p))
  if sp is not None:
    owners = [(o, p) for o, p in owners if p[:len(sp)] != sp]
    sl = [(o, i, p) for o, i, p in sl if p[:len(sp)] != sp and sp[:len(p)] != p]
  if sl and rng.random() < 0.5:
    o, i, _ = rng.choice(sl)
    set_slot(o, i, src.share(s))
    return True
  rng.shuffle(owners)
  for o, _ in owners:
    ref = src.share(s)
    if add_slot(rng, o, ref):
      return True
  if sl:
    o, i, _ = rng.choice(sl)
    set_slot(o, i, src.share(s))
    return True
  return False


# ------------------------------------------------ constructor operations ----

CTOR_OPS = {}


def _ctor(name):
  def deco(cls):
    CTOR_OPS[name] = O.Op(name, 'Ctor', cls.gen, cls.run, 'new')
    return cls
  return deco


def literal(g, depth=2):
  """A nested plain dict/list literal whose leaves are operands."""
  r = g.rng.random()
  if depth <= 0 or r < 0.55:
    return g.value(None, None)
  n = g.rng.randint(1, 3)
  if r < 0.8:
    keys = []
    for _ in range(n):
      k = V.key(g.rng, ints=False)
      if k not in keys:
        keys.append(k)
    return ['d', [[k, literal(g, depth - 1)] for k in keys]]
  return ['l', [literal(g, depth - 1) for _ in range(n)]]


@_ctor('new Dict')
class _:
  def gen(g, _):
    keys = []
    for _i in range(g.rng.randint(2, 4)):
      k = V.key(g.rng, ints=g.rng.random() < 0.1)
      if k not in keys:
        keys.append(k)
    d = ['D', [[k, literal(g)] for k in keys]]
    return {'v': ['ctor', pick_form(g.rng, d), d]}
  def run(_, a, B): return B(a['v'])


@_ctor('new List')
class _:
  def gen(g, _):
    d = ['L', [literal(g) for _i in range(g.rng.randint(2, 4))]]
    return {'v': ['ctor', pick_form(g.rng, d), d]}
  def run(_, a, B): return B(a['v'])


@_ctor('new Object')
class _:
  def gen(g, _):
    cls = g.rng.choice(UNTYPED)
    names = ['x'] if cls in ONE_FIELD else (
        ['x', 'y'] if g.rng.random() < 0.85 else [g.rng.choice(['x', 'y'])])
    d = ['O', cls, [[n, literal(g)] for n in names]]
    return {'v': ['ctor', pick_form(g.rng, d), d]}
  def run(_, a, B): return B(a['v'])


@_ctor('new typed')
class _:
  # A schema-bound container (object with typed dict / list fields, pg.Dict /
  # pg.List with a value spec) whose Any slots receive the operands.
  def gen(g, _):
    d = holder_desc(g.rng, sub=lambda: literal(g, 1))
    if g.rng.random() < 0.5:
      # The members are handed over as PRE-BUILT pg.Dict / pg.List values;
      # sometimes one of them is not acceptable (the constructor refuses).
      prebuild_members(g.rng, d, bad=g.rng.random() < 0.4)
    return {'v': d}
  def run(_, a, B): return B(a['v'])


@_ctor('new dynamic')
class _:
  # An object with regex-keyed fields (or a pg.Dict bound to them): several
  # keys of one key spec, given or left to the symbolic default of the field by
  # an explicit pg.MISSING_VALUE; keyword / partial / from_json forms.
  def gen(g, _):
    d = dyn_desc(g.rng, sub=lambda: literal(g, 1))
    form = pick_form(g.rng, d)
    return {'v': ['ctor', form, d] if form else d}
  def run(_, a, B): return B(a['v'])


# ----------------------------------- operations on existing nodes (local) ---
# Operations that are not part of the List / Dict / Object table of
# `gen/ops.py`: calls that hand a node that is ALREADY STORED in a tree to a
# constructor / wrapper of symbolic values again. The node is fetched as a NODE
# (`via`: sym_getattr / sym_values / sym_items / traverse; `d.x` would
# dereference a pg.Ref member). Whatever the call returns, every node that was
# in the forest before must still be intact afterwards.

LOCAL_OPS = {}
VIAS = ('sym_getattr', 'sym_values', 'sym_items', 'traverse')


def _local(name, kind, effect='new'):
  def deco(cls):
    LOCAL_OPS[name] = O.Op(name, kind, cls.gen, cls.run, effect)
    return cls
  return deco


def fetch(forest, ridx, keys, via='sym_getattr'):
  """The node at `keys` of root `ridx`, obtained the way a user obtains the
  symbolic form of a member."""
  if not keys or via == 'sym_getattr':
    return D.resolve(forest, ridx, keys)
  if via == 'traverse':
    got = []
    def visit(path, value, parent):
      if list(path.keys) == list(keys):
        got.append(value)
        return pg.TraverseAction.STOP
      return pg.TraverseAction.ENTER
    pg.traverse(forest[ridx], visit)
    if got:
      return got[0]
    return D.resolve(forest, ridx, keys)
  par = D.resolve(forest, ridx, keys[:-1])
  if via == 'sym_values':
    ks = list(par.sym_keys())
    return list(par.sym_values())[ks.index(keys[-1])]
  return dict(par.sym_items())[keys[-1]]


def _wrap_gen(g, n):
  return {'via': g.rng.choice(VIAS)}


@_local('wrap[Ref]', 'Any')
class _:
  gen = _wrap_gen
  def run(n, a, B): return pg.Ref(n)


@_local('wrap[maybe_ref]', 'Any')
class _:
  gen = _wrap_gen
  def run(n, a, B): return pg.maybe_ref(n)


@_local('wrap[deref]', 'Any')
class _:
  gen = _wrap_gen
  def run(n, a, B): return pg.symbolic.deref(n)


@_local('wrap[from_json]', 'Any')
class _:
  gen = _wrap_gen
  def run(n, a, B): return pg.from_json(n)


@_local('wrap[Insertion]', 'Any')
class _:
  # pg.Insertion(node) handed to a list of ANOTHER position is an ordinary
  # operand; here only the wrapper is made and dropped.
  gen = _wrap_gen
  def run(n, a, B):
    pg.Insertion(n)
    return None


@_local('wrap[Dict]', 'Dict')
class _:
  def gen(g, n): return {'via': g.rng.choice(VIAS),
                         'form': g.rng.choice(['dict', 'kwargs', 'items'])}
  def run(n, a, B):
    if a['form'] == 'kwargs' and all(isinstance(k, str) for k in n.sym_keys()):
      return pg.Dict(**dict(n.sym_items()))
    if a['form'] == 'items':
      return pg.Dict(list(n.sym_items()))
    return pg.Dict(n)


@_local('wrap[List]', 'List')
class _:
  def gen(g, n): return {'via': g.rng.choice(VIAS),
                         'form': g.rng.choice(['list', 'values'])}
  def run(n, a, B):
    return pg.List(list(n.sym_values())) if a['form'] == 'values' else pg.List(n)


@_local('wrap[Object]', 'Object')
class _:
  # type(o)(<the members of o>): keyword / partial / sym_init_args.
  def gen(g, n):
    if isinstance(n, pg.Ref):
      return None
    return {'via': g.rng.choice(VIAS),
            'form': g.rng.choice(['items', 'init_args', 'partial'])}
  def run(n, a, B):
    if a['form'] == 'init_args':
      return type(n)(**dict(n.sym_init_args))
    if a['form'] == 'partial':
      return type(n).partial(**dict(n.sym_items()))
    return type(n)(**dict(n.sym_items()))


@_local('deref[recursive]', 'Any', effect='mutate')
class _:
  def gen(g, n): return {'via': g.rng.choice(VIAS)}
  def run(n, a, B): return pg.symbolic.deref(n, recursive=True)


@_local('rebind[dynamic]', 'Dyn', effect='mutate')
class _:
  # A batch of keys of the regex-keyed fields of one object (present or new),
  # each rebound to a value or to pg.MISSING_VALUE.
  def gen(g, n):
    have = [k for k in n.sym_keys() if isinstance(k, str)]
    ups, names = [], []
    for _i in range(g.rng.randint(2, 4)):
      if isinstance(n, DynAll):
        pre, name = 'a', g.rng.choice(have + ['p', 'q', 'r1', 'zz'])
      else:
        pre = g.rng.choice(DYN_PREFIXES)
        mine = [k for k in have if k.startswith(pre + '_')]
        name = (g.rng.choice(mine) if mine and g.rng.random() < 0.6
                else dyn_names(g.rng, pre, 1)[0])
      if name in names:
        continue
      names.append(name)
      v = (['missing'] if g.rng.random() < 0.4
           else dyn_value(g.rng, pre, lambda: g.value(None, None)))
      ups.append([[name], v])
    opts = {}
    if g.rng.random() < 0.1:
      opts['skip_notification'] = True
    return {'updates': ups, 'opts': opts,
            'form': g.rng.choice(['dict', 'kwargs']),
            'style': g.rng.choice(['raw', 'keypath', 'str']),
            'api': g.rng.choice(['rebind', 'sym_rebind'])}
  def run(n, a, B): return O.OPS['rebind'].run(n, a, B)


def local_ops_for(node, effects=('mutate', 'new', 'flag')):
  k = O.node_kind(node)
  out = [o for o in LOCAL_OPS.values()
         if o.effect in effects and (o.kind in (k, 'Any')
                                     or (o.kind == 'Dyn' and is_dyn(node)))]
  return out


def wrap_ops_for(node):
  return [o for o in local_ops_for(node) if o.name.startswith(('wrap[', 'deref['))]


def prebuild_members(rng, desc, bad=False, p=0.6):
  """Rewrites (in place) plain dict / list members of a typed holder
  description into pre-built symbolic ones; with `bad`, one typed member is
  made unacceptable (a required key dropped, an undeclared key added, a wrong
  leaf type)."""
  mem, paired = members(desc)
  if mem is None:
    return
  typed_dicts = []
  def walk(d, typed):
    m, pr = members(d)
    if m is None:
      return
    if d[0] in ('d', 'l') and rng.random() < p:
      d[0] = d[0].upper()
    if typed and d[0] in ('d', 'D'):
      typed_dicts.append(d)
    for e in m:
      sub = e[1] if pr else e
      # Any slots ('any', 'payload', 'free', members of 'elems' / 'tags' /
      # 'vs' / 'sub') are not typed below.
      walk(sub, typed and (not pr or e[0] in ('cfg', 'rows', 'opts')))
  for e in mem:
    walk(e[1] if paired else e, desc[0] != 'O' or e[0] in ('cfg', 'rows'))
  if bad and typed_dicts:
    d = rng.choice(typed_dicts)
    r = rng.random()
    if r < 0.35 and d[1]:
      del d[1][rng.randrange(len(d[1]))]          # maybe a required key
    elif r < 0.7:
      d[1].append(['__undeclared__', ['v', 1]])
    elif d[1]:
      rng.choice(d[1])[1] = ['L', [['D', []]]] if rng.random() < 0.5 else ['v', 1.5]
  desc_top = desc
  if desc_top[0] in ('D', 'L') and len(desc_top) > 2 and bad and rng.random() < 0.3:
    m, pr = members(desc_top)
    if not pr:
      m.extend([['D', [['id', ['v', 1]]]] for _ in range(4)])   # max_size


def ctor_kind(step):
  d = step['args']['v']
  kind = {'D': 'Dict', 'L': 'List', 'O': 'Object'}[inner(d)[0]]
  if kind == 'Object':
    kind = obj_kind(inner(d))
  elif step['op'] in ('new typed', 'new dynamic'):
    kind += '/typed'
  if d[0] == 'ctor' and d[1] == 'from_json':
    return 'from_json:' + kind
  return kind


# ------------------------------------------------------------- steps --------

def gen_step(rng, forest, p_ctor=0.07, effects=('mutate', 'new', 'flag'),
             p_scope=None, max_nodes=60, value_source_kwargs=None,
             p_hostile=0.5, p_wrap=0.05, p_dyn=0.5):
  """Like `history.gen_step`, with `AliasValueSource` operands, the
  constructor operations and the operations on existing nodes."""
  nodes = H.all_nodes(forest)
  if not nodes:
    return None
  p_scope = p_scope if p_scope is not None else {
      'notify_off': 0.12, 'writable': 0.3, 'no_typecheck': 0.04}
  if rng.random() < p_wrap:
    refs = [x for x in nodes if isinstance(x[2], pg.Ref)]
    for _ in range(5):
      ridx, keys, node = rng.choice(refs if refs and rng.random() < 0.5 else nodes)
      cands = wrap_ops_for(node)
      if len(nodes) > max_nodes:
        cands = [o for o in cands if o.kind == 'Any']
      o = rng.choice(cands)
      args = o.gen(O.GenEnv(rng, None, forest), node)
      if args is None:
        continue
      sc = [name for name, p in p_scope.items()
            if name != 'writable' and rng.random() < p / 2]
      return {'op': o.name, 'at': [ridx, keys], 'args': args, 'scopes': sc,
              'shared': 0, 'hostile': 0, 'prebuilt': 0, 'wrap': True,
              'ref_target': isinstance(node, pg.Ref)}
  if rng.random() < p_ctor and len(nodes) <= max_nodes:
    o = CTOR_OPS[rng.choice(sorted(CTOR_OPS))]
    vs = AliasValueSource(forest, (-1, []), p_alias=0.3, p_same=0.4,
                          **(value_source_kwargs or {}))
    args = o.gen(O.GenEnv(rng, vs, forest), None)
    sc = [name for name, p in p_scope.items()
          if name != 'writable' and rng.random() < p / 2]
    return {'op': o.name, 'at': [0, []], 'args': args, 'scopes': sc,
            'shared': vs.n_shared, 'hostile': vs.n_hostile + hostilize_desc(
                rng, args['v'], 0.25 if rng.random() < p_hostile else 0),
            'prebuilt': vs.n_prebuilt, 'refs': vs.n_ref,
            'missing': max_missing(args['v'])}
  for _ in range(20):
    ridx, keys, node = rng.choice(nodes)
    cands = O.ops_for(node, effects)
    if isinstance(node, pg.Ref):
      # a reference node is a leaf: only the operations of every node apply
      cands = [o for o in cands if o.kind == 'Any']
    if len(nodes) > max_nodes:
      cands = [o for o in cands if o.effect != 'new'] or cands
    if is_dyn(node) and rng.random() < p_dyn:
      cands = [LOCAL_OPS['rebind[dynamic]']]
    if not cands:
      continue
    o = rng.choice(cands)
    vs = AliasValueSource(forest, (ridx, keys), **(value_source_kwargs or {}))
    args = o.gen(O.GenEnv(rng, vs, forest), node)
    if args is None:
      continue
    hostile = vs.n_hostile
    if rng.random() < p_hostile:
      hostile += hostilize_args(rng, node, o.name, args)
    sc = [name for name, p in p_scope.items() if rng.random() < p]
    return {'op': o.name, 'at': [ridx, keys], 'args': args, 'scopes': sc,
            'shared': vs.n_shared, 'hostile': hostile,
            'prebuilt': vs.n_prebuilt, 'refs': vs.n_ref}
  return None


def execute(forest, step, counters=None):
  """Runs one step. Returns (status, result, builder)."""
  B = CallBuilder(forest, counters)
  ctor = CTOR_OPS.get(step['op'])
  try:
    if ctor is not None:
      with O.scopes(step.get('scopes', ())):
        return 'ok', ctor.run(None, step['args'], B), B
    o = LOCAL_OPS.get(step['op']) or O.OPS[step['op']]
    node = fetch(forest, step['at'][0], step['at'][1],
                 step['args'].get('via', 'sym_getattr')
                 if step['op'] in LOCAL_OPS else 'sym_getattr')
    with O.scopes(step.get('scopes', ())):
      return 'ok', o.run(node, step['args'], B), B
  except Exception as e:  # pylint: disable=broad-except
    return 'raise', e, B


def effect(step):
  if step['op'] in CTOR_OPS:
    return 'new'
  return (LOCAL_OPS.get(step['op']) or O.OPS[step['op']]).effect


def apply_step(forest, seen, step, counters=None):
  """Executes one step and evaluates the tree monitor.

  Returns (status, result, problems, builder); `builder.problems` are the
  violations found right after a constructor of an operand returned."""
  status, result, B = execute(forest, step, counters)
  if (status == 'ok' and effect(step) == 'new' and isinstance(result, pg.Symbolic)
      and not any(result is r for r in forest)):
    if step['op'] not in LOCAL_OPS:
      forest.append(result)
    elif (result.sym_parent is None and
          not any(n is result for _, _, n in H.all_nodes(forest))):
      # A wrapper call may return the very node it was given (or a value a
      # reference points to): only what is new and parent-less is a new root.
      forest.append(result)
  H.drop_moved_roots(forest)
  if isinstance(result, pg.Symbolic) and seen is not None:
    seen.setdefault(id(result), result)
  if status == 'raise' and B.operands:
    B.selfref = refused_selfref(B.operands)
  problems = TM.tree_ok(forest, seen, counters)
  if not problems and not B.problems and B.operands:
    if counters is not None and status == 'raise':
      counters['rejected_steps_with_symbolic_operand'] += 1
    B.operand_findings = operand_problems(forest, B.operands, counters)
  return status, result, problems, B


def mechanism(step, status, notify_matters=False, built=None):
  if status == 'raise' and built is not None and built.selfref:
    return SELFREF + '!rejected'
  if step['op'] in CTOR_OPS:
    return f'ctor[{ctor_kind(step)}]' + ('!rejected' if status == 'raise' else '')
  return H.mechanism(step, status, notify_matters)


# ------------------------------------------- typed holders in the forest ----

def holder_cfg_items(rng, sub):
  items = [['name', ['v', rng.choice(['x', 'n', ''])]]]
  if rng.random() < 0.7:
    o = []
    if rng.random() < 0.5:
      o.append(['k', ['v', rng.randint(0, 5)]])
    if rng.random() < 0.5:
      o.append(['sub', ['d', [[V.key(rng, False), sub()]]]])
    if rng.random() < 0.5:
      o.append(['vs', ['l', [sub() for _ in range(rng.randint(0, 2))]]])
    items.append(['opts', ['d', o]])
  if rng.random() < 0.8:
    items.append(['elems', ['l', [sub() for _ in range(rng.randint(0, 3))]]])
  if rng.random() < 0.6:
    items.append(['any', sub()])
  rng.shuffle(items)
  return items


def holder_rows(rng, sub):
  rows = []
  for _ in range(rng.randint(1, 4)):
    r = [['id', ['v', rng.randint(0, 9)]]]
    if rng.random() < 0.7:
      r.append(['payload', sub()])
    if rng.random() < 0.4:
      r.append(['tags', ['l', [sub() for _ in range(rng.randint(0, 2))]]])
    rows.append(['d', r])
  return rows


def holder_desc(rng, depth=2, sub=None):
  """A typed container with symbolic members: a Holder object, or a pg.Dict /
  pg.List bound to the same value specs directly."""
  sub = sub or (lambda: D.gen(rng, rng.randint(0, depth), typed=False,
                              symbolic=None if rng.random() < 0.5 else True))
  r = rng.random()
  if r < 0.5:
    f = [['cfg', ['d', holder_cfg_items(rng, sub)]], ['rows', ['l', holder_rows(rng, sub)]]]
    if rng.random() < 0.5:
      f.append(['free', sub()])
    return ['O', rng.choice(['Holder', 'HolderNotifier']), f]
  if r < 0.8:
    return ['D', holder_cfg_items(rng, sub), {'value_spec': M.holder_cfg_spec()}]
  return ['L', holder_rows(rng, sub), {'value_spec': M.holder_rows_spec()}]


def graft(rng, descs, h, p_member=0.75):
  """Puts the description `h` into the forest descriptions: as a member of an
  untyped container, or as a further root."""
  owners = []
  for d in descs:
    if open_container(d):
      owners.append(d)
    for s, _ in slots(d)[1]:
      if s[0] != 'node' and open_container(s):
        owners.append(s)
  if owners and rng.random() < p_member:
    o = rng.choice(owners)
    sl = [(oo, i) for oo, i, _ in slots(o)[0] if oo is o]
    if sl and (o[0] == 'O' or rng.random() < 0.4):
      set_slot(o, rng.choice(sl)[1], h)
      return
    if add_slot(rng, o, h):
      return
  descs.append(h)


def fresh_ref(rng):
  while True:
    d = D.gen(rng, 2, typed=False, symbolic=None if rng.random() < 0.4 else True)
    if d[0] in CONTAINER_KINDS:
      return ['ref', d]


def make_forest(rng, **kw):
  descs, forest, _ = make_forest2(rng, **kw)
  return descs, forest


def make_forest2(rng, p_holder=0.4, p_hostile=0.4, p_dyn=0.3, p_ref=0.35,
                 counters=None):
  """`history.make_forest` descriptions, into which a typed holder, an object
  with dynamic fields and reference nodes are grafted (as members of untyped
  containers, or as further roots). Returns (descs, forest, problems);
  problems = [(clause, mechanism, detail)] found right after a constructor
  returned."""
  n_roots = rng.choice([1, 1, 2, 3])
  descs = []
  for _ in range(n_roots):
    while True:
      d = D.gen(rng, 3, classes=('Any2', 'Writable', 'Notifier', 'Bound'),
                typed=True, symbolic=True)
      if d[0] in ('D', 'L', 'O'):
        break
    descs.append(d)
  if rng.random() < p_holder:
    graft(rng, descs, holder_desc(rng))
  if rng.random() < p_dyn:
    h = dyn_desc(rng, sub=lambda: D.gen(rng, rng.randint(0, 2), typed=False,
                                        symbolic=None if rng.random() < 0.5 else True))
    form = pick_form(rng, h)
    graft(rng, descs, ['ctor', form, h] if form else h)
  if rng.random() < p_ref:
    for _ in range(rng.randint(1, 3)):
      graft(rng, descs, fresh_ref(rng), p_member=0.9)
  if rng.random() < p_hostile:
    for d in descs:
      hostilize_desc(rng, d, rng.choice([0.15, 0.3, 0.6]))
  B = CallBuilder([], counters)
  return descs, [B.build(d) for d in descs], B.problems
