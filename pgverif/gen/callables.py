"""Decorated callables and nested partial argument values (C18).

Part 1 - DECORATOR STACKS.  A stack is a list of layers applied bottom-up to a
plain function (or to the `__init__` of a class).  Every layer is an ordinary
Python decorator a user could write: its wrapper takes `(*args, **kwargs)`, is
a *function* (what pg.functor / pg.symbolize accept) and carries the metadata
of what it decorates the way `functools.wraps` does, so `inspect.signature`
shows the parameters of the innermost function.  Every layer has an effect a
caller can see:

  result     the result is wrapped: {'layer': tag, 'inner': result}
  args       the call is bound with the signature of the decorated callable,
             defaults applied, and every int argument is increased by 1000
  count      counts its calls (since the harness last reset the stack) and
             reports the number: {'count': n, 'inner': result}
  reject     raises ValueError when an argument equals 7
  translate  turns a ValueError raised below into a KeyError
  lru        functools.lru_cache (never outermost: not a function)
  partial    functools.partial binding one keyword-only parameter (never
             outermost); that parameter then has the bound value as default

The effects do not depend on whether an argument is passed positionally or by
keyword, nor on whether a default is passed explicitly.
"""
import functools
import inspect

REJECTED = 7
STYLES = ['wraps', 'wraps', 'update_wrapper', 'manual', 'signature']


def _dress(wrapper, fn, style):
  """Makes `wrapper` look like `fn` in one of the usual ways."""
  if style == 'wraps':
    return functools.wraps(fn)(wrapper)
  if style == 'update_wrapper':
    return functools.update_wrapper(wrapper, fn)
  for attr in ('__module__', '__name__', '__qualname__', '__doc__'):
    if hasattr(fn, attr):
      setattr(wrapper, attr, getattr(fn, attr))
  if style == 'manual':
    wrapper.__wrapped__ = fn
  else:
    # no `__wrapped__`: only the signature is presented
    wrapper.__signature__ = inspect.signature(fn)
  return wrapper


def _values(args, kwargs, method):
  return list(args[1:] if method else args) + list(kwargs.values())


def _effect(method, args, r, wrap):
  """Applies the result effect: on the return value, or on `self.got`."""
  if method:
    args[0].got = wrap(args[0].got)
    return None
  return wrap(r)


def layer(kind, tag, style, state, method=False, option=None):
  """Returns the decorator of one layer."""
  if kind == 'result':
    def deco(fn):
      def wrapper(*args, **kwargs):
        r = fn(*args, **kwargs)
        return _effect(method, args, r, lambda x: {'layer': tag, 'inner': x})
      return _dress(wrapper, fn, style)
  elif kind == 'count':
    def deco(fn):
      def wrapper(*args, **kwargs):
        state[tag] = n = state.get(tag, 0) + 1
        r = fn(*args, **kwargs)
        return _effect(method, args, r, lambda x: {'count': n, 'inner': x})
      return _dress(wrapper, fn, style)
  elif kind == 'args':
    def deco(fn):
      sig = inspect.signature(fn)
      def wrapper(*args, **kwargs):
        ba = sig.bind(*args, **kwargs)
        ba.apply_defaults()
        up = lambda v: v + 1000 if type(v) is int else v
        for name, v in list(ba.arguments.items()):
          p = sig.parameters[name]
          if method and name == 'self':
            continue
          if p.kind == p.VAR_POSITIONAL:
            ba.arguments[name] = tuple(up(x) for x in v)
          elif p.kind == p.VAR_KEYWORD:
            ba.arguments[name] = {k: up(x) for k, x in v.items()}
          else:
            ba.arguments[name] = up(v)
        return fn(*ba.args, **ba.kwargs)
      return _dress(wrapper, fn, style)
  elif kind == 'reject':
    def deco(fn):
      def wrapper(*args, **kwargs):
        if any(type(v) is int and v == REJECTED for v in _values(args, kwargs, method)):
          raise ValueError(f'{tag}: {REJECTED} is not accepted')
        return fn(*args, **kwargs)
      return _dress(wrapper, fn, style)
  elif kind == 'translate':
    def deco(fn):
      def wrapper(*args, **kwargs):
        try:
          return fn(*args, **kwargs)
        except ValueError as e:
          raise KeyError(f'{tag}: {e}') from e
      return _dress(wrapper, fn, style)
  elif kind == 'lru':
    def deco(fn):
      cached = functools.lru_cache(maxsize=None)(fn)
      state.setdefault('caches', []).append(cached)
      return cached
  elif kind == 'partial':
    def deco(fn):
      return functools.partial(fn, **option)
  else:
    raise ValueError(kind)
  return deco


VISIBLE = ('result', 'args', 'count')


def make_stack(rng, sig, method=False):
  """[(kind, tag, style, option)] bottom-up; the outermost layer is a function
  and at least one layer changes every result.  Also returns the signature the
  decorated callable presents (a `partial` layer gives a default)."""
  depth = rng.choice([1, 1, 2, 2, 3])
  units = [rng.choice(VISIBLE)] + [
      rng.choice(['result', 'args', 'count', 'reject', 'reject+translate'])
      for _ in range(depth - 1)]
  rng.shuffle(units)
  flat = []
  for k in units:
    flat += ['reject', 'translate'] if k == 'reject+translate' else [k]
  # transparent library layers, never outermost
  shown = dict(sig)
  option = {}
  if not method:
    if sig['typed'] and rng.random() < 0.4:
      flat.insert(rng.randint(0, len(flat) - 1), 'lru')
    if sig['kwonly'] and rng.random() < 0.35:
      i = rng.randrange(len(sig['kwonly']))
      name, _, _, annot = sig['kwonly'][i]
      option = {name: 50 + i}
      shown['kwonly'] = list(sig['kwonly'])
      shown['kwonly'][i] = (name, True, 50 + i, annot)
      flat.insert(rng.randint(0, len(flat) - 1), 'partial')
  stack = []
  for n, k in enumerate(flat):
    stack.append((k, f'L{n}', rng.choice(STYLES), option if k == 'partial' else None))
  return stack, shown


def apply_stack(fn, stack, state, method=False):
  for kind, tag, style, option in stack:
    fn = layer(kind, tag, style, state, method, option)(fn)
  return fn


def describe_stack(stack):
  """Outermost first, as decorator lines."""
  out = []
  for kind, tag, style, option in reversed(stack):
    s = f'@{kind}'
    if kind not in ('lru', 'partial'):
      s += f'[{style}]'
    if option:
      s += repr(option)
    out.append(s)
  return out


def reset(state):
  for k in list(state):
    if k != 'caches':
      state[k] = 0
  for c in state.get('caches', ()):
    c.cache_clear()


def strip_layers(exp, got):
  """Peels the effects both results agree on; returns the first pair that
  differs in an effect, or the innermost pair."""
  while (isinstance(exp, dict) and isinstance(got, dict) and 'inner' in exp and 'inner' in got
         and set(exp) == set(got) and len(exp) == 2
         and all(exp[k] == got[k] for k in exp if k != 'inner')):
    exp, got = exp['inner'], got['inner']
  return exp, got


def has_effect(x):
  return isinstance(x, dict) and 'inner' in x and len(x) == 2 and ('layer' in x or 'count' in x)


# -- Part 2: nested partial argument values ---------------------------------------
#
# A nested value is described by a plain structure
#   {'kind': K, 'fields': {name: leaf | description}}      (dict-like kinds)
#   {'kind': 'list', 'items': [leaf | description, ...]}
# where a leaf is an int or HOLE (a required value that is still missing).
# `build` makes the symbolic value (partial where it has holes), `expect` gives
# the snapshot `snap` must return for it, `holes` lists the paths of its holes.

import pyglove as pg   # pylint: disable=g-import-not-at-top,wrong-import-position

HOLE = 'HOLE'
MISSING_SNAP = 'MISSING'


class NInner(pg.Object):
  x: int
  y: int = 0


class NPair(pg.Object):
  x: int
  w: int
  y: int = 0


class NOuter(pg.Object):
  inner: NInner
  z: int = 0


class _Point:

  def __init__(self, x, y=0):
    self.xy = (x, y)


NPoint = pg.symbolize(_Point, class_name='NPoint', module_name=__name__)


@pg.functor
def n_apply(p, q=2):
  return (p, q)


TYPED_DICT = pg.typing.Dict([('x', pg.typing.Int()), ('y', pg.typing.Int(default=1))])

OBJECT_KINDS = {'object': NInner, 'pair': NPair, 'outer': NOuter, 'symbolized': NPoint,
                'functor': n_apply}
REQUIRED = {'object': ['x'], 'pair': ['x', 'w'], 'outer': ['inner'], 'symbolized': ['x'],
            'functor': [], 'typed-dict': ['x'], 'dict': []}
NESTED_KINDS = ['object', 'object', 'pair', 'outer', 'symbolized', 'typed-dict', 'typed-dict',
                'dict-of-object', 'list-of-object', 'functor-of-object', 'functor-of-typed-dict',
                'dict-of-list-of-object']


def make_nested(rng, kind=None):
  """A description with 1-2 holes."""
  kind = kind or rng.choice(NESTED_KINDS)
  v = lambda: rng.randint(2, 6)
  if kind == 'object':
    return {'kind': 'object', 'fields': {'x': HOLE, 'y': v()}}
  if kind == 'pair':
    return {'kind': 'pair', 'fields': {'x': HOLE, 'w': rng.choice([HOLE, v()]), 'y': v()}}
  if kind == 'outer':
    return {'kind': 'outer', 'fields': {'inner': make_nested(rng, 'object'), 'z': v()}}
  if kind == 'symbolized':
    return {'kind': 'symbolized', 'fields': {'x': HOLE, 'y': v()}}
  if kind == 'typed-dict':
    return {'kind': 'typed-dict', 'fields': {'x': HOLE, 'y': v()}}
  if kind == 'dict-of-object':
    return {'kind': 'dict', 'fields': {'u': v(), 'z': make_nested(rng, rng.choice(['object', 'pair', 'symbolized']))}}
  if kind == 'list-of-object':
    items = [make_nested(rng, rng.choice(['object', 'typed-dict'])), v()]
    rng.shuffle(items)
    return {'kind': 'list', 'items': items}
  if kind == 'functor-of-object':
    return {'kind': 'functor', 'fields': {'p': make_nested(rng, rng.choice(['object', 'outer'])), 'q': v()}}
  if kind == 'functor-of-typed-dict':
    return {'kind': 'functor', 'fields': {'p': make_nested(rng, 'typed-dict'), 'q': v()}}
  if kind == 'dict-of-list-of-object':
    return {'kind': 'dict', 'fields': {'l': make_nested(rng, 'list-of-object')}}
  raise ValueError(kind)


def is_desc(d):
  return isinstance(d, dict) and 'kind' in d


def children(d):
  """[(path step, child)]; a step is '.name' or '[i]'."""
  if d['kind'] == 'list':
    return [(f'[{i}]', c) for i, c in enumerate(d['items'])]
  return [('.' + k, c) for k, c in d['fields'].items()]


def holes(d, prefix=''):
  out = []
  for step, c in children(d):
    if c == HOLE:
      out.append(prefix + step)
    elif is_desc(c):
      out += holes(c, prefix + step)
  return out


def leaves(d, prefix=''):
  """Paths of all int leaves (for a later modification)."""
  out = []
  for step, c in children(d):
    if is_desc(c):
      out += leaves(c, prefix + step)
    elif c != HOLE:
      out.append(prefix + step)
  return out


def kinds_in(d):
  out = {d['kind']}
  for _, c in children(d):
    if is_desc(c):
      out |= kinds_in(c)
  return out


def _steps(path):
  import re  # pylint: disable=g-import-not-at-top
  return re.findall(r'\.[A-Za-z_]\w*|\[\d+\]', path)


def put(d, path, value):
  """Sets the leaf at `path` (relative to `d`) in the description."""
  steps = _steps(path)
  for s in steps[:-1]:
    d = d['items'][int(s[1:-1])] if s[0] == '[' else d['fields'][s[1:]]
  s = steps[-1]
  if s[0] == '[':
    d['items'][int(s[1:-1])] = value
  else:
    d['fields'][s[1:]] = value


def get(d, path):
  for s in _steps(path):
    d = d['items'][int(s[1:-1])] if s[0] == '[' else d['fields'][s[1:]]
  return d


def build(d):
  """The symbolic value of a description (partial where it has holes)."""
  if not is_desc(d):
    return d
  kind = d['kind']
  if kind == 'list':
    return pg.List([build(c) for c in d['items']])
  given = {k: build(c) for k, c in d['fields'].items() if c != HOLE}
  if kind == 'dict':
    return pg.Dict(**given)
  if kind == 'typed-dict':
    return pg.Dict.partial(given, value_spec=TYPED_DICT)
  cls = OBJECT_KINDS[kind]
  if kind == 'functor':
    return cls(**given)
  return cls.partial(**given) if holes(d) else cls(**given)


def expect(d):
  """What `snap(build(d))` must be."""
  if not is_desc(d):
    return MISSING_SNAP if d == HOLE else d
  kind = d['kind']
  if kind == 'list':
    return [expect(c) for c in d['items']]
  body = {k: expect(c) for k, c in d['fields'].items()}
  if kind in ('dict', 'typed-dict'):
    return body
  return [OBJECT_KINDS[kind].__name__, body]


def snap(v):
  """Plain content of an argument value, taken when the callable runs."""
  if isinstance(v, pg.Object):
    return [type(v).__name__, {k: snap(c) for k, c in v.sym_items()}]
  if isinstance(v, dict):
    return {k: snap(c) for k, c in v.items()}
  if isinstance(v, (list, tuple)):
    return [snap(c) for c in v]
  if pg.MISSING_VALUE == v:
    return MISSING_SNAP
  return v


# -- Part 3: annotated signatures whose annotations are unions ---------------------
#
# An annotation is (source text, member types in the order written, class).  With
# typing derived from annotations (auto_typing=True) every member type is
# accepted by the library as it is, so a value whose exact type is one of the
# members must reach the callable unchanged - whatever the order of the members.
# Values of other types are not generated (plain Python does not check them,
# the library does, or converts them as documented for a plain `float`).

UNION_ANNOTATIONS = [
    ('Union[float, int]', (float, int), 'union'),
    ('Union[int, float]', (int, float), 'union'),
    ('Union[float, int]', (float, int), 'union'),
    ('Union[int, float]', (int, float), 'union'),
    ('float | int', (float, int), 'union'),
    ('int | float', (int, float), 'union'),
    ('Union[int, str]', (int, str), 'union'),
    ('Union[str, int]', (str, int), 'union'),
    ('Union[float, str]', (float, str), 'union'),
    ('Union[str, float, int]', (str, float, int), 'union'),
    ('Union[bool, int]', (bool, int), 'union'),
    ('Union[int, bool]', (int, bool), 'union'),
    ('Union[float, bool]', (float, bool), 'union'),
    ('Union[bool, str]', (bool, str), 'union'),
    ('Union[Union[float, str], int]', (float, str, int), 'union'),
    ('Optional[int]', (int, None), 'optional'),
    ('Optional[float]', (float, None), 'optional'),
    ('Optional[str]', (str, None), 'optional'),
    ('Optional[Union[float, int]]', (float, int, None), 'optional-union'),
    ('Optional[Union[int, float]]', (int, float, None), 'optional-union'),
    ('Union[int, None]', (int, None), 'optional'),
    ('Union[None, float, int]', (float, int, None), 'optional-union'),
    ('Union[float, str, None]', (float, str, None), 'optional-union'),
    ('float | int | None', (float, int, None), 'optional-union'),
    ('List[Union[float, int]]', ([float, int],), 'container-of-union'),
    ('List[Union[int, float]]', ([int, float],), 'container-of-union'),
    ('int', (int,), 'plain'),
    ('float', (float,), 'plain'),
    ('str', (str,), 'plain'),
    ('Any', (int, float, str, bool, None), 'plain'),
    (None, (int, float, str, bool, None), 'plain'),
]
UNION_NAMESPACE = {}
exec('from typing import Any, Dict, List, Optional, Tuple, Union', UNION_NAMESPACE)  # pylint: disable=exec-used
ANNOTATION_CLASS = {a[0]: a[2] for a in UNION_ANNOTATIONS}
ANNOTATION_MEMBERS = {a[0]: a[1] for a in UNION_ANNOTATIONS}
EXTRA_NAMES = ['zz', 'yy', 'alpha', 'Beta', 'm2', 'x10', 'x9']

_EARLY = {int: [1, 2, 3, 4, 5, 6, 8, 9], float: [0.5, 2.0, 3.0, 7.5], str: ['s', 't', ''],
          bool: [True, False], None: [None]}
_LATE = {int: [11, 12, 13, 14, 15, 16, 17, 18, 19], float: [11.5, 12.0, 13.0, 17.25],
         str: ['fresh', 'late']}


def union_value(rng, annot, late=False):
  """A value whose exact type is a member of the annotation.  `late` values are
  different from (!=) every early value and every default."""
  members = ANNOTATION_MEMBERS[annot]
  m = rng.choice(members)
  if isinstance(m, list):
    pool = [x for x in m if not late or x in _LATE]
    return [union_value_of(rng, rng.choice(pool), late) for _ in range(rng.randint(0 if not late else 1, 3))]
  if late and m not in _LATE:
    m = rng.choice([x for x in members if x in _LATE])
  return union_value_of(rng, m, late)


def union_value_of(rng, member, late=False):
  return rng.choice((_LATE if late else _EARLY)[member])


def union_default(rng, annot, i):
  """A default of a member type (ints 10*(i+1) as in the plain generator)."""
  members = ANNOTATION_MEMBERS[annot]
  m = rng.choice(members)
  if isinstance(m, list):
    return [union_default_of(rng.choice(m), i), union_default_of(rng.choice(m), i + 1)]
  return union_default_of(m, i)


def union_default_of(member, i):
  if member is int:
    return 10 * (i + 1)
  if member is float:
    return 10.0 * (i + 1) if i % 2 else 10 * (i + 1) + 0.5
  if member is str:
    return 'dflt'
  if member is bool:
    return i % 2 == 0
  return None


def annotate_signature(rng, sig):
  """`sig` (any shape made by signatures.make_signature) with every parameter,
  *args and **kwargs annotated from UNION_ANNOTATIONS and defaults of a member
  type.  A parameter whose annotation admits None always has a default (whether
  `Optional[...]` implies one is left open)."""
  def pick(need_default_free):
    while True:
      a = rng.choice(UNION_ANNOTATIONS)
      if need_default_free and None in a[1] and a[0] not in (None, 'Any'):
        continue
      return a[0]
  def params(ps, offset=0):
    out = []
    for i, (name, has_default, _, _) in enumerate(ps):
      annot = pick(not has_default)
      out.append((name, has_default, union_default(rng, annot, i + offset) if has_default else None,
                  annot))
    return out
  star = lambda: rng.choice([a[0] for a in UNION_ANNOTATIONS if a[2] in ('union', 'plain')])
  return {'pos': params(sig['pos']), 'varargs': sig['varargs'],
          'kwonly': params(sig['kwonly'], 9), 'varkw': sig['varkw'], 'typed': True,
          'varargs_annot': star() if sig['varargs'] else None,
          'varkw_annot': star() if sig['varkw'] else None}


def render_annotated_params(sig):
  """Parameter list of an annotated signature (also `*args: T`, `**kw: T`)."""
  def one(p):
    name, has_default, default, annot = p
    s = name + (f': {annot}' if annot else '')
    if has_default:
      s += (' = ' if annot else '=') + repr(default)
    return s
  def star(prefix, name, annot):
    return prefix + name + (f': {annot}' if annot else '')
  parts = [one(p) for p in sig['pos']]
  if sig.get('posonly'):
    parts.insert(sig['posonly'], '/')       # the first `posonly` parameters are positional-only
  if sig['varargs']:
    parts.append(star('*', sig['varargs'], sig.get('varargs_annot')))
  elif sig['kwonly']:
    parts.append('*')
  parts += [one(p) for p in sig['kwonly']]
  if sig['varkw']:
    parts.append(star('**', sig['varkw'], sig.get('varkw_annot')))
  return ', '.join(parts)


def annotation_of(sig, name=None, position=None):
  """Annotation that governs a keyword `name` / the positional value number
  `position` ('' = the value cannot be bound: any value will do)."""
  if position is not None:
    if position < len(sig['pos']):
      return sig['pos'][position][3]
    return sig.get('varargs_annot') if sig['varargs'] else ''
  for p in sig['pos'] + sig['kwonly']:
    if p[0] == name:
      return p[3]
  return sig.get('varkw_annot') if sig['varkw'] else ''


# -- Part 4: legal signatures of a special shape -----------------------------------
RECEIVER_NAMES = ['self', 'cls', 'this', 'other', 'obj']


def special_signature(rng, sig, variant):
  """`sig` (with at least one positional parameter) as
     'receiver-name'    a plain function whose first parameter has a name that is
                        conventional for a method receiver (def f(self, b=10): ...);
     'positional-only'  the first 1..n positional parameters are positional-only.
  Returns (signature, tag)."""
  out = dict(sig, pos=list(sig['pos']), varargs_annot=None, varkw_annot=None)
  if variant == 'receiver-name':
    name = rng.choice(RECEIVER_NAMES)
    out['pos'][0] = (name,) + tuple(sig['pos'][0][1:])
    return out, f'{name}-first'
  out['posonly'] = rng.randint(1, len(sig['pos']))
  return out, 'positional-only'
