"""Value descriptions: JSON-able recipes from which operand values are built.

A description is a list whose first element names its kind:

  ['v', plain]                 a plain Python value (deep-copied on build)
  ['D', [[k, desc]...], opts]  pg.Dict        ['L', [desc...], opts]  pg.List
  ['d', [[k, desc]...]]        plain dict     ['l', [desc...]]        plain list
  ['O', clsname, [[k, desc]...]]  object of a pgverif.models class
  ['leaf', n]                  non-symbolic leaf object
  ['node', root_index, [keys]] a node that already lives in the forest (aliasing)
  ['missing']                  pg.MISSING_VALUE
  ['ins', desc]                pg.Insertion(value)
  ['t', [desc...]]             tuple

Descriptions keep histories replayable and printable.
"""
import copy
import pyglove as pg
from pgverif import models as M
from pgverif.gen import values as V


def build(desc, forest=None, plain=False):
  """Builds the value for `desc`. With plain=True symbolic containers are
  rendered as built-in ones (reference-model side)."""
  k = desc[0]
  if k == 'v':
    return copy.deepcopy(desc[1])
  if k in ('D', 'd'):
    items = {kk: build(vv, forest, plain) for kk, vv in desc[1]}
    if k == 'd' or plain:
      return items
    return pg.Dict(items, **(desc[2] if len(desc) > 2 else {}))
  if k in ('L', 'l'):
    items = [build(vv, forest, plain) for vv in desc[1]]
    if k == 'l' or plain:
      return items
    return pg.List(items, **(desc[2] if len(desc) > 2 else {}))
  if k == 't':
    return tuple(build(vv, forest, plain) for vv in desc[1])
  if k == 'O':
    cls = getattr(M, desc[1])
    return cls(**{kk: build(vv, forest, plain) for kk, vv in desc[2]})
  if k == 'leaf':
    return M.Leaf(desc[1])
  if k == 'node':
    return resolve(forest, desc[1], desc[2])
  if k == 'missing':
    return pg.MISSING_VALUE
  if k == 'ins':
    return pg.Insertion(build(desc[1], forest, plain))
  raise ValueError(desc)


def resolve(forest, ridx, keys):
  node = forest[ridx]
  for key in keys:
    node = node.sym_getattr(key)
  return node


def gen(rng, depth=2, leaf=None, classes=('Any2', 'Writable', 'Notifier'),
        typed=False, width=3, symbolic=None, int_keys=False, leaves=True):
  """Random description of a nested value."""
  leaf = leaf or V.small_prim
  r = rng.random()
  if depth <= 0 or r < 0.3:
    if leaves and rng.random() < 0.04:
      return ['leaf', rng.randint(0, 3)]
    return ['v', leaf(rng)]
  sym = symbolic if symbolic is not None else rng.random() < 0.7
  sub = lambda: gen(rng, depth - 1, leaf, classes, typed, width, symbolic,
                    int_keys, leaves)
  n = rng.randint(0, width)
  if r < 0.55:
    keys = []
    for _ in range(n):
      kk = V.key(rng, ints=int_keys)
      if kk not in keys:
        keys.append(kk)
    return ['D' if sym else 'd', [[kk, sub()] for kk in keys]]
  if r < 0.8 or not classes or not sym:
    return ['L' if sym else 'l', [sub() for _ in range(n)]]
  if typed and rng.random() < 0.4:
    return typed_obj(rng)
  cls = rng.choice(list(classes))
  if cls in ('Bound', 'NoSymCmp'):
    return ['O', cls, [['x', sub()]]]
  return ['O', cls, [['x', sub()], ['y', sub()]]]


def typed_obj(rng, clsname=None, fill=0.5):
  clsname = clsname or rng.choice(
      ['Typed', 'TypedSub', 'Inner', 'TypedNotifier', 'Required'])
  cls = getattr(M, clsname)
  fields = []
  for k, f in cls.__schema__.fields.items():
    if not isinstance(k, pg.typing.ConstStrKey) or f.value.frozen:
      continue
    if V.needs_value(f.value) or rng.random() < fill:
      fields.append([str(k), ['v', V.value_for(f.value, rng, valid=True)]])
  return ['O', clsname, fields]


def show(desc):
  """Compact printable form."""
  k = desc[0]
  if k == 'v':
    return repr(desc[1])
  if k in ('D', 'd'):
    s = ', '.join(f'{kk!r}: {show(vv)}' for kk, vv in desc[1])
    return ('pg.Dict({%s})' if k == 'D' else '{%s}') % s
  if k in ('L', 'l'):
    s = ', '.join(show(vv) for vv in desc[1])
    return ('pg.List([%s])' if k == 'L' else '[%s]') % s
  if k == 't':
    return '(%s,)' % ', '.join(show(vv) for vv in desc[1])
  if k == 'O':
    return '%s(%s)' % (desc[1], ', '.join(f'{kk}={show(vv)}' for kk, vv in desc[2]))
  if k == 'leaf':
    return f'Leaf({desc[1]})'
  if k == 'node':
    return f'<node root{desc[1]}{desc[2]}>'
  if k == 'missing':
    return 'MISSING_VALUE'
  if k == 'ins':
    return f'Insertion({show(desc[1])})'
  return repr(desc)
