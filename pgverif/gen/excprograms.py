"""Programs whose VALUES are exception objects / classes (C19).

An exception instance is an ordinary value: a program may construct one
without raising it, keep it in a variable (`last_error = RuntimeError(...)`),
put it into a container, return it from a function, print it, or have it as
the value of its last line.  Plain execution treats it like any other object;
so must every way of executing the text.  The same pool is used for programs
that really raise, so that "value" and "raised" can be told apart.

Each program comes with a tag (known by construction) saying where the
exception object ends up.  Programs start with `probe.hit` like the ones of
`programs.py` and use the globals of `programs.initial_globals` plus
`extra_globals()`.
"""


class UserError(Exception):
  """User-defined, picklable (importable from this module)."""


class UserValueError(ValueError):
  """User-defined subclass of a builtin."""


class UserCodedError(Exception):
  """User-defined with its own constructor and attribute (pickles: args match)."""

  def __init__(self, code, reason='unknown'):
    super().__init__(code, reason)
    self.code = code


def extra_globals():
  return {'UserError': UserError, 'UserValueError': UserValueError,
          'UserCodedError': UserCodedError}


# Exception instances that are `Exception`s (may also be raised by a program).
INSTANCES = [
    "ValueError('boom')", "KeyError('k')", "RuntimeError('bad input', g0)",
    "OSError(2, 'no such thing')", 'Exception()', 'StopIteration(g1)',
    "ZeroDivisionError('division by zero')", "LookupError('a', 'b', 3)",
    'AssertionError()', 'TypeError(None)', "IndexError(gl[0])",
    "UnicodeDecodeError('utf-8', b'x', 0, 1, 'bad')", "NotImplementedError('later')",
    "ExceptionGroup('grp', [ValueError(1), KeyError('k')])",
    "UserError('m', g0)", 'UserError()', "UserValueError('v')",
    "UserCodedError(4, 'why')", 'UserCodedError(g1)',
    "ValueError(KeyError('inner'))", "RuntimeError(['a', {'b': 1}], None)",
]
# Instances of BaseException that are not Exception: values only.
BASE_INSTANCES = ['KeyboardInterrupt()', 'SystemExit(2)', 'GeneratorExit()',
                  "BaseException('b', 1)"]
CLASSES = ['ValueError', 'KeyError', 'Exception', 'OSError', 'UserError', 'UserCodedError',
           'UserValueError', 'BaseException', 'StopIteration', 'ExceptionGroup']
PLAIN = ['g0 + 1', "'done'", 'None', '[g0, g1]', 'len(gl)', '2.5', "{'ok': True}"]
RAISING = ['1 // (g0 - g0)', "int('x')", "gd['missing']", 'gl[99]', 'undefined_name_q']
PRELUDE = ["x = g0 + 1", "print('start')", 'problems = [] if g0 == 0 else None',
           'n = len(gl)', 'pass', '# a comment', "status = 'checking'"]

TAGS = ['result-is-exception-instance', 'result-is-exception-class',
        'result-contains-exception', 'variable-is-exception', 'prints-exception',
        'raises-exception', 'raises-program-defined-exception',
        'result-is-program-defined-exception']
WEIGHTS = [6, 2, 3, 2, 1.5, 3, 0.6, 1]


def _pick(rng, items, weights):
  r = rng.random() * sum(weights)
  for it, w in zip(items, weights):
    r -= w
    if r < 0:
      return it
  return items[-1]


def exception_value_program(rng, tag=None):
  """Returns (program text, tag)."""
  if tag is None:
    tag = _pick(rng, TAGS, WEIGHTS)
  inst = lambda: rng.choice(INSTANCES + (BASE_INSTANCES if rng.random() < 0.15 else []))
  e1, e2 = inst(), inst()
  cls = rng.choice(CLASSES)
  lines = ['probe.hit']
  for _ in range(rng.choice([0, 0, 1, 2])):
    lines.append(rng.choice(PRELUDE))
  if tag == 'result-is-exception-instance':
    body = rng.choice([
        [e1],
        [f'last_error = {e1}'],
        [f'a1 = b1 = {e1}'],
        [f'err = {e1}', 'err'],
        [f'err: Exception = {e1}'],
        ['def mk(x):', f'  return {e1}', 'mk(1)'],
        ['try:', f'  {rng.choice(RAISING)}', 'except Exception as ex:', '  caught = ex', 'caught'],
        ['try:', f'  raise {rng.choice(INSTANCES)}', 'except Exception as ex:', '  caught = ex',
         'last_error = caught'],
        [f'errs = [{e1}, {e2}]', f'errs[{rng.randint(0, 1)}]'],
        [f'({e1}).with_traceback(None)'],
        [f'first = {e2}', f'last_error = {e1}'],
        [f'{e1} if g0 else None'],
        [f'(lambda: {e1})()'],
    ])
  elif tag == 'result-is-exception-class':
    body = rng.choice([[cls], [f'kind = {cls}'], [f'type({e1})'], [f'kind = ({e1}).__class__'],
                       [f'err = {e1}', cls]])
  elif tag == 'result-contains-exception':
    body = rng.choice([
        [f'[{e1}, 1]'],
        [f"report = {{'error': {e1}, 'ok': False}}"],
        [f'({e1}, {cls})'],
        [f'errs = [{e1}]', f'errs.append({e2})', 'errs'],
        [f"{{'errors': [{e1}], 'kinds': ({cls},)}}"],
        [f'pair = ({e1}, {e2})'],
        [f'[{e1}]'],
    ])
  elif tag == 'variable-is-exception':
    body = [f'err = {e1}']
    if rng.random() < 0.5:
      body.append(f'kind = {cls}')
    if rng.random() < 0.4:
      body.append(f'errs = [{e2}]')
    body.append(rng.choice(PLAIN) if rng.random() < 0.6 else f'answer = {rng.choice(PLAIN)}')
  elif tag == 'prints-exception':
    body = [f'err = {e1}', rng.choice(['print(repr(err))', 'print(err)', "print('error:', err)",
                                       'print(type(err).__name__, err.args)'])]
    if rng.random() < 0.4:
      body.append(rng.choice(PLAIN))
  elif tag == 'raises-exception':
    e1 = rng.choice(INSTANCES)
    body = rng.choice([
        [f'raise {e1}'],
        [f'err = {e1}', 'raise err'],
        ['def fail(x):', f'  raise {e1}', 'fail(1)'],
        [f'raise {e1} from None'],
        [f'raise {rng.choice([c for c in CLASSES if c not in ("BaseException", "ExceptionGroup", "UserCodedError")])}'],
        [f'raise {e1} from {e2 if e2 in INSTANCES else "None"}'],
        ['try:', f'  {rng.choice(RAISING)}', 'except Exception as ex:', f'  raise {e1} from ex'],
        [f'errs = [{e1}]', 'raise errs[0]'],
    ])
    if rng.random() < 0.4:
      body.append(rng.choice(PLAIN))
  elif tag == 'raises-program-defined-exception':
    body = ['class Bad(Exception):', '  pass', rng.choice(["raise Bad('x', g0)", 'raise Bad', 'raise Bad()'])]
  elif tag == 'result-is-program-defined-exception':
    body = ['class Bad(Exception):', '  pass',
            rng.choice(['Bad(1)', "last_error = Bad('x')", '[Bad(2)]', 'Bad'])]
  else:
    raise AssertionError(tag)
  return '\n'.join(lines + body) + '\n', tag
