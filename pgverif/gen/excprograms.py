"""Programs whose VALUES are exception objects / classes (C19).

An exception instance is an ordinary value: a program may construct one
without raising it, keep it in a variable (`last_error = RuntimeError(...)`),
put it into a container, return it from a function, print it, or have it as
the value of its last line.  Plain execution treats it like any other object;
so must every way of executing the text.  The same pool is used for programs
that really raise, so that "value" and "raised" can be told apart.

Each program comes with a tag (known by construction) saying where the
exception object ends up.  Programs start with `probe.hit` like the ones of
`programs.py` and use the globals of `programs.initial_globals` plus
`extra_globals()`.
"""
import random


class UserError(Exception):
  """User-defined, picklable (importable from this module)."""


class UserValueError(ValueError):
  """User-defined subclass of a builtin."""


class UserCodedError(Exception):
  """User-defined with its own constructor and attribute (pickles: args match)."""

  def __init__(self, code, reason='unknown'):
    super().__init__(code, reason)
    self.code = code


def extra_globals():
  return {'UserError': UserError, 'UserValueError': UserValueError,
          'UserCodedError': UserCodedError}


# Exception instances that are `Exception`s (may also be raised by a program).
INSTANCES = [
    "ValueError('boom')", "KeyError('k')", "RuntimeError('bad input', g0)",
    "OSError(2, 'no such thing')", 'Exception()', 'StopIteration(g1)',
    "ZeroDivisionError('division by zero')", "LookupError('a', 'b', 3)",
    'AssertionError()', 'TypeError(None)', "IndexError(gl[0])",
    "UnicodeDecodeError('utf-8', b'x', 0, 1, 'bad')", "NotImplementedError('later')",
    "ExceptionGroup('grp', [ValueError(1), KeyError('k')])",
    "UserError('m', g0)", 'UserError()', "UserValueError('v')",
    "UserCodedError(4, 'why')", 'UserCodedError(g1)',
    "ValueError(KeyError('inner'))", "RuntimeError(['a', {'b': 1}], None)",
]
# Instances of BaseException that are not Exception: values only.
BASE_INSTANCES = ['KeyboardInterrupt()', 'SystemExit(2)', 'GeneratorExit()',
                  "BaseException('b', 1)"]
CLASSES = ['ValueError', 'KeyError', 'Exception', 'OSError', 'UserError', 'UserCodedError',
           'UserValueError', 'BaseException', 'StopIteration', 'ExceptionGroup']
PLAIN = ['g0 + 1', "'done'", 'None', '[g0, g1]', 'len(gl)', '2.5', "{'ok': True}"]
RAISING = ['1 // (g0 - g0)', "int('x')", "gd['missing']", 'gl[99]', 'undefined_name_q']
PRELUDE = ["x = g0 + 1", "print('start')", 'problems = [] if g0 == 0 else None',
           'n = len(gl)', 'pass', '# a comment', "status = 'checking'"]

TAGS = ['result-is-exception-instance', 'result-is-exception-class',
        'result-contains-exception', 'variable-is-exception', 'prints-exception',
        'raises-exception', 'raises-program-defined-exception',
        'result-is-program-defined-exception']
WEIGHTS = [6, 2, 3, 2, 1.5, 3, 0.6, 1]


def _pick(rng, items, weights):
  r = rng.random() * sum(weights)
  for it, w in zip(items, weights):
    r -= w
    if r < 0:
      return it
  return items[-1]


def exception_value_program(rng, tag=None):
  """Returns (program text, tag)."""
  if tag is None:
    tag = _pick(rng, TAGS, WEIGHTS)
  inst = lambda: rng.choice(INSTANCES + (BASE_INSTANCES if rng.random() < 0.15 else []))
  e1, e2 = inst(), inst()
  cls = rng.choice(CLASSES)
  lines = ['probe.hit']
  for _ in range(rng.choice([0, 0, 1, 2])):
    lines.append(rng.choice(PRELUDE))
  if tag == 'result-is-exception-instance':
    body = rng.choice([
        [e1],
        [f'last_error = {e1}'],
        [f'a1 = b1 = {e1}'],
        [f'err = {e1}', 'err'],
        [f'err: Exception = {e1}'],
        ['def mk(x):', f'  return {e1}', 'mk(1)'],
        ['try:', f'  {rng.choice(RAISING)}', 'except Exception as ex:', '  caught = ex', 'caught'],
        ['try:', f'  raise {rng.choice(INSTANCES)}', 'except Exception as ex:', '  caught = ex',
         'last_error = caught'],
        [f'errs = [{e1}, {e2}]', f'errs[{rng.randint(0, 1)}]'],
        [f'({e1}).with_traceback(None)'],
        [f'first = {e2}', f'last_error = {e1}'],
        [f'{e1} if g0 else None'],
        [f'(lambda: {e1})()'],
    ])
  elif tag == 'result-is-exception-class':
    body = rng.choice([[cls], [f'kind = {cls}'], [f'type({e1})'], [f'kind = ({e1}).__class__'],
                       [f'err = {e1}', cls]])
  elif tag == 'result-contains-exception':
    body = rng.choice([
        [f'[{e1}, 1]'],
        [f"report = {{'error': {e1}, 'ok': False}}"],
        [f'({e1}, {cls})'],
        [f'errs = [{e1}]', f'errs.append({e2})', 'errs'],
        [f"{{'errors': [{e1}], 'kinds': ({cls},)}}"],
        [f'pair = ({e1}, {e2})'],
        [f'[{e1}]'],
    ])
  elif tag == 'variable-is-exception':
    body = [f'err = {e1}']
    if rng.random() < 0.5:
      body.append(f'kind = {cls}')
    if rng.random() < 0.4:
      body.append(f'errs = [{e2}]')
    body.append(rng.choice(PLAIN) if rng.random() < 0.6 else f'answer = {rng.choice(PLAIN)}')
  elif tag == 'prints-exception':
    body = [f'err = {e1}', rng.choice(['print(repr(err))', 'print(err)', "print('error:', err)",
                                       'print(type(err).__name__, err.args)'])]
    if rng.random() < 0.4:
      body.append(rng.choice(PLAIN))
  elif tag == 'raises-exception':
    e1 = rng.choice(INSTANCES)
    body = rng.choice([
        [f'raise {e1}'],
        [f'err = {e1}', 'raise err'],
        ['def fail(x):', f'  raise {e1}', 'fail(1)'],
        [f'raise {e1} from None'],
        [f'raise {rng.choice([c for c in CLASSES if c not in ("BaseException", "ExceptionGroup", "UserCodedError")])}'],
        [f'raise {e1} from {e2 if e2 in INSTANCES else "None"}'],
        ['try:', f'  {rng.choice(RAISING)}', 'except Exception as ex:', f'  raise {e1} from ex'],
        [f'errs = [{e1}]', 'raise errs[0]'],
    ])
    if rng.random() < 0.4:
      body.append(rng.choice(PLAIN))
  elif tag == 'raises-program-defined-exception':
    body = ['class Bad(Exception):', '  pass', rng.choice(["raise Bad('x', g0)", 'raise Bad', 'raise Bad()'])]
  elif tag == 'result-is-program-defined-exception':
    body = ['class Bad(Exception):', '  pass',
            rng.choice(['Bad(1)', "last_error = Bad('x')", '[Bad(2)]', 'Bad'])]
  else:
    raise AssertionError(tag)
  return '\n'.join(lines + body) + '\n', tag


# -- deeply nested programs ------------------------------------------------------
#
# A construct may hide "at any nesting depth".  CPython itself parses, compiles
# and runs very deep nests as long as they stay below its own limits (about
# 1500 levels of the syntax tree, 200 nested brackets, 100 levels of
# indentation, 20 nested loop/with/try blocks); whether a given text is below
# them is decided by the caller by plain compile + exec.  (Loop/with/try nests
# stay at 18: CPython 3.12 crashes - no exception - when compiling an inlined
# comprehension inside exactly 20 of them.)  A "shape" fixes every
# choice but the depth, so that the same shape can be rendered deep and - as a
# control - at depth 3.

DEEP_DEPTHS = [20, 50, 100, 200, 300, 400, 600, 900]
# (kind, weight, cap of the drawn depth or None, type of the bottom value)
DEEP_EXPR_KINDS = [
    ('unary', 3, None, 'int'), ('binop-left', 2, None, 'int'), ('attribute', 1.5, None, 'int'),
    ('power-right', 1, None, 'int'), ('slice-chain', 1.5, None, 'list'),
    ('method-chain', 1.5, None, 'list'), ('lambda', 1.5, None, 'any'),
    ('ifexp-chain', 1.5, None, 'any'), ('display', 1, 180, 'any'), ('call-nest', 1, 180, 'any'),
]
DEEP_STMT_KINDS = [
    ('elif-chain', 3, None), ('if', 1, 98), ('else', 0.7, 98), ('def', 1, 98), ('def-called', 0.7, 98),
    ('class', 0.7, 98), ('for', 0.5, 18), ('while', 0.5, 18), ('with', 0.5, 18),
    ('try', 0.5, 18), ('mixed', 1.5, 98),
]
# (text, is a construct that needs a permission at the bottom)
DEEP_INT_BOTTOMS = [('1', False), ('g0', False), ('gl[0]', False), ('gobj.a', False),
                    ('ident(g0)', True), ('abs(g1)', True), ('len(gl)', True),
                    ('(lambda: g0)()', True), ('(w := g0)', True), ('max(gl, key=lambda q: q)', True),
                    ('(g1 if g0 else 0)', False), ('[c for c in gl][0]', False)]
DEEP_LIST_BOTTOMS = [('gl', False), ('[g0, g1]', False), ('ident(gl)', True), ('sorted(gl)', True),
                     ('(w := gl)', True), ('list(gl)', True), ('(lambda: gl)()', True),
                     ('[c for c in gl]', False)]
DEEP_STMT_BOTTOMS = [('pass', False), ('g0', False), ('gobj.a', False), ('y = g0', True),
                     ('gl.append(g0)', True), ('y = ident(g0)', True), ('import math', True),
                     ('assert g0', True), ('y = lambda: g0', True), ('print(g0)', True),
                     ('(w := g1)', True), ("gd['d'] = g1", True), ('y: int = g1', True),
                     ('gobj.a += 1', True)]
DEEP_POSITIONS = ['assign', 'assign', 'expr', 'expr', 'call-arg', 'return', 'subscript-store',
                  'condition', 'tuple']
DEEP_FILLERS = ['t{n} = {n}', 'gl.append({n})', 'print({n})', '# comment {n}', 'pass',
                "gd['n{n}'] = {n}", 'def unused{n}():\n  return {n}']
DEEP_FINALS = ['g0 + 1', 'z9 = g1', 'gl', 'pass', "print('end')"]
DEEP_MIXED_LEVELS = ['if', 'else', 'def', 'def-called', 'class', 'for', 'while', 'with', 'try']
_BLOCK_LEVELS = ('for', 'while', 'with', 'try')


def deep_nesting_shape(rng, big=False):
  """Draws every choice of a deeply nested program (a dict of plain values).

  big=True: a depth from the upper half of the range and a kind whose depth
  is not capped by the bracket / indentation / block limits of CPython."""
  shape = {'sub': rng.randrange(1 << 30)}
  depth = rng.choice(DEEP_DEPTHS[5:] if big else DEEP_DEPTHS)
  statement = rng.random() < (0.2 if big else 0.3)
  shape['family'] = 'statement' if statement else 'expression'
  if statement:
    pool = [k for k in DEEP_STMT_KINDS if not (big and k[2])]
    kind, _, cap = _pick(rng, pool, [k[1] for k in pool])
    shape['kind'] = kind
    shape['depth'] = min(depth, cap) if cap else depth
    if kind != 'elif-chain' and rng.random() < 0.4:
      # the bottom statement carries an expression nest of its own
      ek, _, ecap, ety = _pick(rng, DEEP_EXPR_KINDS, [k[1] for k in DEEP_EXPR_KINDS])
      ed = rng.choice(DEEP_DEPTHS)
      shape['inner'] = {'kind': ek, 'depth': min(ed, ecap) if ecap else ed, 'type': ety,
                        'sub': rng.randrange(1 << 30)}
      shape['inner']['bottom'] = rng.choice(
          DEEP_LIST_BOTTOMS if ety == 'list' else DEEP_INT_BOTTOMS
          if ety == 'int' or rng.random() < 0.6 else DEEP_LIST_BOTTOMS)[0]
      shape['inner']['unary'] = rng.choice(['-', '+', '~', 'not ', 'mixed', 'not-then-mixed'])
      shape['inner_position'] = rng.choice(['assign', 'expr', 'call-arg', 'subscript-store'])
      shape['bottom'] = None
    else:
      shape['bottom'] = rng.choice(DEEP_STMT_BOTTOMS)[0]
    shape['bottom_in_test'] = kind == 'elif-chain' and rng.random() < 0.3
    shape['test_bottom'] = rng.choice(DEEP_INT_BOTTOMS)[0]
  else:
    pool = [k for k in DEEP_EXPR_KINDS if not (big and k[2])]
    kind, _, cap, ty = _pick(rng, pool, [k[1] for k in pool])
    shape['kind'], shape['type'] = kind, ty
    shape['depth'] = min(depth, cap) if cap else depth
    pool = (DEEP_LIST_BOTTOMS if ty == 'list' else DEEP_INT_BOTTOMS
            if ty == 'int' or rng.random() < 0.6 else DEEP_LIST_BOTTOMS)
    shape['bottom'] = rng.choice(pool)[0]
    shape['unary'] = rng.choice(['-', '+', '~', 'not ', 'mixed', 'not-then-mixed'])
    shape['position'] = rng.choice(DEEP_POSITIONS)
  shape['before'] = rng.choice([0, 0, 1, 2])
  shape['after'] = rng.choice([0, 0, 0, 1, 2])
  shape['final'] = rng.choice(DEEP_FINALS) if shape['after'] and rng.random() < 0.6 else None
  return shape


def _deep_expr(spec, depth):
  """Text of one expression nest of the given depth."""
  sub = random.Random(spec['sub'])
  kind, bottom = spec['kind'], spec['bottom']
  if kind == 'unary':
    fam = spec['unary']
    if fam in ('mixed', 'not-then-mixed'):
      n_not = depth // 2 if fam == 'not-then-mixed' else 0
      ops = ['not '] * n_not + [sub.choice('-+~') for _ in range(depth - n_not)]
      # `- -x`: two adjacent signs never form another token, `--x` is fine as well
      return ''.join(ops) + bottom
    return fam * depth + bottom
  if kind == 'binop-left':
    ops = sub.choice([[' + 1', ' - 1'], [' * 1', ' // 1', ' % 1000'], [' | 0', ' | 1'], [' ^ 0'],
                      [' + 1'], [' << 0', ' >> 0']])
    return bottom + ''.join(sub.choice(ops) for _ in range(depth))
  if kind == 'attribute':
    attrs = sub.choice([['.real'], ['.numerator'], ['.real', '.numerator', '.imag.denominator']])
    b = f'({bottom})' if bottom.isdigit() else bottom
    return b + ''.join(sub.choice(attrs) for _ in range(depth))
  if kind == 'power-right':
    return '1 ** ' * depth + bottom
  if kind == 'slice-chain':
    parts = sub.choice([['[:]'], ['[0:]', '[:]', '[::1]'], ['[:9]']])
    return bottom + ''.join(sub.choice(parts) for _ in range(depth))
  if kind == 'method-chain':
    return bottom + '.copy()' * depth
  if kind == 'lambda':
    return 'lambda: ' * depth + bottom
  if kind == 'ifexp-chain':
    return ''.join(f'{k % 7} if g0 < 0 else ' for k in range(depth)) + bottom
  if kind == 'display':
    o, c = sub.choice([('[', ']'), ('(', ',)'), ('{0: ', '}'), ('[g0, ', ']'), ('[*', ']')])
    if o == '[*' and bottom not in [b for b, _ in DEEP_LIST_BOTTOMS]:
      o, c = '[', ']'
    return o * depth + bottom + c * depth
  if kind == 'call-nest':
    fn = sub.choice(['ident(', 'ident(*[', 'ident((lambda q: q)('])
    close = {'ident(': ')', 'ident(*[': '])', 'ident((lambda q: q)(': '))'}[fn]
    d = depth if fn == 'ident(' else depth // 2
    return fn * d + bottom + close * d
  raise AssertionError(kind)


def _deep_position(position, expr):
  """Lines of the statement that holds an expression nest."""
  if position == 'assign':
    return [f'v = {expr}']
  if position == 'expr':
    return [expr]
  if position == 'call-arg':
    return [f'v = ident({expr})']
  if position == 'return':
    return ['def fr():', f'  return {expr}', 'v = fr()']
  if position == 'subscript-store':
    return [f"gd['v'] = {expr}"]
  if position == 'condition':
    return [f'if {expr}:', '  v = 1', 'else:', '  v = 2']
  if position == 'tuple':
    return [f'v, u = g0, {expr}']
  raise AssertionError(position)


def _deep_levels(shape, depth, distinct=False):
  """Kinds of the levels; distinct=True: one level of every kind used (control)."""
  if distinct:
    out = []
    for lk in _deep_levels(shape, depth):
      if lk not in out:
        out.append(lk)
    return out
  sub = random.Random(shape['sub'])
  kind = shape['kind']
  levels, blocks = [], 0
  for k in range(depth):
    lk = kind
    if kind == 'mixed':
      lk = sub.choice(DEEP_MIXED_LEVELS)
      if lk in _BLOCK_LEVELS and blocks >= 17:
        lk = sub.choice(['if', 'def', 'class'])
    if lk in _BLOCK_LEVELS:
      blocks += 1
    elif lk in ('def', 'def-called', 'class'):
      blocks = 0
    levels.append(lk)
  return levels


def _deep_statement(shape, depth, inner_depth, small=False):
  """Lines of one statement nest (indentation: one blank per level)."""
  if shape['bottom'] is None:
    inner = shape['inner']
    bottom = _deep_position(shape['inner_position'], _deep_expr(inner, inner_depth))
  else:
    bottom = [shape['bottom']]
  if shape['kind'] == 'elif-chain':
    lines = ['if g0 == -1:', ' pass']
    for k in range(depth - 1):
      lines += [f'elif g0 == {-2 - k}:', ' pass']
    if shape['bottom_in_test']:
      lines += [f'elif {shape["test_bottom"]} == -999:', ' pass', 'else:']
    else:
      lines += ['elif g0 == 3:']
    return lines + [' ' + b for b in bottom]
  lines, tails = [], []
  if small and shape['kind'] == 'mixed':
    levels = _deep_levels(shape, shape['depth'], distinct=True)
  else:
    levels = _deep_levels(shape, depth)
  depth = len(levels)
  for k, lk in enumerate(levels):
    ind = ' ' * k
    head, body_tail, after = {
        'if': (['if g0:'], [], []),
        'else': (['if not g0:', ' pass', 'else:'], [], []),
        'while': (['while g0:'], ['break'], []),
        'for': ([f'for i{k} in [g0]:'], [], []),
        'def': ([f'def f{k}():'], [], []),
        'def-called': ([f'def f{k}():'], [], [f'f{k}()']),
        'class': ([f'class C{k}:'], [], []),
        'with': (['with cm:'] if k % 2 else [f'with cm as c{k}:'], [], []),
        'try': (['try:'], [], ['finally:', ' pass'] if k % 3 else ['except Exception:', ' pass']),
    }[lk]
    lines += [ind + h for h in head]
    tails.append([ind + ' ' + t for t in body_tail] + [ind + a for a in after])
  ind = ' ' * depth
  lines += [ind + b for b in bottom]
  for t in reversed(tails):
    lines += t
  return lines


def render_deep_nesting(shape, small=False):
  """Program text of a shape; small=True: the same shape at depth 3 (a mixed
  statement nest: one level of every kind it uses)."""
  depth = 3 if small else shape['depth']
  if shape['family'] == 'statement':
    inner_depth = 3 if small else (shape.get('inner') or {}).get('depth', 0)
    nest = _deep_statement(shape, min(depth, shape['depth']), inner_depth, small)
  else:
    nest = _deep_position(shape['position'], _deep_expr(shape, depth))
  lines = ['probe.hit']
  for n in range(shape['before']):
    lines += DEEP_FILLERS[(shape['sub'] + n) % len(DEEP_FILLERS)].format(n=n).split('\n')
  lines += nest
  for n in range(shape['after']):
    lines += DEEP_FILLERS[(shape['sub'] // 7 + n) % len(DEEP_FILLERS)].format(n=10 + n).split('\n')
  if shape['final']:
    lines.append(shape['final'])
  return '\n'.join(lines) + '\n'


def deep_nesting_program(rng, big=False):
  """Returns (program text, the same shape at depth 3, shape)."""
  shape = deep_nesting_shape(rng, big)
  return render_deep_nesting(shape), render_deep_nesting(shape, small=True), shape


# -- programs that leave no new variable behind ------------------------------------
#
# The last statement has no value (pass, del, a loop, a condition, ...), and the
# statements before it only read, print, mutate objects reachable from the
# given globals, re-bind given globals, or delete what they defined.

NONEW_BODY = [
    'g0 + g1', 'gl[0]', 'gobj.a', "print('x', g0)", 'gl.append(g0)', "gd['k'] = g1",
    "gd['n'] = [g0]", 'gobj.a = g0 + 1', 'gobj.b = 2', 'gl[0] = 7', 'gl.extend([1])', 'gl.sort()',
    'g0 = g0', 'print(gl)', 'ident(g1)', 'if g0:\n  gl.append(1)', 'for _i in []:\n  pass',
    'while False:\n  pass', 'with cm:\n  gobj.a = 5', 'assert g0', 'pass', '...',
    'try:\n  gl.index(99)\nexcept ValueError:\n  pass', 'lambda: 0', 'global zq9',
    "gd['tmp'] = 1\ndel gd['tmp']", 'match g0:\n  case 3:\n    gl.append(3)\n  case _:\n    pass',
]
NONEW_REBIND = ['g0 = 7', 'g1 = [g0]', 'g0 += 1\ng0 = g0 * 2', "g1 = 'rebound'", 'g1 = None', 'g0 = g1 = 9']
# (statements that define a name, the name)
NONEW_DEFINE = [
    ('tmp = g0 * 2', 'tmp'), ('def helper():\n  return 1', 'helper'), ('import math', 'math'),
    ('for e in gl:\n  gobj.a = e', 'e'), ('with cm as c:\n  pass', 'c'),
    ('class Tmp:\n  pass', 'Tmp'), ('from math import pi', 'pi'), ('tmp: int = 3', 'tmp'),
    ('[a, b] = [g0, g1]\ndel a', 'b'), ('(w := g0)', 'w'),
    ('try:\n  gl[99]\nexcept IndexError as ex:\n  tmp = 1', 'tmp'),
]
NONEW_LAST = [
    'pass', 'for _i in []:\n  pass', 'for _i in []:\n  pass\nelse:\n  gobj.a = 3',
    'while False:\n  pass', 'while g0:\n  gl.append(0)\n  break', 'if g0:\n  gl.append(1)',
    'if g0 > 100:\n  pass\nelif g1:\n  gobj.a = 2\nelse:\n  pass',
    'try:\n  gl.index(99)\nexcept ValueError:\n  pass', 'try:\n  pass\nfinally:\n  gobj.a = 4',
    'try:\n  pass\nexcept* ValueError:\n  pass', 'with cm:\n  pass', 'with cm:\n  gl.append(2)',
    'global zq8', 'global zq7, zq6', 'assert g0', "assert gl, 'msg'", 'del gl[0]', "del gd['k']",
    'del gobj.a', 'match g0:\n  case 3:\n    pass', 'match g1:\n  case 0:\n    pass\n  case _:\n    gl.append(1)',
    'if g0:\n  for _i in []:\n    pass', 'for q in []:\n  pass',
]


def no_new_variable_program(rng):
  """Returns (program text, kind of the tail: 'untouched' | 'rebinds' | 'deletes-own')."""
  lines = ['probe.hit']
  tail = 'untouched'
  for _ in range(rng.choice([0, 0, 1, 1, 2, 3])):
    lines += rng.choice(NONEW_BODY).split('\n')
  if rng.random() < 0.25:
    lines += rng.choice(NONEW_REBIND).split('\n')
    tail = 'rebinds'
  deleted_last = False
  if rng.random() < 0.45:
    src, name = rng.choice(NONEW_DEFINE)
    lines += src.split('\n')
    if rng.random() < 0.5:
      lines += rng.choice(NONEW_BODY[:14]).split('\n')
    lines.append(f'del {name}')
    if tail == 'untouched':
      tail = 'deletes-own'
    deleted_last = rng.random() < 0.5
  if not deleted_last:
    lines += rng.choice(NONEW_LAST).split('\n')
  return '\n'.join(lines) + '\n', tail
