"""Forests and step generation shared by the history-shaped properties."""
import pyglove as pg
from pgverif.gen import desc as D
from pgverif.gen import ops as O
from pgverif.gen import values as V
from pgverif.monitors import tree as TM


def make_forest(rng, n_roots=None, typed=True, depth=3,
                classes=('Any2', 'Writable', 'Notifier', 'Bound')):
  n_roots = n_roots or rng.choice([1, 1, 2, 3])
  descs = []
  for _ in range(n_roots):
    while True:
      d = D.gen(rng, depth, classes=classes, typed=typed, symbolic=True)
      if d[0] in ('D', 'L', 'O'):
        break
    descs.append(d)
  return descs, [D.build(d) for d in descs]


def all_nodes(forest):
  """[(root index, [keys], node)] of all symbolic nodes (Refs not entered)."""
  out = []
  for ridx, root in enumerate(forest):
    if isinstance(root, pg.Symbolic):
      for n, keys in TM.nodes_of(root):
        out.append((ridx, keys, n))
  return out


def is_prefix(a, b):
  return len(a) <= len(b) and b[:len(a)] == a


class ValueSource:
  """Operand values: fresh plain/symbolic, aliases of live nodes, typed-valid
  and deliberately invalid values."""

  def __init__(self, forest, target, p_alias=0.2, p_invalid=0.12, depth=2,
               classes=('Any2', 'Writable', 'Notifier'), typed=True,
               allow_root_alias=True):
    self.forest, self.target = forest, target   # target = (ridx, keys)
    self.p_alias, self.p_invalid, self.depth = p_alias, p_invalid, depth
    self.classes, self.typed = classes, typed
    self.allow_root_alias = allow_root_alias
    self.used_roots = set()

  def __call__(self, rng, node, key):
    field = None
    if node is not None and key is not None:
      try:
        field = node.sym_attr_field(key)
      except Exception:  # pylint: disable=broad-except
        field = None
    r = rng.random()
    if field is not None and not isinstance(field.value, pg.typing.Any):
      if r < self.p_invalid:
        return ['v', V.invalid_for(field.value, rng)]
      if r < 0.85:
        return ['v', V.value_for(field.value, rng, valid=True)]
    elif r < self.p_alias and self.forest is not None:
      cands = []
      tr, tk = self.target
      for ridx, keys, n in all_nodes(self.forest):
        if ridx == tr and is_prefix(keys, tk):
          if not keys:
            continue              # the target's own root: would form a cycle
          # a proper ancestor has a parent, hence is copied on insertion: fine
        if not keys and not self.allow_root_alias:
          continue
        if not keys and ridx in self.used_roots:
          continue
        cands.append((ridx, keys))
      if cands:
        ridx, keys = rng.choice(cands)
        if not keys:
          self.used_roots.add(ridx)
        return ['node', ridx, keys]
    return D.gen(rng, self.depth, classes=self.classes, typed=self.typed)


def gen_step(rng, forest, effects=('mutate', 'new', 'flag'), p_scope=None,
             op_filter=None, max_nodes=60, value_source_kwargs=None,
             node_filter=None):
  """Draws one step applicable to the current forest, or None."""
  nodes = all_nodes(forest)
  if node_filter:
    nodes = [x for x in nodes if node_filter(x)]
  if not nodes:
    return None
  for _ in range(20):
    ridx, keys, node = rng.choice(nodes)
    cands = O.ops_for(node, effects)
    if op_filter:
      cands = [o for o in cands if op_filter(o)]
    if len(nodes) > max_nodes:
      cands = [o for o in cands if o.effect != 'new'] or cands
    if not cands:
      continue
    o = rng.choice(cands)
    vs = ValueSource(forest, (ridx, keys), **(value_source_kwargs or {}))
    g = O.GenEnv(rng, vs, forest)
    args = o.gen(g, node)
    if args is None:
      continue
    p_scope = p_scope if p_scope is not None else {
        'notify_off': 0.12, 'writable': 0.3, 'no_typecheck': 0.04}
    sc = [name for name, p in p_scope.items() if rng.random() < p]
    return {'op': o.name, 'at': [ridx, keys], 'args': args, 'scopes': sc}
  return None


def notify_suppressed(step):
  return 'notify_off' in step.get('scopes', ()) or bool(
      step['args'].get('opts', {}).get('skip_notification'))


def without_notify_off(step):
  s = dict(step)
  s['scopes'] = [x for x in step.get('scopes', ()) if x != 'notify_off']
  if step['args'].get('opts', {}).get('skip_notification'):
    s['args'] = dict(step['args'])
    s['args']['opts'] = {k: v for k, v in step['args']['opts'].items()
                         if k != 'skip_notification'}
  return s


def mechanism(step, outcome=None, notify_matters=False):
  """Mechanism part of a finding key: the operation, '@notify_off' when the
  violation needs notifications to be suppressed (decided by re-executing the
  step with notifications on), '!rejected' when the call raised."""
  m = step['op']
  if notify_matters:
    m += '@notify_off'
  if outcome == 'raise':
    m += '!rejected'
  return m


def deep_copy_forest(forest):
  out = []
  for r in forest:
    if isinstance(r, pg.Symbolic):
      try:
        out.append(r.clone(deep=True))
      except Exception:  # pylint: disable=broad-except
        out.append(None)
    else:
      out.append(None)
  return out


def apply_step(forest, seen, step, counters=None):
  """Executes one step and evaluates the tree monitor.

  Returns (status, result, problems)."""
  status, result = O.execute(forest, step)
  adopt_result(forest, step, status, result)
  drop_moved_roots(forest)
  if isinstance(result, pg.Symbolic) and seen is not None:
    seen.setdefault(id(result), result)
  problems = TM.tree_ok(forest, seen, counters)
  return status, result, problems


def adopt_result(forest, step, status, result):
  """Adds values returned by 'new' operations to the forest as roots."""
  if status == 'ok' and O.OPS[step['op']].effect == 'new' and isinstance(
      result, pg.Symbolic) and not any(result is r for r in forest):
    forest.append(result)
    return True
  return False


def drop_moved_roots(forest):
  """A root that was inserted into another tree is not a root any more."""
  for i, r in enumerate(forest):
    if isinstance(r, pg.Symbolic) and r.sym_parent is not None:
      # Only drop it when it is really stored in that parent.
      par = r.sym_parent
      if any(c is r for _, c in TM.children(par)):
        forest[i] = None


def count_nodes(forest):
  return len(all_nodes(forest))


def total_size(forest):
  """Number of stored members (symbolic or not) in the whole forest."""
  n = 0
  for _, _, node in all_nodes(forest):
    n += 1 + sum(1 for _ in TM.children(node))
  return n
