"""The operation surface of pg.List / pg.Dict / pg.Object as a table.

Every entry knows how to draw concrete, printable arguments for a given node
(`gen`) and how to issue the call on the real object (`run`). Steps are plain
data: {'op': name, 'at': [root_index, [keys]], 'args': {...}, 'scopes': [...]}.

`effect`:
  'mutate'  mutates the target in place (or is refused)
  'new'     returns a new value which the harness adopts as a new root
  'flag'    changes a behavioural flag (seal, accessor writable)
"""
import contextlib
import copy
import operator

import pyglove as pg
from pgverif.gen import desc as D
from pgverif.gen import values as V

KeyPath = pg.KeyPath

OPS = {}


class Op:

  def __init__(self, name, kind, gen, run, effect='mutate', batch=False,
               inplace_slot=False):
    self.name, self.kind, self.gen, self.run = name, kind, gen, run
    self.effect, self.batch, self.inplace_slot = effect, batch, inplace_slot


def op(name, kind, effect='mutate', batch=False, inplace_slot=False):
  def deco(cls):
    OPS[name] = Op(name, kind, cls.gen, cls.run, effect, batch, inplace_slot)
    return cls
  return deco


def node_kind(node):
  if isinstance(node, pg.List):
    return 'List'
  if isinstance(node, pg.Dict):
    return 'Dict'
  if isinstance(node, pg.Object):
    return 'Object'
  return None


def ops_for(node, effects=('mutate', 'new', 'flag')):
  k = node_kind(node)
  return [o for o in OPS.values() if o.kind in (k, 'Any') and o.effect in effects]


class GenEnv:
  """What argument generators may use: a value source and index helpers."""

  def __init__(self, rng, value_fn, forest=None):
    self.rng, self.value_fn, self.forest = rng, value_fn, forest

  def value(self, node=None, key=None):
    return self.value_fn(self.rng, node, key)

  def idx(self, n, slack=2):
    return self.rng.randint(-n - slack, n + slack)

  def slice3(self, n):
    r = self.rng
    a = r.choice([None, self.idx(n)])
    b = r.choice([None, self.idx(n)])
    c = r.choice([None, None, 1, 2, -1, -2, 3])
    return a, b, c


def mkslice(a):
  return slice(a['a'], a['b'], a['c'])


# ---------------------------------------------------------------- List ------

@op('List.__setitem__[int]', 'List')
class _:
  def gen(g, l): return {'i': g.idx(len(l), 1), 'v': g.value(l, 0)}
  def run(l, a, B): l[a['i']] = B(a['v'])


@op('List.__setitem__[slice]', 'List', batch=True)
class _:
  def gen(g, l):
    a, b, c = g.slice3(len(l))
    n = len(range(*slice(a, b, c).indices(len(l))))
    k = n if (c not in (None, 1) and g.rng.random() < 0.8) else g.rng.randint(0, n + 2)
    return {'a': a, 'b': b, 'c': c, 'vs': [g.value(l, 0) for _ in range(k)]}
  def run(l, a, B): l[mkslice(a)] = [B(v) for v in a['vs']]


@op('List.__delitem__[int]', 'List')
class _:
  def gen(g, l): return {'i': g.idx(len(l), 1)}
  def run(l, a, B): del l[a['i']]


@op('List.__delitem__[slice]', 'List', batch=True)
class _:
  def gen(g, l):
    a, b, c = g.slice3(len(l))
    return {'a': a, 'b': b, 'c': c}
  def run(l, a, B): del l[mkslice(a)]


@op('List.append', 'List')
class _:
  def gen(g, l): return {'v': g.value(l, 0)}
  def run(l, a, B): return l.append(B(a['v']))


@op('List.insert', 'List')
class _:
  def gen(g, l): return {'i': g.idx(len(l)), 'v': g.value(l, 0)}
  def run(l, a, B): return l.insert(a['i'], B(a['v']))


@op('List.extend', 'List', batch=True)
class _:
  def gen(g, l): return {'vs': [g.value(l, 0) for _ in range(g.rng.randint(0, 3))]}
  def run(l, a, B): return l.extend([B(v) for v in a['vs']])


@op('List.pop', 'List')
class _:
  def gen(g, l):
    return {} if g.rng.random() < 0.4 else {'i': g.idx(len(l), 1)}
  def run(l, a, B): return l.pop(*([a['i']] if 'i' in a else []))


@op('List.remove', 'List')
class _:
  def gen(g, l):
    if len(l) and g.rng.random() < 0.8:
      return {'pos': g.rng.randrange(len(l))}
    return {'v': ['v', '__absent__']}
  def run(l, a, B):
    if 'pos' in a:
      if a['pos'] >= len(l):
        raise ValueError('harness: position vanished')
      return l.remove(l.sym_getattr(a['pos']))
    return l.remove(B(a['v']))


@op('List.clear', 'List', batch=True)
class _:
  def gen(g, l): return {}
  def run(l, a, B): return l.clear()


@op('List.sort', 'List', batch=True)
class _:
  def gen(g, l): return {'key': g.rng.choice([None, 'repr']), 'reverse': g.rng.random() < 0.3}
  def run(l, a, B):
    from pgverif.monitors import refmodel  # pylint: disable=g-import-not-at-top
    return l.sort(key=refmodel.sortkey if a['key'] else None, reverse=a['reverse'])


@op('List.reverse', 'List', batch=True)
class _:
  def gen(g, l): return {}
  def run(l, a, B): return l.reverse()


@op('List.__iadd__', 'List', batch=True, inplace_slot=True)
class _:
  def gen(g, l):
    return {'vs': [g.value(l, 0) for _ in range(g.rng.randint(0, 3))],
            'form': g.rng.choice(['operator', 'dunder'])}
  def run(l, a, B):
    vs = [B(v) for v in a['vs']]
    return operator.iadd(l, vs) if a['form'] == 'operator' else l.__iadd__(vs)


@op('List.__imul__', 'List', batch=True, inplace_slot=True)
class _:
  def gen(g, l): return {'n': g.rng.choice([0, 1, 2, 2, 3, -1]) if len(l) < 12 else g.rng.choice([0, 1, -1])}
  def run(l, a, B): return l.__imul__(a['n'])


@op('List.*=', 'List', batch=True, inplace_slot=True)
class _:
  def gen(g, l): return {'n': g.rng.choice([0, 1, 2, 3, -1]) if len(l) < 12 else g.rng.choice([0, 1, -1])}
  def run(l, a, B): return operator.imul(l, a['n'])


@op('List.copy', 'List', effect='new')
class _:
  def gen(g, l): return {}
  def run(l, a, B): return l.copy()


@op('List.__add__', 'List', effect='new')
class _:
  def gen(g, l): return {'vs': [g.value(l, 0) for _ in range(g.rng.randint(0, 3))]}
  def run(l, a, B): return l + [B(v) for v in a['vs']]


@op('List.__mul__', 'List', effect='new')
class _:
  def gen(g, l): return {'n': g.rng.choice([0, 1, 2, 3, -1]) if len(l) < 12 else g.rng.choice([0, 1, -1]), 'r': g.rng.random() < 0.3}
  def run(l, a, B): return (a['n'] * l) if a['r'] else (l * a['n'])


# ---------------------------------------------------------------- Dict ------

def _dict_key(g, d, new=0.4):
  keys = list(d.sym_keys())
  if keys and g.rng.random() > new:
    return g.rng.choice(keys)
  return V.key(g.rng, ints=any(isinstance(k, int) for k in keys) or g.rng.random() < 0.1)


@op('Dict.__setitem__', 'Dict')
class _:
  def gen(g, d):
    k = _dict_key(g, d)
    return {'k': k, 'v': g.value(d, k)}
  def run(d, a, B): d[a['k']] = B(a['v'])


@op('Dict.__setattr__', 'Dict')
class _:
  def gen(g, d):
    k = _dict_key(g, d)
    if not isinstance(k, str) or not k.isidentifier():
      return None
    return {'k': k, 'v': g.value(d, k)}
  def run(d, a, B): setattr(d, a['k'], B(a['v']))


@op('Dict.__delitem__', 'Dict')
class _:
  def gen(g, d): return {'k': _dict_key(g, d, 0.15)}
  def run(d, a, B): del d[a['k']]


@op('Dict.__delattr__', 'Dict')
class _:
  def gen(g, d):
    k = _dict_key(g, d, 0.15)
    return {'k': k} if isinstance(k, str) and k.isidentifier() else None
  def run(d, a, B): delattr(d, a['k'])


@op('Dict.pop', 'Dict')
class _:
  def gen(g, d):
    a = {'k': _dict_key(g, d, 0.25)}
    if g.rng.random() < 0.4:
      a['default'] = ['v', g.rng.choice([None, 0, 'dflt'])]
    return a
  def run(d, a, B):
    return d.pop(a['k'], B(a['default'])) if 'default' in a else d.pop(a['k'])


@op('Dict.popitem', 'Dict')
class _:
  def gen(g, d): return {}
  def run(d, a, B): return d.popitem()


@op('Dict.clear', 'Dict', batch=True)
class _:
  def gen(g, d): return {}
  def run(d, a, B): return d.clear()


@op('Dict.update', 'Dict', batch=True)
class _:
  def gen(g, d):
    items = []
    for _ in range(g.rng.randint(0, 3)):
      k = _dict_key(g, d, 0.5)
      if k not in [i[0] for i in items]:
        items.append([k, g.value(d, k)])
    form = g.rng.choice(['dict', 'pairs', 'kwargs', 'dict+kwargs'])
    if form in ('kwargs', 'dict+kwargs') and not all(
        isinstance(k, str) and k.isidentifier() for k, _ in items):
      form = 'dict'
    return {'items': items, 'form': form}
  def run(d, a, B):
    items = [(k, B(v)) for k, v in a['items']]
    if a['form'] == 'dict':
      return d.update(dict(items))
    if a['form'] == 'pairs':
      return d.update(items)
    if a['form'] == 'kwargs':
      return d.update(**dict(items))
    return d.update(dict(items[:1]), **dict(items[1:]))


@op('Dict.setdefault', 'Dict')
class _:
  def gen(g, d):
    k = _dict_key(g, d, 0.5)
    a = {'k': k}
    if g.rng.random() < 0.8:
      a['v'] = g.value(d, k)
    return a
  def run(d, a, B):
    return d.setdefault(a['k'], B(a['v'])) if 'v' in a else d.setdefault(a['k'])


@op('Dict.__ior__', 'Dict', batch=True, inplace_slot=True)
class _:
  def gen(g, d):
    items = []
    for _ in range(g.rng.randint(0, 3)):
      k = _dict_key(g, d, 0.5)
      if k not in [i[0] for i in items]:
        items.append([k, g.value(d, k)])
    return {'items': items, 'form': g.rng.choice(['operator', 'dunder'])}
  def run(d, a, B):
    other = {k: B(v) for k, v in a['items']}
    return operator.ior(d, other) if a['form'] == 'operator' else d.__ior__(other)


@op('Dict.copy', 'Dict', effect='new')
class _:
  def gen(g, d): return {}
  def run(d, a, B): return d.copy()


@op('Dict.__or__', 'Dict', effect='new')
class _:
  def gen(g, d):
    return {'items': [[_dict_key(g, d, 0.5), g.value(d, None)]
                      for _ in range(g.rng.randint(0, 2))]}
  def run(d, a, B): return d | {k: B(v) for k, v in a['items']}


# -------------------------------------------------------------- Object ------

@op('Object.__setattr__', 'Object')
class _:
  def gen(g, o):
    keys = list(o.sym_keys())
    if not keys:
      return None
    k = g.rng.choice(keys)
    return {'k': k, 'v': g.value(o, k)}
  def run(o, a, B): setattr(o, a['k'], B(a['v']))


# ----------------------------------------------------------------- Any ------

def rel_targets(node, rng, max_depth=3):
  """Relative key sequences of writable locations at or below `node`."""
  out = []
  def walk(n, prefix, depth):
    if not isinstance(n, pg.Symbolic) or isinstance(n, pg.Ref):
      return
    keys = list(n.sym_keys())
    for k in keys:
      out.append(prefix + [k])
      if depth < max_depth:
        walk(n.sym_getattr(k), prefix + [k], depth + 1)
    if isinstance(n, pg.List):
      out.append(prefix + [len(keys)])           # append position
      out.append(prefix + [len(keys) + 2])       # past the end
    elif isinstance(n, pg.Dict) and (n.value_spec is None or
                                     n.value_spec.schema is None or
                                     n.value_spec.schema.dynamic_field):
      out.append(prefix + [rng.choice(['nk', 'nk2', 'a', 'b'])])
  walk(node, [], 0)
  return out


def node_at(node, rel):
  for k in rel:
    node = node.sym_getattr(k)
  return node


def path_key(rel, style):
  """Renders a relative key sequence as a rebind key."""
  if len(rel) == 1 and style != 'keypath':
    k = rel[0]
    if isinstance(k, int) or (isinstance(k, str) and k.isidentifier()):
      return k
  kp = KeyPath(list(rel))
  if style == 'str' and all(isinstance(k, int) or (isinstance(k, str) and
                                                   k.isidentifier()) for k in rel):
    return str(kp)
  return kp


def no_prefix_pairs(rels):
  """Drops targets so that no target is a prefix of (or equal to) another."""
  out = []
  for r in rels:
    if not any(r[:len(o)] == o or o[:len(r)] == r for o in out):
      out.append(r)
  return out


@op('rebind', 'Any', batch=True)
class _:
  def gen(g, n):
    targets = rel_targets(n, g.rng)
    if not targets:
      return None
    k = 1 if g.rng.random() < 0.5 else g.rng.randint(2, 5)
    g.rng.shuffle(targets)
    rels = no_prefix_pairs(targets[:k])
    ups = []
    if g.rng.random() < 0.2:
      # A batch of several deletions in ONE list (each legal on its own, only
      # their sum may cross a size bound), optionally with other updates.
      lists = []
      for rel in [[]] + targets:
        try:
          cand = node_at(n, rel)
        except Exception:  # pylint: disable=broad-except
          continue
        if isinstance(cand, pg.List) and len(cand) >= 2:
          lists.append(rel)
      if lists:
        lrel = g.rng.choice(lists)
        size = len(node_at(n, lrel))
        idxs = sorted(g.rng.sample(range(size), g.rng.randint(2, min(3, size))))
        ups = [[lrel + [i], ['missing']] for i in idxs]
        rels = [r for r in rels
                if not (r[:len(lrel)] == lrel or lrel[:len(r)] == r)][:1]
    for rel in rels:
      parent = node_at(n, rel[:-1])
      r = g.rng.random()
      if r < 0.12 and (isinstance(parent, pg.Dict) or isinstance(parent, pg.List)):
        v = ['missing']
      elif r < 0.25 and isinstance(parent, pg.List):
        v = ['ins', g.value(parent, rel[-1])]
      else:
        v = g.value(parent, rel[-1])
      ups.append([rel, v])
    # List parents: a batch with several indices of one list is order
    # sensitive only when insertions/deletions are mixed in; keep them, the
    # library documents reverse application.
    opts = {}
    if g.rng.random() < 0.1:
      opts['skip_notification'] = True
    if g.rng.random() < 0.1:
      opts['notify_parents'] = False
    form = 'dict'
    if (not isinstance(n, pg.List) and g.rng.random() < 0.25 and
        all(len(r) == 1 and isinstance(r[0], str) and r[0].isidentifier()
            and r[0] not in ('path_value_pairs', 'raise_on_no_change',
                             'notify_parents', 'skip_notification')
            for r, _ in ups)):
      form = 'kwargs'
    return {'updates': ups, 'opts': opts, 'form': form,
            'style': g.rng.choice(['raw', 'keypath', 'str']),
            'api': g.rng.choice(['rebind', 'rebind', 'sym_rebind'])}
  def run(n, a, B):
    fn = getattr(n, a['api'])
    if a['form'] == 'kwargs':
      return fn(**{r[0]: B(v) for r, v in a['updates']},
                raise_on_no_change=False, **a['opts'])
    return fn({path_key(r, a['style']): B(v) for r, v in a['updates']},
              raise_on_no_change=False, **a['opts'])


@op('rebind[fn]', 'Any', batch=True)
class _:
  def gen(g, n):
    return {'match': g.rng.choice(['int', 'str', 'int>3']), 'v': g.value(None, None),
            'arity': g.rng.choice([2, 3])}
  def run(n, a, B):
    new = B(a['v'])
    def sel(v):
      if isinstance(v, bool):
        return False
      if a['match'] == 'int':
        return isinstance(v, int)
      if a['match'] == 'str':
        return isinstance(v, str)
      return isinstance(v, int) and v > 3
    if a['arity'] == 2:
      return n.rebind(lambda k, v: copy.deepcopy(new) if sel(v) else v,
                      raise_on_no_change=False)
    return n.rebind(lambda k, v, p: copy.deepcopy(new) if sel(v) else v,
                    raise_on_no_change=False)


@op('clone', 'Any', effect='new')
class _:
  def gen(g, n): return {'deep': g.rng.random() < 0.5,
                         'via': g.rng.choice(['clone', 'sym_clone', 'copy', 'pg.clone'])}
  def run(n, a, B):
    if a['via'] == 'copy':
      return copy.deepcopy(n) if a['deep'] else copy.copy(n)
    if a['via'] == 'pg.clone':
      return pg.clone(n, deep=a['deep'])
    return getattr(n, a['via'])(deep=a['deep'])


@op('clone[override]', 'Any', effect='new')
class _:
  def gen(g, n):
    targets = [t for t in rel_targets(n, g.rng, 2)]
    if not targets:
      return None
    rel = g.rng.choice(targets)
    return {'deep': g.rng.random() < 0.5, 'rel': rel,
            'v': g.value(node_at(n, rel[:-1]), rel[-1])}
  def run(n, a, B):
    return n.clone(deep=a['deep'], override={path_key(a['rel'], 'keypath'): B(a['v'])})


@op('json-roundtrip', 'Any', effect='new')
class _:
  def gen(g, n): return {'str': g.rng.random() < 0.5}
  def run(n, a, B):
    if a['str']:
      return pg.from_json_str(pg.to_json_str(n))
    return pg.from_json(pg.to_json(n))


@op('seal', 'Any', effect='flag')
class _:
  def gen(g, n): return {'sealed': g.rng.random() < 0.5}
  def run(n, a, B): return n.seal(a['sealed'])


@op('set_accessor_writable', 'Any', effect='flag')
class _:
  def gen(g, n): return {'w': g.rng.random() < 0.6}
  def run(n, a, B): return n.set_accessor_writable(a['w'])


# --------------------------------------------------------------- scopes -----

SCOPES = {
    'notify_off': lambda: pg.notify_on_change(False),
    'writable': lambda: pg.allow_writable_accessors(True),
    'not_writable': lambda: pg.allow_writable_accessors(False),
    'no_typecheck': lambda: pg.enable_type_check(False),
    'partial': lambda: pg.allow_partial(True),
    'sealed': lambda: pg.as_sealed(True),
    'unsealed': lambda: pg.as_sealed(False),
}


@contextlib.contextmanager
def scopes(names):
  with contextlib.ExitStack() as st:
    for n in names:
      st.enter_context(SCOPES[n]())
    yield


def execute(forest, step):
  """Runs one step on the real objects.

  Returns ('ok', result) or ('raise', exception).
  """
  o = OPS[step['op']]
  node = D.resolve(forest, step['at'][0], step['at'][1])
  B = lambda d: D.build(d, forest)
  try:
    with scopes(step.get('scopes', ())):
      return 'ok', o.run(node, step['args'], B)
  except Exception as e:  # pylint: disable=broad-except
    return 'raise', e


def show_step(step):
  def sa(v):
    if isinstance(v, list) and v and isinstance(v[0], str) and v[0] in (
        'v', 'D', 'L', 'd', 'l', 'O', 'leaf', 'node', 'missing', 'ins', 't'):
      try:
        return D.show(v)
      except Exception:  # a key list that happens to look like a description
        pass
    if isinstance(v, list):
      return '[' + ', '.join(sa(x) for x in v) + ']'
    return repr(v)
  args = ', '.join(f'{k}={sa(v)}' for k, v in step['args'].items())
  sc = (' in ' + '+'.join(step['scopes'])) if step.get('scopes') else ''
  return f"root{step['at'][0]}{step['at'][1]}.{step['op']}({args}){sc}"


# Public methods of the three classes that are known not to mutate (reviewed).
READ_ONLY = set('''
DictType ListType ObjectType TUPLE_MARKER TYPE_CONVERTER TYPE_NAME_KEY
accessor_writable add_module_alias allow_partial auto_register
class_from_typename clone copy count custom_apply format from_json fromkeys get
index inspect is_abstract is_deterministic is_partial is_pure_symbolic
is_registered is_sealed items keys load load_types_for_deserialization max_size
missing_values non_default_values partial register registered_types save
sym_abstract sym_ancestor sym_attr_field sym_clone sym_contains sym_descendants
sym_eq sym_field sym_get sym_getattr sym_gt sym_has sym_hasattr sym_hash
sym_inferrable sym_inferred sym_items sym_jsonify sym_keys sym_lt sym_missing
sym_ne sym_nondefault sym_origin sym_parent sym_partial sym_path
sym_puresymbolic sym_root sym_sealed sym_init_args sym_values to_html to_html_str to_json
to_json_dict to_json_str value_spec values allow_symbolic_assignment
allow_symbolic_attribute allow_symbolic_mutation auto_schema
infer_symbolic_fields_from_annotations use_symbolic_comparison
'''.split())
# Public mutators driven by the table (by attribute name).
COVERED = set('''
append insert extend pop remove clear sort reverse update setdefault popitem
rebind sym_rebind seal sym_seal set_accessor_writable
'''.split())
# Public methods that are plumbing of the tree itself (the harness does not
# call them: they are the mechanism C01 observes, not user operations).
PLUMBING = set('sym_setparent sym_setpath sym_setorigin use_value_spec'.split())


def unclassified_public_methods():
  out = []
  for cls in (pg.List, pg.Dict, pg.Object):
    for m in dir(cls):
      if m.startswith('_'):
        continue
      if m not in READ_ONLY and m not in COVERED and m not in PLUMBING:
        out.append(f'{cls.__name__}.{m}')
  return sorted(set(out))
