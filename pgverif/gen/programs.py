"""Seeded generator of small, terminating, deterministic Python programs (C19).

Programs are produced as source text by a recursive generator over the
statement and expression kinds of the language: every compound statement takes
blocks of arbitrary statements, every expression slot takes arbitrary
expressions, down to a depth bound.  They only use names provided by
`initial_globals()` or defined by themselves, always terminate (loops run over
finite literals / end in `break`, no recursion) and have no effect outside
their globals and stdout.  Run-time errors (NameError, AssertionError, ...)
are possible and deterministic.

Every program starts with the statement `probe.hit` (an attribute load on a
harness object): if any part of the program runs, the probe counts it.
"""
import contextlib
import types

SAFE_IMPORTS = ['math', 'string', 'itertools', 'operator', 'functools']
FROM_IMPORTS = [('math', 'pi'), ('math', 'floor'), ('operator', 'add'),
                ('string', 'digits'), ('itertools', 'chain')]


class Probe:
  """Attribute load `probe.hit` is a free construct with a visible effect."""

  def __init__(self):
    self.count = 0

  @property
  def hit(self):
    self.count += 1
    return 0

  def hits(self):
    return self.count

  def close(self):
    pass

  def __reduce__(self):
    return (int, (0,))


def _ident(x):
  return x


def _mkdeco():
  return _ident


def initial_globals(probe):
  """Fresh global variables for one execution of a generated program."""
  return {
      'probe': probe,
      'g0': 3, 'g1': 5,
      'gl': [1, 2, 3],
      'gd': {'k': 1},
      'gobj': types.SimpleNamespace(a=1),
      'ident': _ident,
      'mkdeco': _mkdeco,
      'cm': contextlib.nullcontext(7),
  }


class Env:
  """Names visible at a program point and what statements are legal there."""

  def __init__(self):
    self.ints = ['g0', 'g1']     # names bound to ints
    self.funcs = []              # one-argument plain functions defined so far
    self.in_for = False          # `break`/`continue` legal
    self.in_while = False        # `break` legal
    self.in_func = False         # `return`/`global` legal
    self.in_comp = False         # no walrus
    self.frozen = False          # bindings of this block are not tracked
    self.local = []              # names local to the enclosing function

  def child(self, **kw):
    e = Env()
    e.ints = list(self.ints)
    e.funcs = list(self.funcs)
    e.in_for, e.in_while = self.in_for, self.in_while
    e.in_func, e.in_comp, e.frozen = self.in_func, self.in_comp, self.frozen
    e.local = list(self.local)
    for k, v in kw.items():
      setattr(e, k, v)
    return e

  def scope(self, extra=()):
    """Environment of a nested function/lambda body."""
    e = self.child(in_for=False, in_while=False, in_func=True, frozen=False)
    e.ints = list(self.ints) + list(extra)
    e.local = list(extra)
    return e

  def bind(self, name):
    if not self.frozen and name not in self.ints:
      self.ints.append(name)
      self.local.append(name)


class ProgramGen:
  """One generator per program."""

  def __init__(self, rng, depth=3, top=(1, 4), weights=None):
    self.rng = rng
    self.depth = depth
    self.top = top
    self.n = 0
    self.last_kind = None

  # -- helpers ---------------------------------------------------------------
  def fresh(self, prefix='v'):
    self.n += 1
    return f'{prefix}{self.n}'

  def pick(self, table):
    total = sum(w for _, w in table)
    r = self.rng.random() * total
    for k, w in table:
      r -= w
      if r < 0:
        return k
    return table[-1][0]

  # -- expressions -----------------------------------------------------------
  def atom(self, env):
    r = self.rng.random()
    if r < 0.45 and env.ints:
      return self.rng.choice(env.ints)
    if r < 0.55:
      return self.rng.choice(['gl[0]', "gd['k']", 'gobj.a', 'gl[-1]'])
    if r < 0.6:
      return self.rng.choice(['True', 'False'])
    return str(self.rng.randint(0, 9))

  IEXPR = [('atom', 3), ('binop', 3), ('divmod', 1), ('unary', 1), ('boolop', 1.5),
           ('compare', 1.5), ('display', 2), ('attr', 1), ('call', 3),
           ('lambda', 1.5), ('ifexp', 1.5), ('comp', 1.5), ('walrus', 1.2),
           ('fstring', 0.7), ('method', 0.7)]

  def iexpr(self, env, d):
    """An int-valued expression."""
    if d <= 0:
      return self.atom(env)
    kind = self.pick(self.IEXPR)
    e = lambda dd=d - 1: self.iexpr(env, dd)
    rng = self.rng
    if kind == 'atom':
      return self.atom(env)
    if kind == 'binop':
      return f'({e()} {rng.choice(["+", "-", "*", "|", "&", "^"])} {e()})'
    if kind == 'divmod':
      return f'({e()} {rng.choice(["//", "%"])} {rng.randint(1, 5)})'
    if kind == 'unary':
      return f'({rng.choice(["-", "not ", "~", "+"])}{e()})'
    if kind == 'boolop':
      return f'({e()} {rng.choice(["and", "or"])} {e()})'
    if kind == 'compare':
      r = rng.random()
      if r < 0.5:
        return f'({e()} {rng.choice(["<", "<=", "==", "!=", ">", "is", "is not"])} {e()})'
      if r < 0.75:
        return f'({e()} {rng.choice(["in", "not in"])} [{e()}, {e()}])'
      return f'({e()} < {e()} <= {e()})'
    if kind == 'display':
      r = rng.random()
      if r < 0.25:
        return f'[{e()}, {e()}][{rng.randint(0, 1)}]'
      if r < 0.45:
        return f'({e()}, {e()})[{rng.randint(-2, 1)}]'
      if r < 0.6:
        return f'{{1: {e()}, 2: {e()}}}[{rng.randint(1, 2)}]'
      if r < 0.75:
        return f'[{e()}, {e()}, {e()}][{rng.randint(0, 1)}:][0]'
      if r < 0.9:
        return f'[*[{e()}], {e()}][{rng.randint(0, 1)}]'
      return f'{{**{{1: {e()}}}, 2: {e()}}}[{rng.randint(1, 2)}]'
    if kind == 'attr':
      return rng.choice([f'({e()}).real', f'({e()}).imag', 'gobj.a', 'probe.hit',
                         f'({e()}).numerator'])
    if kind == 'call':
      r = rng.random()
      if env.funcs and r < 0.3:
        return f'{rng.choice(env.funcs)}({e()})'
      if r < 0.45:
        return f'abs({e()})'
      if r < 0.6:
        return f'max({e()}, {e()})'
      if r < 0.7:
        return f'len([{e()}, {e()}])'
      if r < 0.8:
        return f'ident({e()})'
      if r < 0.87:
        return f'min({e()}, {e()}, key=ident)'
      if r < 0.94:
        return f'int(*[{e()}])'
      return f'sum([{e()}], **{{"start": {e()}}})'
    if kind == 'lambda':
      x = self.fresh('p')
      inner = env.scope([x])
      r = rng.random()
      if r < 0.6:
        return f'(lambda {x}: {self.iexpr(inner, d - 1)})({e()})'
      if r < 0.8:
        return f'(lambda {x}={e()}: {self.iexpr(inner, d - 1)})()'
      return f'(lambda *{x}: {self.iexpr(env.scope(), d - 1)})({e()})'
    if kind == 'ifexp':
      return f'({e()} if {e()} else {e()})'
    if kind == 'comp':
      x = self.fresh('c')
      inner = env.child(in_comp=True)
      inner.ints = env.ints + [x]
      body = self.iexpr(inner, d - 1)
      src = f'[{self.iexpr(env.child(in_comp=True), d - 1)}, {rng.randint(0, 9)}]'
      r = rng.random()
      if r < 0.4:
        return f'[{body} for {x} in {src}][0]'
      if r < 0.55:
        return f'[{body} for {x} in {src} if {x} == {x}][-1]'
      if r < 0.7:
        return f'{{7: {body} for {x} in {src}}}[7]'
      if r < 0.85:
        return f'sum({body} for {x} in {src})'
      return f'len({{{body} for {x} in {src}}})'
    if kind == 'walrus':
      if env.in_comp:
        return self.atom(env)
      return f'({self.fresh("w")} := {e()})'
    if kind == 'fstring':
      return f"len(f'{{({e()})}}x')"
    if kind == 'method':
      return rng.choice([f"'aba'.count('a')", f'gl.index(gl[0])', f"gd.get('k', {e()})",
                         f'({e()}).bit_length()'])
    raise AssertionError(kind)

  def aexpr(self, env, d):
    """An expression of any type (statement position / right-hand sides)."""
    r = self.rng.random()
    e = lambda: self.iexpr(env, max(d - 1, 0))
    if r < 0.45 or d <= 0:
      return self.iexpr(env, d)
    if r < 0.53:
      return f'[{e()}, {e()}]'
    if r < 0.58:
      return f'({e()}, {e()})'
    if r < 0.63:
      return f'{{{e()}: {e()}}}'
    if r < 0.66:
      return f'{{{e()}, {e()}}}'
    if r < 0.7:
      return self.rng.choice(["'s'", "'a\\nb'", 'None', "b'x'", '2.5', '...'])
    if r < 0.76:
      x = self.fresh('p')
      return f'lambda {x}: {self.iexpr(env.scope([x]), d - 1)}'
    if r < 0.82:
      x = self.fresh('c')
      inner = env.child(in_comp=True)
      inner.ints = env.ints + [x]
      return f'[{self.iexpr(inner, d - 1)} for {x} in [{e()}, 1]]'
    if r < 0.86:
      return f"f'{{({e()})}}-{{({e()})!r:>3}}'"
    if r < 0.93:
      return f'print({e()})'
    if r < 0.96:
      return f"print({e()}, 'x', sep='-')"
    return self.rng.choice(["'ab'.upper()", 'gl.copy()', f'sorted([{e()}, {e()}])',
                            f'str({e()})', f'list(range({self.rng.randint(0, 3)}))'])

  # -- statements ------------------------------------------------------------
  STMT = [('expr', 3), ('pass', 0.5), ('assign', 4), ('assign-tuple', 1),
          ('assign-sub', 1), ('assign-attr', 0.7), ('assign-chain', 0.5),
          ('augassign', 2), ('annassign', 1.5), ('if', 3), ('match', 1.2),
          ('for', 3), ('while', 2), ('try', 2.5), ('trystar', 1.2), ('raise', 0.4),
          ('assert', 1.2), ('def', 3), ('asyncdef', 1), ('class', 2),
          ('import', 1.5), ('with', 1), ('del', 0.6), ('global', 0.6),
          ('return', 0.8), ('break', 0.8), ('closure', 0.5)]
  SIMPLE = {'expr', 'pass', 'assign', 'assign-tuple', 'assign-sub', 'assign-attr',
            'assign-chain', 'augassign', 'annassign', 'raise', 'assert', 'import',
            'del'}

  def block(self, env, d, lo=1, hi=3, **kw):
    inner = env.child(**kw)
    out = []
    for _ in range(self.rng.randint(lo, hi)):
      out.extend(self.stmt(inner, d))
    return ['  ' + l for l in out]

  def stmt(self, env, d, kind=None):
    """Returns the source lines of one statement (a few for helper set-up)."""
    rng = self.rng
    if kind is None:
      for _ in range(20):
        kind = self.pick(self.STMT)
        if d <= 0 and kind not in self.SIMPLE:
          continue
        if kind == 'return' and not env.in_func:
          continue
        if kind == 'global' and not env.in_func:
          continue
        if kind == 'break' and not (env.in_for or env.in_while):
          continue
        break
      else:
        kind = 'pass'
    e = lambda dd=max(d - 1, 0): self.iexpr(env, dd)
    self.last_kind = kind
    if kind == 'expr':
      return [self.aexpr(env, d)]
    if kind == 'pass':
      return ['pass']
    if kind == 'assign':
      v = self.fresh()
      if rng.random() < 0.7:
        line = f'{v} = {e(d)}'
        env.bind(v)
        return [line]
      return [f'{v} = {self.aexpr(env, d)}']
    if kind == 'assign-tuple':
      a, b = self.fresh(), self.fresh()
      r = rng.random()
      if r < 0.5:
        line = f'{a}, {b} = {e()}, {e()}'
      elif r < 0.75:
        line = f'[{a}, {b}] = [{e()}, {e()}]'
      else:
        line = f'{a}, *{b} = [{e()}, {e()}, {e()}]'
        env.bind(a)
        return [line]
      env.bind(a)
      env.bind(b)
      return [line]
    if kind == 'assign-sub':
      return [rng.choice([f'gl[{rng.randint(0, 2)}] = {e()}', f"gd['n'] = {e()}",
                          f'gl[0:1] = [{e()}]'])]
    if kind == 'assign-attr':
      return [f'gobj.{rng.choice(["a", "b"])} = {e()}']
    if kind == 'assign-chain':
      a, b = self.fresh(), self.fresh()
      line = f'{a} = {b} = {e()}'
      env.bind(a)
      env.bind(b)
      return [line]
    if kind == 'augassign':
      op = rng.choice(['+=', '-=', '*=', '|=', '//='])
      rhs = e() if op != '//=' else str(rng.randint(1, 4))
      names = env.local if env.in_func else env.ints
      tgt = rng.choice(list(names) * 3 + ['gl[0]', 'gobj.a', "gd['k']"])
      return [f'{tgt} {op} {rhs}']
    if kind == 'annassign':
      v = self.fresh()
      r = rng.random()
      if r < 0.7:
        line = f'{v}: int = {e()}'
        env.bind(v)
        return [line]
      if r < 0.85:
        return [f'{v}: int']
      return [f'gobj.a: int = {e()}']
    if kind == 'if':
      out = [f'if {e()}:'] + self.block(env, d - 1)
      if rng.random() < 0.3:
        out += [f'elif {e()}:'] + self.block(env, d - 1)
      if rng.random() < 0.5:
        out += ['else:'] + self.block(env, d - 1)
      return out
    if kind == 'match':
      x = self.fresh('m')
      out = [f'match {e()}:']
      cases = rng.sample([f'case {rng.randint(0, 3)}:', f'case {rng.randint(4, 6)} | 7:',
                          f'case {x} if {x} > {rng.randint(0, 5)}:'], rng.randint(1, 2))
      for c in cases + ['case _:']:
        out += ['  ' + c] + ['  ' + l for l in self.block(env, d - 1, 1, 2)]
      return out
    if kind == 'for':
      i = self.fresh('i')
      r = rng.random()
      if r < 0.5:
        head = f'for {i} in [{e()}, {e()}]:'
      elif r < 0.8:
        head = f'for {i} in range({rng.randint(0, 3)}):'
      else:
        head = f'for {i}, _ in [({e()}, 0)]:'
      inner = env.child(in_for=True, in_while=False)
      inner.ints = env.ints + [i]
      out = [head] + self.block(inner, d - 1, in_for=True, in_while=False)
      if rng.random() < 0.2:
        out += ['else:'] + self.block(env, d - 1, 1, 2)
      return out
    if kind == 'while':
      if rng.random() < 0.2:
        return ['while False:'] + self.block(env, d - 1, 1, 2, in_for=False, in_while=True)
      out = [f'while {e()}:'] + self.block(env, d - 1, 1, 2, in_for=False, in_while=True)
      out += ['  break']
      if rng.random() < 0.2:
        out += ['else:'] + self.block(env, d - 1, 1, 1)
      return out
    if kind == 'try':
      body = self.block(env, d - 1, 1, 2)
      r = rng.random()
      if r < 0.4:
        body += ['  ' + rng.choice(['raise ValueError', f'raise ValueError({e()})',
                                    "raise KeyError('k') from None"])]
      out = ['try:'] + body
      r = rng.random()
      if r < 0.8:
        ex = self.fresh('ex')
        out += [rng.choice(['except Exception:', f'except (ValueError, KeyError) as {ex}:',
                            'except:'])]
        out += self.block(env, d - 1, 1, 2)
        if rng.random() < 0.25:
          out += ['else:'] + self.block(env, d - 1, 1, 1)
        if rng.random() < 0.3:
          out += ['finally:'] + self.block(env, d - 1, 1, 1, in_for=False, in_while=False)
      else:
        out += ['finally:'] + self.block(env, d - 1, 1, 1, in_for=False, in_while=False)
      return out
    if kind == 'trystar':
      body = self.block(env, d - 1, 1, 2, in_for=False, in_while=False)
      if rng.random() < 0.4:
        body += ['  raise ValueError']
      out = ['try:'] + body + ['except* ValueError:']
      out += self.block(env, d - 1, 1, 2, in_for=False, in_while=False, in_func=False)
      return out
    if kind == 'raise':
      return [rng.choice(['raise ValueError', "raise KeyError('q')"])]
    if kind == 'assert':
      a = e()
      r = rng.random()
      if r < 0.6:
        return [f'assert ({a} == {a})']
      if r < 0.85:
        return [f"assert ({a} or True), 'msg'"]
      return [f'assert {a}']
    if kind == 'def':
      f, x = self.fresh('f'), self.fresh('a')
      y = self.fresh('a')
      inner = env.scope([x])
      r = rng.random()
      params, plain = x, True
      if r < 0.25:
        params = f'{x}, {y}={e()}'
        inner.ints.append(y)
      elif r < 0.35:
        params = f'{x}, *{y}, **{self.fresh("k")}'
      elif r < 0.45:
        params = f'{x}: int'
      out = []
      r = rng.random()
      if r < 0.15:
        out.append('@ident')
      elif r < 0.25:
        out.append('@mkdeco()')
      ret = ' -> int' if rng.random() < 0.15 else ''
      out.append(f'def {f}({params}){ret}:')
      body = self.block(inner, d - 1, 0, 2)
      r = rng.random()
      if r < 0.75:
        body.append(f'  return {self.iexpr(inner, d - 1)}')
      elif r < 0.88:
        body.append(f'  yield {self.iexpr(inner, d - 1)}')
        plain = False
      elif r < 0.93:
        body.append(f'  yield from [{self.iexpr(inner, d - 1)}]')
        plain = False
      elif not body:
        body.append('  pass')
      out += body
      if plain and not env.frozen:
        env.funcs.append(f)
      return out
    if kind == 'asyncdef':
      f, x = self.fresh('af'), self.fresh('a')
      inner = env.scope([x])
      out = [f'async def {f}({x}):']
      r = rng.random()
      if r < 0.3:
        i = self.fresh('i')
        out += [f'  async for {i} in {x}:'] + ['  ' + l for l in self.block(inner, d - 1, 1, 1, in_for=True)]
      elif r < 0.55:
        out += [f'  async with {x}:'] + ['  ' + l for l in self.block(inner, d - 1, 1, 1)]
      elif r < 0.8:
        out += [f'  await {x}']
      out += [f'  return {self.iexpr(inner, d - 1)}']
      return out
    if kind == 'class':
      c = self.fresh('C')
      head = rng.choice([f'class {c}:', f'class {c}(Exception):',
                         f'class {c}(object, metaclass=type):'])
      body_env = env.child(in_for=False, in_while=False, in_func=False, frozen=True)
      body = []
      for _ in range(rng.randint(1, 3)):
        r = rng.random()
        if r < 0.3:
          body.append(f'{self.fresh("t")} = {self.iexpr(body_env, d - 1)}')
        elif r < 0.6:
          m = self.fresh('meth')
          inner = env.scope(['self'])
          inner.ints.remove('self')
          body.append(f'def {m}(self):')
          body.append(f'  return {self.iexpr(inner, d - 1)}')
        elif r < 0.7:
          body.append('pass')
        else:
          body.extend(self.stmt(body_env, d - 1))
      return [head] + ['  ' + l for l in body]
    if kind == 'import':
      r = rng.random()
      if r < 0.35:
        return [f'import {rng.choice(SAFE_IMPORTS)}']
      if r < 0.5:
        return [f'import {rng.choice(SAFE_IMPORTS)} as {self.fresh("mod")}']
      if r < 0.6:
        return ['import os.path']
      m, n = rng.choice(FROM_IMPORTS)
      if r < 0.85:
        return [f'from {m} import {n}']
      return [f'from {m} import {n} as {self.fresh("imp")}']
    if kind == 'with':
      r = rng.random()
      if r < 0.5:
        head = 'with cm:'
      elif r < 0.8:
        head = f'with cm as {self.fresh("cv")}:'
      else:
        head = f'with cm, cm as {self.fresh("cv")}:'
      return [head] + self.block(env, d - 1, 1, 2)
    if kind == 'del':
      v = self.fresh()
      return [f'{v} = {e()}', f'del {v}']
    if kind == 'global':
      g = rng.choice(['g0', 'g1'])
      return [f'global {g}', rng.choice([f'{g} = {e()}', f'{g} += 1'])]
    if kind == 'return':
      return [f'return {e()}']
    if kind == 'break':
      if env.in_for and rng.random() < 0.4:
        return ['continue']
      return ['break']
    if kind == 'closure':
      f, g, n = self.fresh('f'), self.fresh('f'), self.fresh('n')
      return [f'def {f}():', f'  {n} = {e()}', f'  def {g}():', f'    nonlocal {n}',
              f'    {n} += 1', f'    return {n}', f'  return {g}()', f'{self.fresh()} = {f}()']
    raise AssertionError(kind)

  LAST = [('expr', 5), ('assign', 2), ('assign-chain', 0.5), ('augassign', 1),
          ('annassign', 1), ('assign-tuple', 0.8), ('assign-sub', 0.8),
          ('assign-attr', 0.5), (None, 4)]

  def program(self):
    """Returns the program text."""
    env = Env()
    lines = ['probe.hit']
    for _ in range(self.rng.randint(*self.top)):
      lines.extend(self.stmt(env, self.depth))
    kind = self.pick(self.LAST)
    last = self.stmt(env, self.depth if kind is None else min(self.depth, 2), kind)
    lines.extend(last)
    return '\n'.join(lines) + '\n'


INVALID_SNIPPETS = ['x = (', 'def :', 'for in y:\n  pass', 'a b', 'x = = 1',
                    'if 1\n  pass', 'class :', '1 +', 'import', ')', 'x = 1\n  y = 2']


def invalid_program(rng):
  """A text that is not a Python program (must be refused as a code error)."""
  pre = rng.choice(['', 'probe.hit\n', 'probe.hit\nx = 1\n'])
  return pre + rng.choice(INVALID_SNIPPETS) + '\n'


# -- programs whose run-time error happens below the top-level statement -------

# (expression, needs import) — every one raises when evaluated.
ERROR_EXPRS = [
    ('1 // ({a} - {a})', None), ("int('x')", None), ("{{}}['k']", None), ('[][{a}]', None),
    ('undefined_name_q', None), ('None.attr', None), ("sorted([{a}, 'a'])", None),
    ('gl.index(99)', None), ("re.compile('(((')", 're'), ("json.loads('[[[[}}')", 'json'),
    ('operator.truediv({a}, 0)', 'operator'),
    ('functools.reduce(lambda p, q: p // q, [{a}, 0])', 'functools'),
    ("string.Template('$').substitute()", 'string'),
    ("fractions.Fraction(1, 0)", 'fractions'),
]
ERROR_STMTS = ["raise ValueError('deep')", "raise KeyError('deep') from None", 'assert {a} is None',
               "raise OSError(2, 'deep')"]
LINK_KINDS = ['def', 'def', 'def-local', 'lambda', 'comp', 'genexp', 'method', 'recursion',
              'map', 'try-finally', 'reraise', 'sorted-key', 'static', 'closure', 'dictcomp']


def deep_error_program(rng):
  """A program whose run-time error is raised `k` calls below a top-level statement.

  The statement that triggers the error is somewhere in the middle of the
  program (or is its last statement, in expression or assignment form, also
  nested in a compound statement or spread over several lines); the calls go
  through functions, lambdas, methods, comprehensions, generator expressions,
  recursion and callbacks of builtins defined by the program, and the error is
  raised by the program's own code or inside standard-library code it calls.
  Deterministic; what is raised where is found by plain execution."""
  n_links = rng.choice([0, 0, 1, 2, 3, 4, 5, 6, 7, 8, 3, 4, 5, 6])
  imports = []
  defs = []          # list of blocks (lists of lines), each defines one name
  name_of = lambda k: f'h{k}'
  # the bottom: what raises
  if rng.random() < 0.3 and n_links:
    bottom_stmt = rng.choice(ERROR_STMTS).format(a='a')
    bottom_expr = None
  else:
    bottom_expr, imp = rng.choice(ERROR_EXPRS)
    bottom_stmt = None
    if imp:
      imports.append(imp)
  for k in range(n_links, 0, -1):
    f = name_of(k)
    last = k == n_links
    if last:
      if bottom_stmt is not None:
        defs.append([f'def {f}(a):', f'  {bottom_stmt}', '  return a'])
        continue
      nxt = None
      call = lambda arg, e=bottom_expr: '(' + e.format(a=arg) + ')'
    else:
      nxt = name_of(k + 1)
      call = lambda arg, n=nxt: f'{n}({arg})'
    kind = rng.choice(LINK_KINDS)
    if kind == 'def':
      defs.append([f'def {f}(a):', f'  return {call("a")}'])
    elif kind == 'def-local':
      defs.append([f'def {f}(a):', '  b = a + 1', '  # note', f'  c = {call("b")}', '  return c'])
    elif kind == 'lambda':
      defs.append([f'{f} = lambda a: {call("a")}'])
    elif kind == 'comp':
      defs.append([f'def {f}(a):', f'  return [{call("x")} for x in [a, a]][0]'])
    elif kind == 'dictcomp':
      defs.append([f'def {f}(a):', '  return {x: ' + call('x') + ' for x in (a,)}[a]'])
    elif kind == 'genexp':
      defs.append([f'def {f}(a):', f'  return sum({call("x")} for x in [a])'])
    elif kind == 'method':
      c = f'K{k}'
      defs.append([f'class {c}:', '  def __init__(self, a):', '    self.a = a',
                   '  def go(self):', f'    return {call("self.a")}',
                   f'def {f}(a):', f'  return {c}(a).go()'])
    elif kind == 'static':
      c = f'K{k}'
      defs.append([f'class {c}:', '  @staticmethod', '  def go(a):', f'    return {call("a")}',
                   f'{f} = {c}.go'])
    elif kind == 'recursion':
      r = rng.randint(1, 4)
      defs.append([f'def {f}(a, n={r}):', '  if n == 0:', f'    return {call("a")}',
                   f'  return {f}(a, n - 1)'])
    elif kind == 'map':
      if nxt is not None:
        defs.append([f'def {f}(a):', f'  return list(map({nxt}, [a]))[0]'])
      else:
        defs.append([f'def {f}(a):', f'  return list(map(lambda x: {call("x")}, [a]))[0]'])
    elif kind == 'sorted-key':
      defs.append([f'def {f}(a):', f'  return sorted([a, a + 1], key=lambda x: {call("x")})[0]'])
    elif kind == 'try-finally':
      defs.append([f'def {f}(a):', '  try:', f'    return {call("a")}', '  finally:', '    a = 0'])
    elif kind == 'reraise':
      defs.append([f'def {f}(a):', '  try:', f'    return {call("a")}',
                   '  except Exception as err:', "    raise RuntimeError('wrapped') from err"])
    elif kind == 'closure':
      defs.append([f'def {f}(a):', '  def inner():', f'    return {call("a")}', '  return inner()'])
    else:
      raise AssertionError(kind)
  rng.shuffle(defs)
  arg = str(rng.randint(1, 5))
  if n_links:
    trig = f'{name_of(1)}({arg})'
  else:
    trig = '(' + bottom_expr.format(a=arg) + ')'
  v = 'r0'
  form = rng.choice(['expr', 'assign', 'assign', 'call-arg', 'multi-line', 'multi-line-2', 'for', 'if',
                     'with', 'try-finally', 'aug', 'tuple', 'while', 'sub'])
  if form == 'expr':
    trigger = [trig]
  elif form == 'assign':
    trigger = [f'{v} = {trig}']
  elif form == 'call-arg':
    trigger = [f'{v} = max(1, {trig})']
  elif form == 'multi-line':
    trigger = [f'{v} = max(', '    1,', f'    {trig},', '    2)']
  elif form == 'multi-line-2':
    trigger = [f'{v} = [', '    g0,', f'    {trig}', ']']
  elif form == 'for':
    trigger = ['for it in [1, 2]:', '  g0 = it', f'  {v} = {trig}']
  elif form == 'if':
    trigger = ['if g0:', f'  {v} = {trig}', 'else:', '  pass']
  elif form == 'with':
    trigger = ['with cm:', '  pass', f'  {trig}']
  elif form == 'try-finally':
    trigger = ['try:', f'  {v} = {trig}', 'finally:', '  g1 = 0']
  elif form == 'aug':
    trigger = [f'g0 += {trig}']
  elif form == 'tuple':
    trigger = [f'{v}, r1 = {trig}, 2']
  elif form == 'while':
    trigger = ['while True:', f'  {trig}', '  break']
  elif form == 'sub':
    trigger = [f'gl[0] = {trig}']
  fillers = ['t{n} = {n}', 'gl.append({n})', 'print({n})', '# comment {n}', '', 't{n} = [\n    {n},\n]',
             "gd['n{n}'] = {n}", 'pass', 'def unused{n}():\n  return {n}']
  lines = ['probe.hit']
  lines += [f'import {m}' for m in imports]
  n = 0
  for blk in defs:
    while rng.random() < 0.3:
      n += 1
      lines += rng.choice(fillers).format(n=n).split('\n')
    lines += blk
  while rng.random() < 0.5:
    n += 1
    lines += rng.choice(fillers).format(n=n).split('\n')
  lines += trigger
  if rng.random() < 0.6:                 # otherwise the trigger is the last statement
    for _ in range(rng.randint(1, 3)):
      n += 1
      lines += rng.choice(fillers[:4] + fillers[5:]).format(n=n).split('\n')
    if rng.random() < 0.5:
      lines.append(rng.choice(['t1', 'g0 + 1', 'z9 = 4']))
  return '\n'.join(lines) + '\n'
