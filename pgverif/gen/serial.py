"""Descriptions of serializable values (C05): generation, build, shrink, kind.

Extends the description language of `gen/desc.py` (kinds 'v', 'D', 'd', 'L',
'l', 't', 'O', 'leaf' keep their meaning) with

  ['P', clsname, [[k, desc]...]]      cls.partial(**fields) (partial object)
  ['F', [[k, desc]...]]               instance of the functor models.add_fn
  ['H', kind, ...]                    hyper primitive (oneof/manyof/floatv)
  ['sym', name]                       class / function / method / annotation (SYMBOLS)
  ['TD', specdesc, plain]             pg.Dict(plain, value_spec=spec)   (typed root)
  ['TL', specdesc, plain]             pg.List(plain, value_spec=spec)   (typed root)
  ['spec', specdesc]                  value spec built by gen/specs.py
  ['specx', name]                     hand-written value spec (EXTRA_SPECS)
  ['field', key, specdesc, doc, md]   pg.typing.Field
  ['schema', clsname]                 the class schema of a pgverif.models class
  ['schema2', [[key, specdesc]...], name, md]   pg.typing.Schema(...)
  ['space', spacedesc]                DNASpec built by gen/spaces.py
  ['dna', spacedesc, seed]            spec.random_dna(Random(seed))
  ['fn', shape, [desc...], [[name, desc]...]]   lambda / locally defined function
                                      (FN_SHAPES) whose __defaults__ / __kwdefaults__
                                      are the described values
  ['oeq', name, v, tag]               opaque picklable object whose __eq__ is user-defined
                                      and hostile (OPAQUE_EQ: always / never / by one
                                      attribute / ambiguous truth value / raising)
  ['kp', [key...]]                    pg.KeyPath(keys)
  ['inf']                             pg.symbolic.ValueFromParentChain(): a member whose value
                                      is inferred from the same-named member of an ancestor
  ['dnaspec', desc]                   pg.dna_spec(build(desc)): the DNASpec of a search space
                                      given as a value (dicts / lists with hyper values)
('O' / 'P' also name the classes of this module: EqAlways, EqByField, EqNever,
UeqHolder - pg.Object subclasses that override sym_eq - and Bookmark, which has
pg.KeyPath-typed fields.)

Everything is JSON-able, so a case can be printed, replayed and *shrunk*:
`shrinks(desc)` lists strictly smaller descriptions; `kind(desc)` names the
class of input of a (minimal) description from harness facts only and is used
for mechanism keys.
"""
import copy
import inspect
import random
import types
import typing

import pyglove as pg
from pgverif import models as M
from pgverif.gen import desc as D
from pgverif.gen import spaces as SP
from pgverif.gen import specs as SG
from pgverif.gen import values as V

T = pg.typing

EXTRA_STRINGS = ['n_:x', 'n_:-2', 'n_:', '__tuple__x', 'type', 'a"b\\c', ' ']
# Text a user can hold in a `str` and that a text file / a line-delimited record
# file has to carry: unpaired surrogates (os.fsdecode, a cut UTF-16 pair),
# non-BMP and other non-ASCII text, NUL, every kind of line break, strings that
# look like JSON or like an escape sequence, long strings.
FILE_STRINGS = [
    '\ud800', 'bad\ud83dtail', '\udc80abc', '\udfff', '\udc00\ud800', 'a\udbff',
    '\U0001f600 smile', '\U00010348', '\U0010ffff', 'caf\xe9 \u4f60\u597d', '\xff', '\ufeff',
    '\ufffe', '\uffff', 'a\x00b', '\x7f', '\x1b[0m', '\r', 'a\r\nb', '\n', '\n\n', 'a\rb',
    'x\x0by\x0cz', '\x1c\x1d\x1e', '\x85', '\u2028', 'a\u2029b', '\\u0041', '\\ud800', '\\n',
    '{"a": 1}', '{"_type": "pgverif.models.Inner"}', '[1, 2]', '["__tuple__", 1]', '"a"',
    'null', 'NaN', '{"a": 1}\n{"b": 2}', '{', 'y' * 5000, '\xe9\U0001f600' * 35000,
]
STRINGS = V.HOSTILE_STRINGS + EXTRA_STRINGS + FILE_STRINGS
INT_KEYS = [0, 1, 2, -1, 7, 10**12]

SYMBOLS = {
    'class-symbolic': lambda: M.Typed,
    'class-plain': lambda: M.Leaf,
    'class-builtin': lambda: int,
    'class-nonetype': lambda: type(None),
    'function': lambda: M.plain_fn,
    'functor-class': lambda: M.add_fn,
    'builtin-function': lambda: len,
    'classmethod-own': lambda: pg.Object.partial,
    'classmethod-inherited': lambda: M.Typed.partial,
    'annotation-generic': lambda: typing.List[int],
    'annotation-optional': lambda: typing.Optional[str],
    'generic-alias': lambda: list[int],
    'ellipsis': lambda: ...,
}

EXTRA_SPECS = {
    'callable': lambda: T.Callable([T.Int(), T.Str().noneable()],
                                   kw=[('a', T.Float(min_value=0.0))], returns=T.Bool()),
    'callable-bare': lambda: T.Callable().noneable(),
    'functor': lambda: T.Functor([T.Int()], returns=T.Int()),
    'type': lambda: T.Type(M.Inner),
    'type-default': lambda: T.Type(M.Typed, default=M.TypedSub).noneable(),
    'any-annotation': lambda: T.Any(annotation=int),
    'any-default': lambda: T.Any(default=[1, 'a', None]),
    'str-regex': lambda: T.Str(regex='a.*b', default='ab').noneable(),
    'object-plain-class': lambda: T.Object(M.Leaf).noneable(),
    'object-default': lambda: T.Object(M.Inner, default=M.Inner(p=2, q='s')),
    'dict-regex-key': lambda: T.Dict([('a', T.Int(default=1)),
                                      (T.StrKey('x.*'), T.Str(), 'doc')]),
    'dict-default': lambda: T.Dict([('a', T.Int())], default={'a': 3}),
    'list-of-tuple': lambda: T.List(T.Tuple([T.Int(), T.Str()]), min_size=1, max_size=3,
                                    default=[(1, 'a')]),
    'union-noneable': lambda: T.Union([T.Int(min_value=0), T.Str(), T.List(T.Bool())],
                                      default='x').noneable(),
    'int-transform': lambda: T.Int(transform=M.plain_fn),
    'enum-objects': lambda: T.Enum(None, [None, 1, 'a', 2.5]),
    'float-bounds': lambda: T.Float(min_value=-1.5, max_value=1e300, default=0.0).freeze(),
}



# -- callables that carry default arguments ---------------------------------------

def fn_with_defaults(x, t=int, s=T.Int(min_value=0), o=M.Inner(p=2), *, k=M.Leaf,
                     m=(1, float)):
  """A module-level function (serialized by name) with typed defaults."""
  return (x, t, s, o, k, m)


class Methods:
  """Class and static methods (serialized by name) with typed defaults."""

  @classmethod
  def cm(cls, x, t=float, *, k=M.plain_fn):
    return (cls, x, t, k)

  @staticmethod
  def sm(x, t=dict, s=T.Str().noneable()):
    return (x, t, s)


class MethodsSub(Methods):
  pass


SYMBOLS.update({
    'function-defaults': lambda: fn_with_defaults,
    'classmethod-defaults': lambda: Methods.cm,
    'classmethod-defaults-inherited': lambda: MethodsSub.cm,
    'staticmethod-defaults': lambda: Methods.sm,
})


class FnBox(pg.Object):
  """A symbolic value with callable-typed members."""
  fn: T.Callable()
  cb: T.Callable([T.Any()]).noneable() = None
  extra: T.Any() = None


# -- values whose equality is defined by the user -------------------------------------
#
# `==` / pg.eq say nothing about such a value: the round-trip monitors compare
# them member by member (pg.Object subclasses) or by type and attributes
# (opaque objects), never through their own equality.

class EqAlways(pg.Object):
  """sym_eq overridden: equal to anything."""
  x: T.Any() = None

  def sym_eq(self, other):
    return True


class EqByField(pg.Object):
  """sym_eq overridden the way the doc-string of pg.eq shows: also equal to
  the value it wraps (`x` is required: EqByField.partial() wraps MISSING_VALUE)."""
  x: T.Any()

  def sym_eq(self, other):
    if super().sym_eq(other):
      return True
    return pg.eq(self.sym_getattr('x'), other)


class EqNever(pg.Object):
  """sym_eq overridden: equal to nothing, not even to a copy of itself."""
  x: T.Any() = None

  def sym_eq(self, other):
    return False


class UeqHolder(pg.Object):
  """Schema-backed slots (with defaults) for values with user-defined equality."""
  w: T.Object(EqByField) = EqByField(0)
  a: T.Any() = None
  n: T.Object(EqNever).noneable() = None
  u: T.Union([T.Object(EqAlways), T.Int()]) = 0
  m: T.Dict([(T.StrKey(), T.Any())]) = {}
  k: T.Int() = 0


class _OpaqueEq:
  """Base of the opaque (pickled) objects with a hostile __eq__."""

  def __init__(self, v=0, tag=None):
    self.v, self.tag = v, tag

  def __repr__(self):
    return f'{type(self).__name__}({self.v!r}, {self.tag!r})'


class OpaqueEqAlways(_OpaqueEq):
  """A wildcard matcher (like unittest.mock.ANY)."""

  def __eq__(self, other):
    return True

  def __ne__(self, other):
    return False

  def __hash__(self):
    return 0


class OpaqueEqNever(_OpaqueEq):

  def __eq__(self, other):
    return False

  def __ne__(self, other):
    return True

  def __hash__(self):
    return 1


class OpaqueEqByKey(_OpaqueEq):
  """Equal by one attribute (`tag` does not count), also to the bare key."""

  def __eq__(self, other):
    if isinstance(other, OpaqueEqByKey):
      return self.v == other.v
    return self.v == other

  def __ne__(self, other):
    return not self.__eq__(other)

  def __hash__(self):
    return hash(self.v)


class _Ambiguous:

  def __bool__(self):
    raise ValueError('the truth value of this comparison is ambiguous')


class OpaqueEqAmbiguous(_OpaqueEq):
  """Array-like: == returns an object without a truth value."""
  __hash__ = None

  def __eq__(self, other):
    return _Ambiguous()

  def __ne__(self, other):
    return _Ambiguous()


class OpaqueEqRaises(_OpaqueEq):

  def __eq__(self, other):
    raise RuntimeError('this object cannot be compared')

  def __ne__(self, other):
    raise RuntimeError('this object cannot be compared')

  def __hash__(self):
    return 2


OPAQUE_EQ = {'always': OpaqueEqAlways, 'never': OpaqueEqNever, 'by-key': OpaqueEqByKey,
             'ambiguous': OpaqueEqAmbiguous, 'raises': OpaqueEqRaises}
OPAQUE_EQ_TYPES = tuple(OPAQUE_EQ.values())
UEQ_CLASSES = ('EqAlways', 'EqByField', 'EqNever')


class Bookmark(pg.Object):
  """Remembers locations: pg.KeyPath-typed slots and an untyped one."""
  where: T.Object(pg.KeyPath)
  alt: T.Object(pg.KeyPath).noneable() = None
  trail: T.List(T.Object(pg.KeyPath)) = []
  by_name: T.Dict([(T.StrKey(), T.Object(pg.KeyPath))]) = {}
  note: T.Any() = None


# Keys of a path / of a search-space dict: negative ints, strings that look like
# ints, the empty string, strings with the delimiters of the path syntax
# (balanced brackets: see KEY_STRINGS), marker look-alikes, other text.
KP_KEYS = [-1, -2, -10**6, 0, 1, 7, 10**12, '-1', '1', '007', '-0', '--1', '-', '\xb2', '',
           'a', 'items', 'a.b', '.', 'x[0]', '[-1]', '[0]', '[]', '[a.b]', 'n_:1', ' ',
           'a b', '\xe9', "a'b", 'a"b', 'a\\b', 'a\nb']


_MODULE_LAMBDA = lambda x, a, b: [x, (a, b)]      # pylint: disable=unnecessary-lambda-assignment


def _mk_lambda():
  return lambda x, a, b: (x, a, b)


def _mk_lambda_kwonly():
  return lambda x, a, *, k, m: (x, a, k, m)


def _mk_nested():
  def nested(x, a, b):
    return [x, a, b]
  return nested


def _mk_nested_varargs():
  def nested_va(x, a, *rest, k, **kw):
    return (x, a, rest, k, sorted(kw))
  return nested_va


def _mk_module_lambda():
  # a lambda that is not nested in a function (a fresh object per build)
  return types.FunctionType(_MODULE_LAMBDA.__code__, globals(), '<lambda>')


# shape -> (factory, number of positional parameters, keyword-only names)
FN_SHAPES = {
    'lambda': (_mk_lambda, 3, ()),
    'lambda-kwonly': (_mk_lambda_kwonly, 2, ('k', 'm')),
    'lambda-module': (_mk_module_lambda, 3, ()),
    'nested': (_mk_nested, 3, ()),
    'nested-varargs': (_mk_nested_varargs, 2, ('k',)),
}


def build_fn(shape, defaults, kwdefaults):
  f = FN_SHAPES[shape][0]()
  f.__defaults__ = tuple(defaults) if defaults else None
  f.__kwdefaults__ = dict(kwdefaults) if kwdefaults else None
  return f


def is_code_function(f):
  """A function that JSON carries as code + defaults (not by name)."""
  return isinstance(f, types.FunctionType) and (
      f.__name__ == '<lambda>' or bool(f.__code__.co_flags & inspect.CO_NESTED))


def call_probe(f):
  """Calls `f` with exactly the arguments that have no default."""
  code = f.__code__
  n = code.co_argcount - len(f.__defaults__ or ())
  kwonly = code.co_varnames[code.co_argcount:code.co_argcount + code.co_kwonlyargcount]
  kw = {k: 'kw-' + k for k in kwonly if k not in (f.__kwdefaults__ or {})}
  return f(*['arg%d' % i for i in range(n)], **kw)


def gen_default(rng, depth=2):
  """A description of a default argument: every serializable kind."""
  r = rng.random()
  if r < 0.2:
    return ['sym', rng.choice(sorted(SYMBOLS))]
  if r < 0.3:
    return ['v', rng.choice(STRINGS)] if rng.random() < 0.3 else ['v', V.prim(rng)]
  if r < 0.42:
    return gen_spec(rng)
  if r < 0.56:
    for _ in range(5):
      d = gen_object(rng, 1)
      if not is_partial(d) and buildable(d):
        return d
    return ['O', 'Inner', [['p', ['v', 2]]]]
  if r < 0.6:
    return ['leaf', rng.randint(0, 3)]
  if r < 0.7 and depth > 0:
    return gen_fn(rng, depth - 1)
  if r < 0.73:
    return rng.choice([['space', gen_space(rng, 4)], ['schema', 'Inner'],
                       ['dna', gen_space(rng, 4), rng.randint(0, 99)]])
  if depth <= 0:
    return ['sym', rng.choice(sorted(SYMBOLS))]
  n = rng.choice([1, 1, 2, 3])
  sub = lambda: gen_default(rng, depth - 1)
  k = rng.choice('ttlLdD')
  if k in 'dD':
    return [k, _fields(rng, n, sub)]
  return [k, [sub() for _ in range(n)]]


def gen_fn(rng, depth=2):
  shape = rng.choice(['lambda', 'lambda', 'lambda-kwonly', 'lambda-module', 'nested',
                      'nested', 'nested-varargs'])
  _, npos, kwonly = FN_SHAPES[shape]
  n = rng.choice([0, 1, 1, 2, npos])
  defaults = [gen_default(rng, depth) for _ in range(min(n, npos))]
  kw = [[k, gen_default(rng, depth)] for k in kwonly if rng.random() < 0.6]
  return ['fn', shape, defaults, kw]


def gen_function_value(rng):
  """A function with defaults: by itself or as a leaf of a symbolic value."""
  f = gen_fn(rng)
  r = rng.random()
  if r < 0.3:
    return f
  if r < 0.45:
    fields = [['fn', f]]
    if rng.random() < 0.5:
      fields.append(['cb', gen_fn(rng, 1)])
    if rng.random() < 0.5:
      fields.append(['extra', gen_any(rng, 1)])
    d = ['O', 'FnBox', fields]
  elif r < 0.6:
    cls = rng.choice(UNTYPED)
    d = ['O', cls, [['x', f]] + ([] if cls in ('Bound', 'NoSymCmp') else [['y', gen_any(rng, 1)]])]
  elif r < 0.7:
    d = ['P', 'Required', [['opt', f]]]
  elif r < 0.85:
    d = [rng.choice('DDd'), [[gen_key(rng), f]]]
    if rng.random() < 0.5:
      d[1] += _fields(rng, 2, lambda: gen_any(rng, 1))
      d[1] = [kv for i, kv in enumerate(d[1]) if kv[0] not in [x[0] for x in d[1][:i]]]
  else:
    d = [rng.choice('LLlt'), [f] + [gen_any(rng, 1) for _ in range(rng.randint(0, 2))]]
  if rng.random() < 0.35:
    d = ['D', [['k', d]]] if rng.random() < 0.5 else ['L', [d]]
  return d


def has_code_fn(d):
  return d[0] == 'fn' or any(has_code_fn(s) for s in subdescs(d))


UNTYPED = ['Any2', 'Writable', 'Notifier', 'Bound', 'NoSymCmp']
FAMILIES = [('prim', 6), ('container', 30), ('object', 16), ('typed-root', 7),
            ('symbol', 5), ('spec', 14), ('schema', 5), ('space', 8), ('dna', 9),
            ('function', 9), ('usereq', 8), ('keypath', 8), ('inferred', 3)]


# -- generation ---------------------------------------------------------------

def _balanced(s):
  depth = 0
  for ch in s:
    depth += (ch == '[') - (ch == ']')
    if depth < 0:
      return False
  return depth == 0


# A pg.Dict cannot be built with a key that has unbalanced brackets (C10).
KEY_STRINGS = [s for s in STRINGS if _balanced(s) and len(s) < 10000]


def gen_key(rng):
  r = rng.random()
  if r < 0.55:
    return rng.choice(V.SAFE_KEYS)
  if r < 0.72:
    return rng.choice(INT_KEYS)
  return rng.choice(KEY_STRINGS)


def gen_leaf(rng):
  r = rng.random()
  if r < 0.06:
    return ['leaf', rng.randint(0, 3)]
  if r < 0.1:
    return ['sym', rng.choice(sorted(SYMBOLS))]
  if r < 0.125:
    return gen_fn(rng, 1)
  if r < 0.3:
    return ['v', rng.choice(STRINGS)]
  return ['v', V.prim(rng)]


def _fields(rng, n, sub):
  keys = []
  for _ in range(n):
    k = gen_key(rng)
    if k not in keys:
      keys.append(k)
  return [[k, sub()] for k in keys]


def gen_any(rng, depth=3):
  r = rng.random()
  if depth <= 0 or r < 0.28:
    return gen_leaf(rng)
  sub = lambda: gen_any(rng, depth - 1)
  n = rng.choice([0, 1, 1, 2, 2, 3])
  if r < 0.5:
    return [rng.choice('DDd'), _fields(rng, n, sub)]
  if r < 0.66:
    return [rng.choice('LLl'), [sub() for _ in range(n)]]
  if r < 0.78:
    return ['t', [sub() for _ in range(n)]]
  if r < 0.9:
    cls = rng.choice(UNTYPED)
    if cls in ('Bound', 'NoSymCmp'):
      return ['O', cls, [['x', sub()]]]
    return ['O', cls, [['x', sub()], ['y', sub()]]]
  return gen_object(rng, depth - 1)


def gen_object(rng, depth=2):
  r = rng.random()
  if r < 0.45:
    return D.typed_obj(rng)
  if r < 0.6:
    fields = []
    if rng.random() < 0.5:
      fields.append(['r', ['v', rng.randint(0, 9)]])
    if rng.random() < 0.5:
      fields.append(['rs', ['v', rng.choice(['s', ''])]])
    if rng.random() < 0.5:
      fields.append(['rd', ['v', rng.choice([{'a': 2}, {}, {'b': 3}, {'a': 1, 'b': 0}])]])
    if rng.random() < 0.4:
      fields.append(['opt', gen_any(rng, depth)])
    return ['P', 'Required', fields]
  if r < 0.7:
    return ['F', [['a', gen_any(rng, depth)]] + (
        [['b', ['v', rng.randint(0, 5)]]] if rng.random() < 0.5 else [])]
  if r < 0.8:
    k = rng.choice(['oneof', 'manyof', 'floatv'])
    if k == 'floatv':
      return ['H', 'floatv', rng.choice([0.0, -1.0]), rng.choice([1.0, 2.5])]
    return ['H', k, [gen_any(rng, 1) for _ in range(rng.randint(2, 4))]]
  cls = rng.choice(UNTYPED)
  sub = lambda: gen_any(rng, depth)
  if cls in ('Bound', 'NoSymCmp'):
    return ['O', cls, [['x', sub()]]]
  return ['O', cls, [['x', sub()], ['y', sub()]]]


def gen_typed_root(rng):
  kind = rng.choice(['dict', 'list'])
  for _ in range(30):
    sd = SG.gen_spec(rng, 0, 2, kinds=[kind])
    for f in ('none', 'default', 'frozen'):
      sd.pop(f, None)
    spec = SG.build(sd)
    ok = [v for v in SG.own_values(rng, spec, 0)
          if isinstance(v, dict if kind == 'dict' else list) and SG._plain(v)
          and SG.accepts(spec, v)[0]]
    if ok:
      v = copy.deepcopy(rng.choice(ok))
      if kind == 'dict' and sd.get('fields') and rng.random() < 0.5:
        # members that have the default value of their field (constant and
        # dynamic keys)
        consts = [n for n, _ in sd['fields'] if n != '*']
        for n, fs in sd['fields']:
          if 'default' in fs:
            key = n if n != '*' else rng.choice(
                [a for a in v if a not in consts] + ['dk%d' % rng.randint(0, 2)])
            v2 = dict(v)
            v2[key] = copy.deepcopy(fs['default'][1])
            if SG.accepts(spec, v2)[0]:
              v = v2
      return ['TD' if kind == 'dict' else 'TL', sd, v]
  return ['TL', {'k': 'list', 'el': {'k': 'int', 'min': None, 'max': None},
                 'min': None, 'max': None}, [1, 2]]


def gen_spec(rng):
  if rng.random() < 0.15:
    return ['specx', rng.choice(sorted(EXTRA_SPECS))]
  return ['spec', SG.gen_spec(rng, regex=True)]


def gen_schema(rng):
  r = rng.random()
  if r < 0.3:
    return ['schema', rng.choice(['Typed', 'TypedSub', 'Required', 'Inner', 'Any2',
                                  'TypedNotifier'])]
  doc = rng.choice([None, 'doc', 'a "quoted"\nline'])
  md = rng.choice([None, {'m': 1}, {'x': [1, 'a']}])
  if r < 0.6:
    return ['field', rng.choice(['a', 'b_1', '*']), SG.gen_spec(rng, 1, 2), doc, md]
  names = rng.sample(['a', 'b', 'c', 'd'], rng.randint(0, 3))
  fields = [[n, SG.gen_spec(rng, 1, 2)] for n in names]
  if rng.random() < 0.3:
    fields.append(['*', SG.gen_spec(rng, 1, 2)])
  return ['schema2', fields, rng.choice([None, 'nm']), md]


def gen_space(rng, max_points=8):
  """A small search space (building a geno spec costs ~5 ms per point)."""
  for _ in range(20):
    d = SP.random_space(rng, max_depth=rng.choice([0, 1, 1, 2]), max_elems=rng.randint(1, 3),
                        max_n=3, floats=0.2, customs=0.1, names=0.3, lits=0.35)
    if SP.count_points(d) <= max_points:
      return d
  return SP.space(SP.choice(1, SP.consts(2), loc='p0'))


def gen_ueq(rng, depth=1):
  """A value whose equality is user-defined."""
  r = rng.random()
  inner = lambda: (gen_ueq(rng, depth - 1) if depth > 0 and rng.random() < 0.3
                   else ['v', rng.choice([0, 1, 'a', None, 2.5, [1], {'a': 1}])])
  if r < 0.45:
    name = rng.choice(['always', 'always', 'always', 'never', 'by-key', 'ambiguous', 'raises'])
    return ['oeq', name, rng.randint(0, 3), rng.choice([None, None, 1, 'b'])]
  if r < 0.6:
    return ['P', 'EqByField', []]
  if r < 0.72:
    return ['O', 'EqByField', [['x', inner()]]]
  if r < 0.88:
    return ['O', 'EqAlways', [['x', inner()]] if rng.random() < 0.7 else []]
  return ['O', 'EqNever', [['x', inner()]] if rng.random() < 0.7 else []]


def _hold(rng, u, others):
  """`u` as a member of an object / container (`others` fills other slots)."""
  p = 'P' if is_partial(u) else 'O'
  r = rng.random()
  if r < 0.26:
    cls = rng.choice(UNTYPED)
    fields = [['x', u]] + ([] if cls in ('Bound', 'NoSymCmp') or rng.random() < 0.4
                           else [['y', others()]])
    rng.shuffle(fields)
    return [p, cls, fields]
  if r < 0.5:
    fields = []
    if u[1] == 'EqByField':
      fields.append(['w', u])
    elif u[1] == 'EqNever' and u[0] == 'O' and rng.random() < 0.7:
      fields.append(['n', u])
    elif u[1] == 'EqAlways' and u[0] == 'O' and rng.random() < 0.7:
      fields.append(['u', u])
    elif rng.random() < 0.35:
      fields.append(['m', ['d', [[rng.choice(V.SAFE_KEYS), u]]]])
    else:
      fields.append(['a', u])
    if rng.random() < 0.5 and all(k != 'a' for k, _ in fields):
      fields.append(['a', others()])
    if rng.random() < 0.4:
      fields.append(['k', ['v', rng.randint(0, 9)]])
    rng.shuffle(fields)
    return [p, 'UeqHolder', fields]
  if r < 0.56:
    return ['P', 'Required', [['r', ['v', rng.randint(0, 9)]], ['opt', u]]]
  if r < 0.6:
    return ['F', [['a', u]]] if p == 'O' else ['t', [u]]
  if r < 0.78:
    d = [rng.choice('DDd'), [[gen_key(rng), u]]]
    if rng.random() < 0.5:
      d[1] += _fields(rng, 2, others)
      d[1] = [kv for i, kv in enumerate(d[1]) if kv[0] not in [x[0] for x in d[1][:i]]]
      rng.shuffle(d[1])
    return d
  items = [u] + [others() for _ in range(rng.randint(0, 2))]
  rng.shuffle(items)
  return [rng.choice('ttlllL'), items]


def gen_usereq(rng):
  """A value with user-defined equality held by schema-backed fields (untyped
  and typed, with defaults, of complete and partial objects), by dict, tuple
  and list members, alone and nested."""
  def others():
    return gen_ueq(rng, 0) if rng.random() < 0.3 else gen_any(rng, 1)
  u = gen_ueq(rng)
  if rng.random() < 0.08:
    return u
  d = _hold(rng, u, others)
  if rng.random() < 0.35:
    d = _hold(rng, d, others)
  return d


def gen_inferred(rng):
  """A tree with members whose value is inferred from an ancestor: the source
  (a member of that name) sits in the root dict, the inferential members in
  objects / dicts one to three levels below it."""
  name = rng.choice(['x', 'y'])
  def holder(depth):
    r = rng.random()
    if r < 0.5:
      cls = rng.choice(['Any2', 'Writable', 'Notifier'])
      other = 'y' if name == 'x' else 'x'
      fields = [[name, ['inf']]]
      if rng.random() < 0.6:
        fields.append([other, wrap(depth - 1) if depth > 0 and rng.random() < 0.4
                       else gen_any(rng, 1)])
      rng.shuffle(fields)
      return ['O', cls, fields]
    fields = [[name, ['inf']]]
    if rng.random() < 0.6:
      fields += [[k, v] for k, v in _fields(rng, 2, lambda: gen_any(rng, 1)) if k != name]
    rng.shuffle(fields)
    return ['D', fields]
  def wrap(depth):
    h = holder(depth)
    r = rng.random()
    if r < 0.25:
      return ['L', [h] + [gen_leaf(rng) for _ in range(rng.randint(0, 1))]]
    if r < 0.45:
      return ['D', [['in', h]]]
    if r < 0.55:
      return ['O', 'Any2', [['y' if name == 'x' else 'x', h]]]
    return h
  fields = [[name, gen_any(rng, 1) if rng.random() < 0.5 else ['v', rng.randint(0, 9)]],
            ['h', wrap(2)]]
  if rng.random() < 0.4:
    fields.append(['g', wrap(1)])
  rng.shuffle(fields)
  return ['D', fields]


def gen_kp(rng):
  n = rng.choice([0, 1, 1, 2, 2, 3, 4])
  return ['kp', [rng.choice(KP_KEYS) if rng.random() < 0.8 else rng.choice(V.SAFE_KEYS)
                 for _ in range(n)]]


def gen_hyper_tree(rng, depth=2, top=True):
  """A search space as a value: (nested) pg.Dict / list whose hyper values
  (also nested in candidates) sit under keys of KP_KEYS / at list indices."""
  def leaf():
    r = rng.random()
    if r < 0.3:
      return ['H', 'floatv', rng.choice([0.0, -1.0]), rng.choice([1.0, 2.5])]
    if r < 0.85 or depth <= 0:
      cands = [(gen_hyper_tree(rng, depth - 1, False) if depth > 0 and rng.random() < 0.25
                else ['v', rng.choice([0, 1, 'a', 'b', None, 2.5])])
               for _ in range(rng.randint(2, 3))]
      return ['H', rng.choice(['oneof', 'oneof', 'manyof']), cands]
    return ['v', rng.randint(0, 9)]
  def member():
    if depth > 0 and rng.random() < 0.3:
      return gen_hyper_tree(rng, depth - 1, False)
    return leaf()
  if not top and rng.random() < 0.25:
    return ['L', [member() for _ in range(rng.randint(1, 2))]]
  keys = []
  for _ in range(rng.randint(1, 3)):
    r = rng.random()
    k = (rng.choice([-1, -2, -7, -10**6]) if r < 0.22 else
         rng.choice(KP_KEYS) if r < 0.8 else rng.choice(V.SAFE_KEYS))
    if k not in keys:
      keys.append(k)
  return ['D', [[k, member()] for k in keys]]


def gen_keypath(rng):
  """pg.KeyPath values in typed and untyped slots; DNASpecs of search spaces
  whose decision points sit under the same kinds of key."""
  r = rng.random()
  if r < 0.22:
    # (small: building a geno spec costs ~5 ms per decision point, and a
    # candidate of a multi-choice is built once per choice)
    for _ in range(20):
      t = gen_hyper_tree(rng, rng.choice([0, 1, 1, 2]))
      if sum(3 if x[1] == 'manyof' else 1 for x in _all(t) if x[0] == 'H') <= 4:
        return ['dnaspec', t]
    return ['dnaspec', ['D', [[rng.choice(KP_KEYS), ['H', 'oneof', [['v', 0], ['v', 1]]]]]]]
  kp = gen_kp(rng)
  if r < 0.36:
    return kp
  if r < 0.75:
    fields = [['where', kp]]
    if rng.random() < 0.4:
      fields.append(['alt', gen_kp(rng)])
    if rng.random() < 0.4:
      fields.append(['trail', ['l', [gen_kp(rng) for _ in range(rng.randint(1, 3))]]])
    if rng.random() < 0.3:
      fields.append(['by_name', ['d', [[rng.choice(V.SAFE_KEYS), gen_kp(rng)]]]])
    if rng.random() < 0.4:
      fields.append(['note', gen_kp(rng) if rng.random() < 0.6 else gen_any(rng, 1)])
    rng.shuffle(fields)
    d = ['O', 'Bookmark', fields]
    if rng.random() < 0.3:
      d = [rng.choice('DLt'), [d]]
      if d[0] == 'D':
        d[1] = [[gen_key(rng), d[1][0]]]
    return d
  if r < 0.85:
    cls = rng.choice(UNTYPED)
    return ['O', cls, [['x', kp]]]
  k = rng.choice('DdLlt')
  if k in 'Dd':
    return [k, [[gen_key(rng), kp]] + ([['z', gen_kp(rng)]] if rng.random() < 0.4 else [])]
  return [k, [kp] + [gen_kp(rng) for _ in range(rng.randint(0, 2))]]


def gen_value(rng, family=None):
  """(family, description) of one serializable value."""
  if family is None:
    family = rng.choices([f for f, _ in FAMILIES], [w for _, w in FAMILIES])[0]
  for _ in range(20):
    if family == 'prim':
      d = ['v', rng.choice(STRINGS)] if rng.random() < 0.3 else ['v', V.prim(rng)]
    elif family == 'container':
      d = gen_any(rng, rng.randint(1, 4))
      if d[0] in ('v', 'leaf', 'sym'):
        d = [rng.choice('DLt'), [d] if rng.random() < 0.7 else []]
        if d[0] == 'D':
          d[1] = [[gen_key(rng), x] for x in d[1]]
    elif family == 'object':
      d = gen_object(rng)
    elif family == 'typed-root':
      d = gen_typed_root(rng)
    elif family == 'symbol':
      d = ['sym', rng.choice(sorted(SYMBOLS))]
    elif family == 'spec':
      d = gen_spec(rng)
    elif family == 'schema':
      d = gen_schema(rng)
    elif family == 'space':
      d = ['space', gen_space(rng)]
    elif family == 'dna':
      d = ['dna', gen_space(rng), rng.randint(0, 10**6)]
    elif family == 'function':
      d = gen_function_value(rng)
    elif family == 'usereq':
      d = gen_usereq(rng)
    elif family == 'keypath':
      d = gen_keypath(rng)
    elif family == 'inferred':
      d = gen_inferred(rng)
    else:
      raise ValueError(family)
    if any(x[0] == 'H' for x in _all(d)) and has_nan(d):
      continue          # NaN inside an opaque library object: equality undefined
    if buildable(d):
      return family, d
  return 'prim', ['v', 1]


def gen_storable(rng, size=None):
  """A description for the persistence histories: values of graded size."""
  size = size if size is not None else rng.choice([0, 0, 1, 1, 2, 3])
  r = rng.random()
  if r < 0.14:
    fam, d = 'object', ['P', 'Required', [['r', ['v', rng.randint(0, 9)]]]
                        + ([['opt', gen_any(rng, size)]] if size else [])]
  elif r < 0.3:
    fam, d = 'object', D.typed_obj(rng, fill=min(0.9, 0.2 + 0.25 * size))
  elif r < 0.4 and size:
    fam, d = gen_value(rng, rng.choice(['spec', 'spec', 'space', 'dna', 'object', 'object',
                                        'object', 'schema', 'usereq', 'keypath']))
  elif size == 0:
    fam, d = 'prim', gen_leaf(rng)
    if d[0] != 'v':
      d = ['v', rng.randint(0, 9)]
  else:
    fam, d = 'container', [rng.choice('DL'), []]
    n = rng.randint(size, 3 * size)
    if d[0] == 'D':
      d[1] = _fields(rng, n, lambda: gen_any(rng, size - 1))
    else:
      d[1] = [gen_any(rng, size - 1) for _ in range(n)]
  if not buildable(d):
    return 'prim', ['v', rng.randint(0, 99)]
  return fam, d


def buildable(d):
  try:
    build(d)
    return True
  except Exception:  # pylint: disable=broad-except
    return False


# -- build --------------------------------------------------------------------

def _key(k):
  return T.StrKey() if k == '*' else k


def _cls(name):
  return getattr(M, name, None) or globals()[name]


def build(d):
  """A fresh value for the description."""
  k = d[0]
  if k == 'v':
    return copy.deepcopy(d[1])
  if k in ('D', 'd'):
    items = {kk: build(vv) for kk, vv in d[1]}
    return pg.Dict(items) if k == 'D' else items
  if k in ('L', 'l'):
    items = [build(vv) for vv in d[1]]
    return pg.List(items) if k == 'L' else items
  if k == 't':
    return tuple(build(vv) for vv in d[1])
  if k == 'O':
    return _cls(d[1])(**{kk: build(vv) for kk, vv in d[2]})
  if k == 'fn':
    return build_fn(d[1], [build(x) for x in d[2]], [(kk, build(vv)) for kk, vv in d[3]])
  if k == 'P':
    return _cls(d[1]).partial(**{kk: build(vv) for kk, vv in d[2]})
  if k == 'oeq':
    return OPAQUE_EQ[d[1]](d[2], d[3])
  if k == 'kp':
    return pg.KeyPath(list(d[1]))
  if k == 'inf':
    return pg.symbolic.ValueFromParentChain()
  if k == 'dnaspec':
    return pg.dna_spec(build(d[1]))
  if k == 'F':
    return M.add_fn(**{kk: build(vv) for kk, vv in d[1]})
  if k == 'H':
    if d[1] == 'floatv':
      return pg.floatv(d[2], d[3])
    cands = [build(c) for c in d[2]]
    return pg.oneof(cands) if d[1] == 'oneof' else pg.manyof(2, cands, distinct=False)
  if k == 'leaf':
    return M.Leaf(d[1])
  if k == 'sym':
    return SYMBOLS[d[1]]()
  if k == 'TD':
    return pg.Dict(copy.deepcopy(d[2]), value_spec=SG.build(d[1]))
  if k == 'TL':
    return pg.List(copy.deepcopy(d[2]), value_spec=SG.build(d[1]))
  if k == 'spec':
    return SG.build(d[1])
  if k == 'specx':
    return EXTRA_SPECS[d[1]]()
  if k == 'field':
    return T.Field(_key(d[1]), SG.build(d[2]), d[3], copy.deepcopy(d[4]))
  if k == 'schema':
    return getattr(M, d[1]).__schema__
  if k == 'schema2':
    return T.Schema([T.Field(_key(n), SG.build(s)) for n, s in d[1]], name=d[2],
                    metadata=copy.deepcopy(d[3]))
  if k == 'space':
    return SP.build(d[1])
  if k == 'dna':
    return SP.build(d[1]).random_dna(random.Random(d[2]))
  raise ValueError(d)


def root_value_spec(d):
  """A fresh value spec to hand to from_json for typed root containers."""
  return SG.build(d[1]) if d[0] in ('TD', 'TL') else None


# -- facts about a description ---------------------------------------------------

def subdescs(d):
  """Directly nested value descriptions."""
  k = d[0]
  if k in ('D', 'd'):
    return [v for _, v in d[1]]
  if k in ('L', 'l', 't'):
    return list(d[1])
  if k in ('O', 'P'):
    return [v for _, v in d[2]]
  if k == 'F':
    return [v for _, v in d[1]]
  if k == 'H' and d[1] != 'floatv':
    return list(d[2])
  if k == 'fn':
    return list(d[2]) + [v for _, v in d[3]]
  return []


def _plain_has(v, pred):
  if isinstance(v, (list, tuple)):
    return any(_plain_has(x, pred) for x in v)
  if isinstance(v, dict):
    return any(_plain_has(x, pred) for x in v.values())
  return pred(v)


def has_nan(d):
  if d[0] == 'v':
    return _plain_has(d[1], lambda x: isinstance(x, float) and x != x)
  return any(has_nan(s) for s in subdescs(d))


def is_partial(d):
  return d[0] == 'P' or any(is_partial(s) for s in subdescs(d))


def hash_undefined(d, in_tuple=False):
  """pg.hash of a tuple falls back to the members' own __hash__, which is
  the identity for a class with use_symbolic_comparison=False."""
  if d[0] == 'O' and d[1] == 'NoSymCmp' and in_tuple:
    return True
  return any(hash_undefined(s, in_tuple or d[0] == 't') for s in subdescs(d))


def size(d):
  if d[0] == 'dnaspec':
    return 1 + size(d[1])
  if d[0] == 'kp':
    return 1 + len(d[1])
  return 1 + sum(size(s) for s in subdescs(d))


def has_kind(d, kinds):
  return d[0] in kinds or any(has_kind(s, kinds) for s in subdescs(d))


def has_user_eq(d):
  """Some member defines its own equality: pg.eq / == of the value (and of
  everything that holds it) is not a statement about its content."""
  if d[0] == 'oeq' or (d[0] in ('O', 'P') and d[1] in UEQ_CLASSES):
    return True
  return any(has_user_eq(s) for s in subdescs(d))


def reflects(d, v):
  """The built value has the members its description lists. (A constructor
  that drops or re-reads a member - e.g. one that compares members with a
  marker by == - is not the business of a codec: such a build is not a case.)"""
  k = d[0]
  get = lambda key: v.sym_getattr(key) if isinstance(v, pg.Symbolic) else v[key]
  try:
    if k in ('D', 'd'):
      if not isinstance(v, dict) or len(v) != len(d[1]):
        return False
      return all(kk in v and reflects(vv, get(kk)) for kk, vv in d[1])
    if k in ('L', 'l', 't'):
      if not isinstance(v, (tuple if k == 't' else list)) or len(v) != len(d[1]):
        return False
      return all(reflects(vv, get(i)) for i, vv in enumerate(d[1]))
    if k in ('O', 'P'):
      return type(v) is _cls(d[1]) and all(reflects(vv, get(kk)) for kk, vv in d[2])
    if k == 'F':
      return all(reflects(vv, get(kk)) for kk, vv in d[1])
    if k == 'oeq':
      return type(v) is OPAQUE_EQ[d[1]]
    if k == 'v' and isinstance(d[1], (list, dict, tuple)):
      return isinstance(v, type(d[1])) and len(v) == len(d[1])
  except Exception:  # pylint: disable=broad-except
    return False
  return True


# -- shrinking ------------------------------------------------------------------

def _spec_shrinks(sd):
  out = [copy.deepcopy(c) for c in SG.children(sd)]
  for f in ('frozen', 'default', 'none'):
    if f in sd:
      c = copy.deepcopy(sd)
      c.pop(f)
      if f == 'default':
        c.pop('frozen', None)
      out.append(c)
  k = sd['k']
  if k in ('int', 'float', 'list', 'vtuple'):
    for b in ('min', 'max'):
      if sd.get(b) is not None:
        c = copy.deepcopy(sd)
        c[b] = None
        out.append(c)
  if k == 'str' and sd.get('regex'):
    c = copy.deepcopy(sd)
    c['regex'] = None
    out.append(c)
  if k == 'enum' and len(sd['values']) > 1:
    for i in range(len(sd['values'])):
      c = copy.deepcopy(sd)
      c['values'].pop(i)
      if 'default' not in c or c['default'][1] in c['values']:
        out.append(c)
  if k == 'tuple' and len(sd['els']) > 1:
    for i in range(len(sd['els'])):
      c = copy.deepcopy(sd)
      c['els'].pop(i)
      c.pop('default', None)
      c.pop('frozen', None)
      out.append(c)
  if k == 'dict' and sd['fields'] and len(sd['fields']) > 1:
    for i in range(len(sd['fields'])):
      c = copy.deepcopy(sd)
      c['fields'].pop(i)
      c.pop('default', None)
      c.pop('frozen', None)
      out.append(c)
  if k == 'union' and len(sd['cands']) > 2:
    for i in range(len(sd['cands'])):
      c = copy.deepcopy(sd)
      c['cands'].pop(i)
      c.pop('default', None)
      c.pop('frozen', None)
      out.append(c)
  for name in ('el',):
    if name in sd:
      for s in _spec_shrinks(sd[name]):
        c = copy.deepcopy(sd)
        c[name] = s
        c.pop('default', None)
        c.pop('frozen', None)
        out.append(c)
  return out


def _all_specs(sd):
  out = [sd]
  for c in SG.children(sd):
    out += _all_specs(c)
  return out


def _space_shrinks(sp):
  out = []
  elems = sp['elems']
  if len(elems) > 1:
    for e in elems:
      out.append(SP.space(e))
  for e in elems:
    if e['t'] == 'choice':
      for c in e['cands']:
        if c['elems']:
          out.append(copy.deepcopy(c))
      if e.get('lits') is not None or e.get('name'):
        c = copy.deepcopy(e)
        c['lits'], c['name'] = None, None
        out.append(SP.space(*[c if x is e else x for x in elems]))
      if any(c['elems'] for c in e['cands']):
        c = copy.deepcopy(e)
        c['cands'] = [SP.CONST] * len(e['cands'])
        out.append(SP.space(*[c if x is e else x for x in elems]))
    elif e.get('name'):
      c = copy.deepcopy(e)
      c['name'] = None
      out.append(SP.space(*[c if x is e else x for x in elems]))
  return out


def shrinks(d):
  """Strictly simpler descriptions (candidates for greedy minimisation)."""
  k = d[0]
  out = [copy.deepcopy(s) for s in subdescs(d)]
  if k == 'v':
    v = d[1]
    if isinstance(v, str) and v != 'a':
      out.append(['v', 'a'])
      if len(v) > 1:
        # one character of each class the string has, then the halves
        seen = {}
        for ch in v[:200]:
          seen.setdefault(str_class(ch), ch)
        out += [['v', ch] for ch in seen.values() if ch != 'a']
        out += [['v', v[:len(v) // 2]], ['v', v[len(v) // 2:]]]
    elif isinstance(v, (list, tuple)):
      out += [['v', x] for x in v]
      out += [['v', type(v)(v[:i] + v[i + 1:])] for i in range(len(v))]
    elif isinstance(v, dict):
      out += [['v', x] for x in v.values()]
      out += [['v', {a: b for a, b in v.items() if a != kk}] for kk in v]
    return out
  if k in ('D', 'd', 'L', 'l', 't'):
    for i in range(len(d[1])):
      out.append([k, d[1][:i] + d[1][i + 1:]])
    for i, s in enumerate(d[1]):
      inner = s[1] if k in ('D', 'd') else s
      for c in shrinks(inner)[:12]:
        e = [s[0], c] if k in ('D', 'd') else c
        out.append([k, d[1][:i] + [e] + d[1][i + 1:]])
    for i, s in enumerate(d[1]):
      inner = s[1] if k in ('D', 'd') else s
      if repr(inner) != "['v', 0]":
        e = [s[0], ['v', 0]] if k in ('D', 'd') else ['v', 0]
        out.append([k, d[1][:i] + [e] + d[1][i + 1:]])
    if k in ('D', 'd') and not has_kind(d, ('inf',)):
      # (not with inferential members: their names refer to names of ancestors)
      for i, (kk, vv) in enumerate(d[1]):
        if kk != 'k' and all(o[0] != 'k' for o in d[1]):
          out.append([k, d[1][:i] + [['k', vv]] + d[1][i + 1:]])
    if k in ('d', 'l'):
      out.append([k.upper(), d[1]])
    return out
  if k in ('O', 'P') and d[1] in ('EqAlways', 'EqByField') and (k == 'P' or d[1] == 'EqAlways'):
    # another value that is equal to everything it is compared with
    out.append(['oeq', 'always', 0, None])
  if k == 'O' and d[1] == 'Bookmark':
    # a path of another slot (typed list / dict member) in the plain typed slot
    for name, x in d[2]:
      if name != 'where':
        out += [['O', 'Bookmark', [['where', y]]] for y in _all(x) if y[0] == 'kp']
  if (k in ('O', 'P') and d[1] in UNTYPED and d[1] != 'Any2'
      and (has_user_eq(d) or has_kind(d, ('kp', 'inf')))):
    # the plain untyped class (same fields) as the holder
    out.append([k, 'Any2', d[2]])
  if k in ('O', 'P'):
    for i in range(len(d[2])):
      out.append([k, d[1], d[2][:i] + d[2][i + 1:]])
    for i, (kk, vv) in enumerate(d[2]):
      for c in shrinks(vv)[:12]:
        out.append([k, d[1], d[2][:i] + [[kk, c]] + d[2][i + 1:]])
      if d[1] in UNTYPED and repr(vv) != "['v', 0]":
        out.append([k, d[1], d[2][:i] + [[kk, ['v', 0]]] + d[2][i + 1:]])
    return out
  if k == 'F':
    for i, (kk, vv) in enumerate(d[1]):
      for c in shrinks(vv)[:12]:
        out.append([k, d[1][:i] + [[kk, c]] + d[1][i + 1:]])
    return out
  if k == 'H' and d[1] != 'floatv':
    for i in range(len(d[2])):
      if len(d[2]) > 2:
        out.append([k, d[1], d[2][:i] + d[2][i + 1:]])
    return out
  if k == 'fn':
    shape, dfl, kw = d[1], d[2], d[3]
    for i in range(len(dfl)):
      out.append(['fn', shape, dfl[:i] + dfl[i + 1:], kw])
    for i in range(len(kw)):
      out.append(['fn', shape, dfl, kw[:i] + kw[i + 1:]])
    if shape != 'lambda' and not kw and len(dfl) <= 3:
      out.append(['fn', 'lambda', dfl, kw])
    elif shape == 'nested-varargs':
      out.append(['fn', 'lambda-kwonly', dfl, kw])
    for i, x in enumerate(dfl):
      for c in shrinks(x)[:12]:
        out.append(['fn', shape, dfl[:i] + [c] + dfl[i + 1:], kw])
      if repr(x) != "['v', 0]":
        out.append(['fn', shape, dfl[:i] + [['v', 0]] + dfl[i + 1:], kw])
    for i, (n, x) in enumerate(kw):
      for c in shrinks(x)[:12]:
        out.append(['fn', shape, dfl, kw[:i] + [[n, c]] + kw[i + 1:]])
      if repr(x) != "['v', 0]":
        out.append(['fn', shape, dfl, kw[:i] + [[n, ['v', 0]]] + kw[i + 1:]])
    return out
  if k in ('TD', 'TL'):
    out.append(['spec', d[1]])
    out.append(['v', d[2]])
    # a nested typed container by itself
    if k == 'TL' and d[1]['el']['k'] in ('dict', 'list'):
      for x in d[2]:
        if isinstance(x, dict if d[1]['el']['k'] == 'dict' else list):
          out.append(['TD' if d[1]['el']['k'] == 'dict' else 'TL', d[1]['el'], x])
    if k == 'TD' and d[1].get('fields'):
      for n, fs in d[1]['fields']:
        if fs['k'] in ('dict', 'list'):
          for a, x in d[2].items():
            if (a == n or n == '*') and isinstance(x, dict if fs['k'] == 'dict' else list):
              out.append(['TD' if fs['k'] == 'dict' else 'TL', fs, x])
    for sd in _spec_shrinks(d[1]):
      if sd['k'] == d[1]['k'] and (k == 'TL' or sd.get('fields')):
        out.append([k, sd, d[2]])
    if k == 'TD' and d[1].get('fields'):
      names = [n for n, _ in d[1]['fields'] if n != '*']
      for i, (n, _) in enumerate(d[1]['fields']):
        sd = copy.deepcopy(d[1])
        sd['fields'].pop(i)
        sd.pop('default', None)
        sd.pop('frozen', None)
        if not sd['fields']:
          continue
        v = {a: b for a, b in d[2].items() if (a != n if n != '*' else a in names)}
        out.append(['TD', sd, v])
      for a in d[2]:
        out.append(['TD', d[1], {x: y for x, y in d[2].items() if x != a}])
      for i, (n, fs) in enumerate(d[1]['fields']):
        for c in _spec_shrinks(fs)[:10]:
          sd = copy.deepcopy(d[1])
          sd['fields'][i][1] = c
          out.append(['TD', sd, d[2]])
    if k == 'TL':
      for i in range(len(d[2])):
        out.append(['TL', d[1], d[2][:i] + d[2][i + 1:]])
      for c in _spec_shrinks(d[1]['el'])[:10]:
        sd = copy.deepcopy(d[1])
        sd['el'] = c
        out.append(['TL', sd, d[2]])
    return out
  if k == 'spec':
    out = [['spec', s] for s in _spec_shrinks(d[1])]
    out += [['v', x['default'][1]] for x in _all_specs(d[1]) if 'default' in x]
    return out
  if k == 'field':
    out = [['spec', d[2]]]
    out += [['field', d[1], s, d[3], d[4]] for s in _spec_shrinks(d[2])]
    if d[3] is not None or d[4] is not None:
      out.append(['field', d[1], d[2], None, None])
    return out
  if k == 'schema2':
    out = [['field', n, s, None, None] for n, s in d[1]]
    for i in range(len(d[1])):
      out.append(['schema2', d[1][:i] + d[1][i + 1:], d[2], d[3]])
    if d[2] is not None or d[3] is not None:
      out.append(['schema2', d[1], None, None])
    return out
  if k == 'space':
    return [['space', s] for s in _space_shrinks(d[1])]
  if k == 'dna':
    return [['dna', s, d[2]] for s in _space_shrinks(d[1])]
  if k == 'oeq':
    if d[2:] != [0, None]:
      out.append(['oeq', d[1], 0, None])
    if d[1] != 'always':
      out.append(['oeq', 'always', d[2], d[3]])
    if d[1] == 'raises':
      out.append(['oeq', 'ambiguous', d[2], d[3]])
    return out
  if k == 'kp':
    keys = d[1]
    out += [['kp', keys[:i] + keys[i + 1:]] for i in range(len(keys))]
    out += [['kp', keys[:i] + ['a'] + keys[i + 1:]] for i in range(len(keys)) if keys[i] != 'a']
    return out
  if k == 'dnaspec':
    return [['dnaspec', s] for s in shrinks(d[1]) if has_kind(s, ('H',))]
  return out


def minimise(d, fails, budget=150):
  """Greedy minimisation: the smallest description reachable through
  `shrinks` on which `fails` still holds. `fails` must swallow exceptions."""
  cur, used = d, 0
  progress = True
  while progress and used < budget:
    progress = False
    for c in shrinks(cur):
      if used >= budget:
        break
      if not buildable(c):
        continue
      used += 1
      if fails(c):
        cur, progress = c, True
        break
  return cur


# -- kinds (mechanism keys) --------------------------------------------------------

def str_class(s):
  if s == '__tuple__':
    return 'tuple-marker'
  if s.startswith('n_:'):
    return 'intkey-marker'
  if s == '_type':
    return 'type-marker'
  if s == '':
    return 'empty'
  if any(0xD800 <= ord(c) <= 0xDFFF for c in s):
    return 'surrogate'
  if len(s) > 1000:
    return 'long'
  if '\r' in s:
    return 'carriage-return'
  if any(ord(c) < 32 for c in s):
    return 'control'
  if any(ord(c) > 0xFFFF for c in s):
    return 'astral'
  if any(ord(c) > 126 for c in s):
    return 'unicode'
  if s.isalnum() or s.replace('_', '').isalnum():
    return 'plain'
  return 'punct'


def path_key_class(k):
  """Class of a key of a path / of a search-space dict."""
  if isinstance(k, int):
    return 'neg-int' if k < 0 else 'int'
  if k == '':
    return 'str-empty'
  if k.lstrip('-').isdigit():
    return 'str-int-like'
  if any(ch in k for ch in '.[]'):
    return 'str-delimiters'
  return 'str'


SHOW_MEMBERS = UNTYPED + ['FnBox', 'UeqHolder', 'Bookmark', 'EqAlways', 'EqByField', 'EqNever']


def _prim_kind(v):
  if isinstance(v, str):
    c = str_class(v)
    return 'str' if c == 'plain' else 'str-' + c
  if isinstance(v, float):
    if v != v:
      return 'float-nan'
    if v in (float('inf'), float('-inf')):
      return 'float-inf'
    return 'float'
  if isinstance(v, tuple):
    return 'tuple-empty' if not v else 'tuple'
  return type(v).__name__


def _key_kind(k):
  if isinstance(k, int):
    return 'int'
  c = str_class(k)
  return 'str' if c == 'plain' else c


def _space_kind(sp):
  feats = set()
  def visit(s):
    for e in s['elems']:
      feats.add(e['t'])
      if e['t'] == 'choice':
        if e.get('lits') is not None:
          feats.add('literals')
        for c in e['cands']:
          visit(c)
      if e.get('name'):
        feats.add('named')
  visit(sp)
  return '+'.join(sorted(feats)) or 'empty'


_SYM_CLASS = {'functor-class': 'class', 'builtin-function': 'function', 'generic-alias': 'annotation',
              'function-defaults': 'function', 'staticmethod-defaults': 'function'}


def default_class(d, depth=0):
  """How a default argument is carried in JSON: the kind of a primitive, or
  the sort of typed node (class, function, method, annotation, object, opaque,
  spec, geno, code-function), or a container of such."""
  k = d[0]
  if k == 'v':
    return 'object' if isinstance(d[1], pg.Symbolic) else _prim_kind(d[1])
  if k == 'sym':
    return _SYM_CLASS.get(d[1], d[1].split('-')[0].replace('classmethod', 'method'))
  if k in ('O', 'P', 'F', 'H'):
    return 'object'
  if k in ('leaf', 'oeq'):
    return 'opaque'
  if k == 'kp':
    return 'keypath'
  if k == 'inf':
    return 'object'
  if k in ('spec', 'specx', 'field', 'schema', 'schema2'):
    return 'spec'
  if k in ('space', 'dna', 'dnaspec'):
    return 'geno'
  if k == 'fn':
    return 'code-function'
  name = {'t': 'tuple', 'l': 'list', 'L': 'List', 'd': 'dict', 'D': 'Dict'}[k]
  subs = subdescs(d)
  if not subs:
    return name + '-empty'
  if depth >= 1:
    return name
  return name + '(' + ','.join(sorted({default_class(x, depth + 1) for x in subs})[:2]) + ')'


def kind(d, depth=0):
  """Class of input of a description, from harness facts only."""
  k = d[0]
  if depth == 0 and k != 'inf' and has_kind(d, ('inf',)):
    # what holds the inferential members (whatever else the tree has)
    holders = sorted({'object' if s[0] in ('O', 'P') else kind([s[0], []])[:4]
                      for s in _all(d) if any(x[0] == 'inf' for x in subdescs(s))})
    return 'inferred-member-of(' + ','.join(holders) + ')'
  if k == 'inf':
    return 'inferred-from-parent'
  if k == 'v':
    return _prim_kind(d[1])
  if k == 't':
    if not d[1]:
      return 'tuple-empty'
    inner = sorted({kind(s, depth + 1) for s in d[1]})
    return 'tuple' if depth >= 2 else 'tuple(' + ','.join(inner[:2]) + ')'
  if k in ('D', 'd'):
    name = 'Dict' if k == 'D' else 'dict'
    if not d[1]:
      return name + '-empty'
    keys = sorted({_key_kind(kk) for kk, _ in d[1]})
    inner = sorted({kind(s, depth + 1) for _, s in d[1]})
    if depth >= 2:
      return name
    return f"{name}(key-{'/'.join(keys[:2])}:{','.join(inner[:2])})"
  if k in ('L', 'l'):
    name = 'List' if k == 'L' else 'list'
    if not d[1]:
      return name + '-empty'
    if depth >= 2:
      return name
    first = kind(d[1][0], depth + 1)
    return f'{name}(first-{first})' if len(d[1]) > 1 else f'{name}({first})'
  if k == 'oeq':
    return 'opaque-eq-' + d[1]
  if k == 'kp':
    if not d[1]:
      return 'keypath-root'
    return 'keypath(' + ','.join(sorted({path_key_class(x) for x in d[1]})[:2]) + ')'
  if k == 'dnaspec':
    keys = sorted({path_key_class(kk) for s in _all(d[1]) if s[0] in ('D', 'd')
                   for kk, _ in s[1]})
    return 'dnaspec-of-keys(' + ','.join(keys[:2]) + ')'
  if k in ('O', 'P'):
    name = d[1] + ('.partial' if k == 'P' else '')
    if depth >= 2 or not d[2] or d[1] not in SHOW_MEMBERS:
      return name
    inner = sorted({kind(s, depth + 1) for _, s in d[2]})
    if d[1] == 'Bookmark' and len(inner) > 1:
      # (`where` is required: the root path is what is left of it when it does not matter)
      inner = [x for x in inner if x != 'keypath-root']
    return f"{name}({','.join(inner[:2])})"
  if k == 'fn':
    if depth >= 2:
      return d[1]
    parts = []
    if d[2]:
      parts.append('default:' + ','.join(sorted({default_class(x) for x in d[2]})[:2]))
    if d[3]:
      parts.append('kwdefault:' + ','.join(sorted({default_class(x) for _, x in d[3]})[:2]))
    return d[1] + ('(' + ';'.join(parts) + ')' if parts else '')
  if k == 'F':
    return 'functor-instance'
  if k == 'H':
    return 'hyper-' + d[1]
  if k == 'leaf':
    return 'opaque-leaf'
  if k == 'sym':
    return d[1]
  own = ''.join('+' + f for f in ('none', 'default', 'frozen') if k in ('TD', 'TL') and f in d[1])
  if k == 'TL':
    return 'typed-root-List' + own + '(' + kind(['spec', d[1]['el']])[5:] + ')'
  if k == 'TD':
    feats = sorted({('dynamic' if n == '*' else 'const') +
                    ''.join('+' + f for f in ('none', 'default', 'frozen') if f in fs)
                    for n, fs in (d[1].get('fields') or [])})
    return 'typed-root-Dict' + own + '(' + ','.join(feats) + ')'
  if k == 'spec':
    sd = d[1]
    flags = [f for f in ('none', 'default', 'frozen') if f in sd]
    extra = ''
    if sd['k'] in ('list', 'vtuple'):
      extra = ''.join('+' + b for b in ('min', 'max') if sd.get(b) is not None)
    if sd['k'] in ('int', 'float'):
      extra = ''.join('+' + b for b in ('min', 'max') if sd.get(b) is not None)
    return 'spec-' + sd['k'] + extra + ''.join('+' + f for f in flags)
  if k == 'specx':
    return 'spec-' + d[1]
  if k == 'field':
    return 'field(' + kind(['spec', d[2]]) + ')'
  if k == 'schema':
    return 'class-schema-' + d[1]
  if k == 'schema2':
    return 'schema'
  if k == 'space':
    return 'dnaspec-' + _space_kind(d[1])
  if k == 'dna':
    return 'dna-' + _space_kind(d[1])
  return k


def show(d):
  k = d[0]
  try:
    if k in ('v', 'D', 'd', 'L', 'l', 't', 'O', 'leaf') and all(
        s[0] in ('v', 'D', 'd', 'L', 'l', 't', 'O', 'leaf') for s in _all(d)):
      return D.show(d)
    if k == 'P':
      return '%s.partial(%s)' % (d[1], ', '.join(f'{a}={show(b)}' for a, b in d[2]))
    if k == 'F':
      return 'add_fn(%s)' % ', '.join(f'{a}={show(b)}' for a, b in d[1])
    if k == 'sym':
      return f'<{d[1]}>'
    if k == 'oeq':
      return f'{OPAQUE_EQ[d[1]].__name__}({d[2]!r}, {d[3]!r})'
    if k == 'kp':
      return f'KeyPath({d[1]!r})'
    if k == 'inf':
      return 'ValueFromParentChain()'
    if k == 'dnaspec':
      return f'dna_spec({show(d[1])})'
    if k == 'H':
      if d[1] == 'floatv':
        return f'floatv({d[2]}, {d[3]})'
      return '%s([%s])' % (d[1], ', '.join(show(c) for c in d[2]))
    if k == 'fn':
      return '<%s %s>' % (d[1], ', '.join(
          [show(x) for x in d[2]] + [f'{n}={show(x)}' for n, x in d[3]]))
    if k in ('D', 'd'):
      items = ', '.join(f'{kk!r}: {show(vv)}' for kk, vv in d[1])
      return ('pg.Dict({%s})' if k == 'D' else '{%s}') % items
    if k in ('L', 'l', 't'):
      items = ', '.join(show(vv) for vv in d[1])
      return {'L': 'pg.List([%s])', 'l': '[%s]', 't': '(%s,)'}[k] % items
    if k == 'O':
      return '%s(%s)' % (d[1], ', '.join(f'{kk}={show(vv)}' for kk, vv in d[2]))
    if k in ('TD', 'TL'):
      return f"pg.{'Dict' if k == 'TD' else 'List'}({d[2]!r}, value_spec={SG.show(d[1])})"
    if k == 'spec':
      return 'spec ' + SG.show(d[1])
    if k == 'specx':
      return 'spec ' + repr(EXTRA_SPECS[d[1]]())
    if k == 'field':
      return f'Field({d[1]!r}, {SG.show(d[2])}, {d[3]!r}, {d[4]!r})'
    if k == 'schema2':
      return 'Schema(%s, name=%r, metadata=%r)' % (
          ', '.join(f'{n}: {SG.show(s)}' for n, s in d[1]), d[2], d[3])
    if k == 'space':
      return 'space ' + SP.show(d[1])
    if k == 'dna':
      return f'random_dna(seed={d[2]}) of space ' + SP.show(d[1])
  except Exception:  # pylint: disable=broad-except
    pass
  return repr(d)


def _all(d):
  out = [d]
  for s in subdescs(d):
    out += _all(s)
  return out
