"""Seeded generator of Python signatures and of ways to supply arguments (C18).

A signature is a plain description:
  {'pos': [(name, has_default, default, annotation)], 'varargs': name|None,
   'kwonly': [(name, has_default, default, annotation)], 'varkw': name|None}
rendered as a plain function returning its bound arguments and as a class
whose `__init__` records them.  Names never collide with the keyword options
of the symbolic constructors (allow_partial, sealed, root_path, explicit_init,
override_args, ignore_extra_args).
"""

POS_NAMES = ['a', 'b', 'c', 'd']
KW_NAMES = ['k', 'm', 'n']
UNKNOWN = ['zz', 'yy']
VARARGS_NAMES = ['args', 'rest']
VARKW_NAMES = ['kw', 'kwargs', 'opts']


def make_signature(rng):
  npos = rng.choice([0, 1, 1, 2, 2, 3, 3, 4])
  ndef = rng.randint(0, npos)
  typed = rng.random() < 0.3          # every value supplied will be an int
  pos = []
  for i in range(npos):
    has_default = i >= npos - ndef
    annot = rng.choice([None, 'int']) if typed else rng.choice([None, None, 'Any'])
    default = None
    if has_default:
      if typed or rng.random() < 0.7:
        default = 10 * (i + 1)
      else:
        default = rng.choice([None, 'dflt'])
    pos.append((POS_NAMES[i], has_default, default, annot))
  varargs = rng.choice(VARARGS_NAMES) if rng.random() < 0.4 else None
  kwonly = []
  for i in range(rng.choice([0, 0, 1, 1, 2, 3])):
    has_default = rng.random() < 0.5
    annot = rng.choice([None, 'int']) if typed else None
    default = (100 + i) if has_default else None
    kwonly.append((KW_NAMES[i], has_default, default, annot))
  varkw = rng.choice(VARKW_NAMES) if rng.random() < 0.35 else None
  return {'pos': pos, 'varargs': varargs, 'kwonly': kwonly, 'varkw': varkw,
          'typed': typed}


def render_params(sig):
  parts = []
  def one(p):
    name, has_default, default, annot = p
    s = name
    if annot:
      s += f': {annot}'
    if has_default:
      s += (' = ' if annot else '=') + repr(default)
    return s
  parts += [one(p) for p in sig['pos']]
  if sig['varargs']:
    parts.append('*' + sig['varargs'])
  elif sig['kwonly']:
    parts.append('*')
  parts += [one(p) for p in sig['kwonly']]
  if sig['varkw']:
    parts.append('**' + sig['varkw'])
  return ', '.join(parts)


def render_function(sig, name):
  return (f'def {name}({render_params(sig)}):\n'
          f'  return dict(locals())\n')


def render_class(sig, name):
  params = render_params(sig)
  return (f'class {name}:\n'
          f'  def __init__(self{", " + params if params else ""}):\n'
          f'    got = dict(locals())\n'
          f'    got.pop("self")\n'
          f'    self.got = got\n')


def value(rng, sig, avoid_defaults=False):
  r = rng.random()
  if not avoid_defaults and r < 0.12:
    ds = [p[2] for p in sig['pos'] + sig['kwonly'] if p[1] and
          (not sig['typed'] or isinstance(p[2], int))]
    if ds:
      return rng.choice(ds)        # a value equal to some default
  if sig['typed'] or r < 0.75:
    return rng.randint(1, 9)
  return rng.choice(['s', 't', None, [1, 2], {'x': 1}, (1, 2), 2.5, True])


def names(sig):
  return [p[0] for p in sig['pos']], [p[0] for p in sig['kwonly']]


def make_call(rng, sig, style=None):
  """(positional values, keyword values) for one way of supplying arguments."""
  pos, kwo = names(sig)
  style = style or rng.choice(['valid', 'valid', 'valid', 'random', 'random', 'hostile'])
  if style == 'valid':
    # Every required parameter is supplied once, optional ones now and then.
    npos_given = rng.randint(0, len(pos))
    a = [value(rng, sig) for _ in range(npos_given)]
    k = {}
    for name, has_default, _, _ in sig['pos'][npos_given:]:
      if not has_default or rng.random() < 0.4:
        k[name] = value(rng, sig)
    for name, has_default, _, _ in sig['kwonly']:
      if not has_default or rng.random() < 0.4:
        k[name] = value(rng, sig)
    if sig['varargs'] and npos_given == len(pos) and rng.random() < 0.5:
      a += [value(rng, sig) for _ in range(rng.randint(1, 3))]
    if sig['varkw'] and rng.random() < 0.5:
      for u in rng.sample(UNKNOWN, rng.randint(1, 2)):
        k[u] = value(rng, sig)
    return a, k
  na = rng.randint(0, len(pos) + (3 if style == 'hostile' or sig['varargs'] else 1))
  a = [value(rng, sig) for _ in range(na)]
  pool = pos + kwo + (UNKNOWN if style == 'hostile' or sig['varkw'] else UNKNOWN[:1])
  kn = rng.sample(pool, rng.randint(0, min(4, len(pool))))
  return a, {n: value(rng, sig) for n in kn}


def split_call(rng, a, k):
  """Splits one way of supplying arguments into a construction and a call part."""
  r = rng.random()
  keys = list(k)
  rng.shuffle(keys)
  cut = rng.randint(0, len(keys))
  if r < 0.5:
    # positional prefix (+ some keywords) now, the rest by keyword later
    return (list(a), {n: k[n] for n in keys[:cut]}), ([], {n: k[n] for n in keys[cut:]})
  # keywords now, positional values (+ remaining keywords) later
  return ([], {n: k[n] for n in keys[:cut]}), (list(a), {n: k[n] for n in keys[cut:]})


# -- families of callables that share one code object --------------------------
#
# Defaults, keyword-only defaults and annotations belong to the function
# object, not to its code: the members of a family have the same parameter
# names and kinds (and one code object, or code objects that compare equal) but
# their own defaults / annotations.

FAMILY_METHODS = ['factory', 'recompile', 'compile-once', 'assign', 'functiontype',
                  'remutate']


def make_family(rng, sig, n, method=None):
  """{'method', 'members': [signature, ...]}: n variants of the shape of `sig`."""
  method = method or rng.choice(FAMILY_METHODS)
  fixed = method in ('factory', 'recompile', 'compile-once')
  typed = sig['typed']
  npos = len(sig['pos'])
  base_ndef = rng.randint(1 if npos else 0, npos)
  base_kwdef = [rng.random() < 0.6 for _ in sig['kwonly']]
  base_annot = {p[0]: rng.random() < 0.4 for p in sig['pos'] + sig['kwonly']}
  if method == 'remutate':
    n = 2
  members = []
  for m in range(n):
    ndef = base_ndef if fixed else rng.randint(0, npos)
    def annot(name):
      if fixed:
        if not base_annot[name]:
          return None
        return rng.choice(['int', 'Any']) if typed else 'Any'
      return rng.choice([None, 'int', 'Any']) if typed else rng.choice([None, None, 'Any'])
    pos = []
    for i, p in enumerate(sig['pos']):
      has_default = i >= npos - ndef
      default = None
      if has_default:
        if typed or rng.random() < 0.7:
          default = 100 * (m + 1) + 10 * (i + 1)
        else:
          default = rng.choice([None, 'dflt', 'alt'])
      pos.append((p[0], has_default, default, annot(p[0])))
    kwonly = []
    for i, p in enumerate(sig['kwonly']):
      has_default = base_kwdef[i] if fixed else rng.random() < 0.5
      default = (1000 * (m + 1) + 100 + i) if has_default else None
      kwonly.append((p[0], has_default, default, annot(p[0]) if typed or not fixed else None))
    members.append({'pos': pos, 'varargs': sig['varargs'], 'kwonly': kwonly,
                    'varkw': sig['varkw'], 'typed': typed})
  return {'method': method, 'members': members}


def render_params_indirect(sig, dname, tname):
  """Parameter list whose defaults / annotations are `dname[...]` / `tname[...]`."""
  parts = []
  def one(p):
    name, has_default, _, annot = p
    s = name
    if annot:
      s += f': {tname}[{name!r}]'
    if has_default:
      s += f' = {dname}[{name!r}]'
    return s
  parts += [one(p) for p in sig['pos']]
  if sig['varargs']:
    parts.append('*' + sig['varargs'])
  elif sig['kwonly']:
    parts.append('*')
  parts += [one(p) for p in sig['kwonly']]
  if sig['varkw']:
    parts.append('**' + sig['varkw'])
  return ', '.join(parts)


def _bare(sig):
  strip = lambda ps: [(p[0], False, None, None) for p in ps]
  return dict(sig, pos=strip(sig['pos']), kwonly=strip(sig['kwonly']))


def _member_values(sig, annotations):
  d = {p[0]: p[2] for p in sig['pos'] + sig['kwonly'] if p[1]}
  t = {p[0]: annotations[p[3]] for p in sig['pos'] + sig['kwonly'] if p[3]}
  return d, t


def _assign(fn, sig, annotations):
  """Gives a function object the defaults / annotations of `sig`."""
  d, t = _member_values(sig, annotations)
  pd = tuple(p[2] for p in sig['pos'] if p[1])
  fn.__defaults__ = pd or None
  kd = {p[0]: p[2] for p in sig['kwonly'] if p[1]}
  fn.__kwdefaults__ = kd or None
  fn.__annotations__ = dict(t)
  del d


def build_family(rng, family, uid, module, annotations):
  """Plain callables of a family.

  Returns a list of stages `(signature, f, K, prepare, final)` in the order in
  which they are to be symbolized: `prepare()` is called right before `f` / `K`
  are symbolized; only `final` stages are exercised afterwards (the earlier
  stages of 'remutate' are the same objects with their former defaults).
  `annotations` maps the annotation names ('int', 'Any') to objects.
  """
  import types as _types
  method, members = family['method'], family['members']
  fname, cname = f'fam_{uid}', f'KF_{uid}'
  body_f = '  return dict(locals())\n'
  body_k = ('    got = dict(locals())\n'
            '    got.pop("self")\n'
            '    self.got = got\n')
  def sources(shape, indent=''):
    params = render_params_indirect(shape, 'D', 'T')
    fsrc = f'{indent}def {fname}({params}):\n' + ''.join(
        indent + l + '\n' for l in body_f.splitlines())
    ksrc = (f'{indent}class {cname}:\n'
            f'{indent}  def __init__(self{", " + params if params else ""}):\n'
            + ''.join(indent + l + '\n' for l in body_k.splitlines()))
    return fsrc, ksrc
  def factory(shape):
    fsrc, ksrc = sources(shape, '  ')
    src = (f'def mk_{uid}(D, T):\n{fsrc}{ksrc}  return {fname}, {cname}\n')
    ns = {'__name__': module}
    exec(src, ns)  # pylint: disable=exec-used
    return ns[f'mk_{uid}']

  made = []      # (sig, f, K, prepare)
  noop = lambda: None
  if method == 'factory':
    mk = factory(members[0])
    for s in members:
      f, k = mk(*_member_values(s, annotations))
      made.append((s, f, k, noop))
  elif method in ('recompile', 'compile-once'):
    fsrc, ksrc = sources(members[0])
    code = compile(fsrc + ksrc, '<family>', 'exec')
    for s in members:
      d, t = _member_values(s, annotations)
      ns = {'__name__': module, 'D': d, 'T': t}
      if method == 'recompile':
        exec(fsrc + ksrc, ns)  # pylint: disable=exec-used
      else:
        exec(code, ns)  # pylint: disable=exec-used
      made.append((s, ns[fname], ns[cname], noop))
  elif method in ('assign', 'functiontype'):
    mk = factory(_bare(members[0]))
    f0, k0 = mk({}, {})
    for s in members:
      if method == 'assign':
        f, k = mk({}, {})
      else:
        f = _types.FunctionType(f0.__code__, f0.__globals__, fname)
        init = _types.FunctionType(k0.__init__.__code__, k0.__init__.__globals__, '__init__')
        k = type(cname, (), {'__init__': init})
      _assign(f, s, annotations)
      _assign(k.__init__, s, annotations)
      made.append((s, f, k, noop))
  else:   # remutate: one function object, its defaults change between two uses
    mk = factory(_bare(members[0]))
    f, k = mk({}, {})
    for s in members:
      def prepare(s=s):
        _assign(f, s, annotations)
        _assign(k.__init__, s, annotations)
      made.append((s, f, k, prepare))

  stages = []
  if method == 'remutate':
    for m, (s, f, k, prepare) in enumerate(made):
      stages.append((s, f, k, prepare, m == len(made) - 1))
    names = [(f, k, f'{fname}_0', f'{cname}_0')]
  else:
    order = list(range(len(made)))
    rng.shuffle(order)
    names = []
    for m in order:
      s, f, k, prepare = made[m]
      stages.append((s, f, k, prepare, True))
      names.append((f, k, f'{fname}_{m}', f'{cname}_{m}'))
  # Own names: symbolic classes are registered for deserialization by name.
  for f, k, fn, kn in names:
    f.__name__ = f.__qualname__ = fn
    k.__name__ = k.__qualname__ = kn
    f.__module__ = k.__module__ = module
  return stages


# -- classes whose __init__ builds state conditionally and may raise -----------

BAD_VALUES = (7, 13)
NEUTRAL = 5


def make_init_plan(rng, sig):
  """Statements of a stateful `__init__` for the parameters of `sig`."""
  plan = [('count',)]
  named = sig['pos'] + sig['kwonly']
  for name, has_default, default, annot in named:
    r = rng.random()
    if r < 0.3:
      plan.append(('set', name))
    elif r < 0.55 and not sig['typed']:
      plan.append(('set-if-not-none', name))
    elif r < 0.85:
      plan.append(('set-if-ne', name, default if has_default and default is not None else NEUTRAL))
    else:
      plan.append(('trail', name))
  if sig['varargs']:
    plan.append(('varargs', sig['varargs'], rng.choice(['tuple', 'len'])))
  if sig['varkw']:
    plan.append(('varkw', sig['varkw']))
  rng.shuffle(plan)
  guards = [p[0] for p in named]
  nraise = 0
  if guards:
    for name in rng.sample(guards, min(len(guards), rng.choice([1, 1, 2]))):
      plan.insert(rng.randint(1 if len(plan) > 1 else 0, len(plan)), ('raise', name))
      nraise += 1
  elif sig['varkw']:
    plan.insert(rng.randint(1, len(plan)), ('raise-extra', sig['varkw'], UNKNOWN[0]))
  return plan


def guarded(plan):
  """Names whose value can make the planned `__init__` raise (extras as '**name')."""
  return [p[1] if p[0] == 'raise' else p[2] for p in plan if p[0] in ('raise', 'raise-extra')]


def render_stateful_class(sig, name, plan):
  params = render_params(sig)
  lines = [f'class {name}:', f'  def __init__(self{", " + params if params else ""}):']
  for st in plan:
    op = st[0]
    if op == 'count':
      lines.append("    self.inits = getattr(self, 'inits', 0) + 1")
    elif op == 'set':
      lines.append(f'    self.v_{st[1]} = {st[1]}')
    elif op == 'set-if-not-none':
      lines += [f'    if {st[1]} is not None:', f'      self.v_{st[1]} = {st[1]}']
    elif op == 'set-if-ne':
      lines += [f'    if {st[1]} != {st[2]!r}:', f'      self.v_{st[1]} = {st[1]}']
    elif op == 'trail':
      lines.append(f"    self.trail = getattr(self, 'trail', ()) + (({st[1]!r}, {st[1]}),)")
    elif op == 'varargs':
      if st[2] == 'tuple':
        lines += [f'    if {st[1]}:', f'      self.v_{st[1]} = tuple({st[1]})']
      else:
        lines.append(f'    self.n_{st[1]} = len({st[1]})')
    elif op == 'varkw':
      lines += [f'    for _n, _v in {st[1]}.items():', "      setattr(self, 'opt_' + _n, _v)"]
    elif op == 'raise':
      lines += [f'    if {st[1]} in {BAD_VALUES!r}:',
                f"      raise ValueError('bad value for {st[1]}')"]
    elif op == 'raise-extra':
      lines += [f'    if {st[1]}.get({st[2]!r}) in {BAD_VALUES!r}:',
                f"      raise ValueError('bad value for {st[2]}')"]
  return '\n'.join(lines) + '\n'
