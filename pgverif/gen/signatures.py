"""Seeded generator of Python signatures and of ways to supply arguments (C18).

A signature is a plain description:
  {'pos': [(name, has_default, default, annotation)], 'varargs': name|None,
   'kwonly': [(name, has_default, default, annotation)], 'varkw': name|None}
rendered as a plain function returning its bound arguments and as a class
whose `__init__` records them.  Names never collide with the keyword options
of the symbolic constructors (allow_partial, sealed, root_path, explicit_init,
override_args, ignore_extra_args).
"""

POS_NAMES = ['a', 'b', 'c', 'd']
KW_NAMES = ['k', 'm', 'n']
UNKNOWN = ['zz', 'yy']
VARARGS_NAMES = ['args', 'rest']
VARKW_NAMES = ['kw', 'kwargs', 'opts']


def make_signature(rng):
  npos = rng.choice([0, 1, 1, 2, 2, 3, 3, 4])
  ndef = rng.randint(0, npos)
  typed = rng.random() < 0.3          # every value supplied will be an int
  pos = []
  for i in range(npos):
    has_default = i >= npos - ndef
    annot = rng.choice([None, 'int']) if typed else rng.choice([None, None, 'Any'])
    default = None
    if has_default:
      if typed or rng.random() < 0.7:
        default = 10 * (i + 1)
      else:
        default = rng.choice([None, 'dflt'])
    pos.append((POS_NAMES[i], has_default, default, annot))
  varargs = rng.choice(VARARGS_NAMES) if rng.random() < 0.4 else None
  kwonly = []
  for i in range(rng.choice([0, 0, 1, 1, 2, 3])):
    has_default = rng.random() < 0.5
    annot = rng.choice([None, 'int']) if typed else None
    default = (100 + i) if has_default else None
    kwonly.append((KW_NAMES[i], has_default, default, annot))
  varkw = rng.choice(VARKW_NAMES) if rng.random() < 0.35 else None
  return {'pos': pos, 'varargs': varargs, 'kwonly': kwonly, 'varkw': varkw,
          'typed': typed}


def render_params(sig):
  parts = []
  def one(p):
    name, has_default, default, annot = p
    s = name
    if annot:
      s += f': {annot}'
    if has_default:
      s += (' = ' if annot else '=') + repr(default)
    return s
  parts += [one(p) for p in sig['pos']]
  if sig['varargs']:
    parts.append('*' + sig['varargs'])
  elif sig['kwonly']:
    parts.append('*')
  parts += [one(p) for p in sig['kwonly']]
  if sig['varkw']:
    parts.append('**' + sig['varkw'])
  return ', '.join(parts)


def render_function(sig, name):
  return (f'def {name}({render_params(sig)}):\n'
          f'  return dict(locals())\n')


def render_class(sig, name):
  params = render_params(sig)
  return (f'class {name}:\n'
          f'  def __init__(self{", " + params if params else ""}):\n'
          f'    got = dict(locals())\n'
          f'    got.pop("self")\n'
          f'    self.got = got\n')


def value(rng, sig, avoid_defaults=False):
  r = rng.random()
  if not avoid_defaults and r < 0.12:
    ds = [p[2] for p in sig['pos'] + sig['kwonly'] if p[1] and
          (not sig['typed'] or isinstance(p[2], int))]
    if ds:
      return rng.choice(ds)        # a value equal to some default
  if sig['typed'] or r < 0.75:
    return rng.randint(1, 9)
  return rng.choice(['s', 't', None, [1, 2], {'x': 1}, (1, 2), 2.5, True])


def names(sig):
  return [p[0] for p in sig['pos']], [p[0] for p in sig['kwonly']]


def make_call(rng, sig, style=None):
  """(positional values, keyword values) for one way of supplying arguments."""
  pos, kwo = names(sig)
  style = style or rng.choice(['valid', 'valid', 'valid', 'random', 'random', 'hostile'])
  if style == 'valid':
    # Every required parameter is supplied once, optional ones now and then.
    npos_given = rng.randint(0, len(pos))
    a = [value(rng, sig) for _ in range(npos_given)]
    k = {}
    for name, has_default, _, _ in sig['pos'][npos_given:]:
      if not has_default or rng.random() < 0.4:
        k[name] = value(rng, sig)
    for name, has_default, _, _ in sig['kwonly']:
      if not has_default or rng.random() < 0.4:
        k[name] = value(rng, sig)
    if sig['varargs'] and npos_given == len(pos) and rng.random() < 0.5:
      a += [value(rng, sig) for _ in range(rng.randint(1, 3))]
    if sig['varkw'] and rng.random() < 0.5:
      for u in rng.sample(UNKNOWN, rng.randint(1, 2)):
        k[u] = value(rng, sig)
    return a, k
  na = rng.randint(0, len(pos) + (3 if style == 'hostile' or sig['varargs'] else 1))
  a = [value(rng, sig) for _ in range(na)]
  pool = pos + kwo + (UNKNOWN if style == 'hostile' or sig['varkw'] else UNKNOWN[:1])
  kn = rng.sample(pool, rng.randint(0, min(4, len(pool))))
  return a, {n: value(rng, sig) for n in kn}


def split_call(rng, a, k):
  """Splits one way of supplying arguments into a construction and a call part."""
  r = rng.random()
  keys = list(k)
  rng.shuffle(keys)
  cut = rng.randint(0, len(keys))
  if r < 0.5:
    # positional prefix (+ some keywords) now, the rest by keyword later
    return (list(a), {n: k[n] for n in keys[:cut]}), ([], {n: k[n] for n in keys[cut:]})
  # keywords now, positional values (+ remaining keywords) later
  return ([], {n: k[n] for n in keys[:cut]}), (list(a), {n: k[n] for n in keys[cut:]})
