"""Search-space descriptions (C11-C14).

One JSON-able description (grammar in `monitors/genoref.py`) is the single
source from which BOTH the real `pg.geno` spec (`build`) and the independent
reference (`genoref`) are derived.  `exhaustive()` lists every description of a
bounded family, `random_space()` draws larger ones.
"""
import itertools

import pyglove as pg

g = pg.geno

CONST = {'t': 'space', 'elems': []}


# --------------------------------------------------------------------------
# Constructors of descriptions.
# --------------------------------------------------------------------------

def space(*elems):
  return {'t': 'space', 'elems': list(elems)}


def choice(k, cands, distinct=True, sorted=False, loc='', name=None, lits=None):  # pylint: disable=redefined-builtin
  return {'t': 'choice', 'k': k, 'cands': list(cands), 'distinct': distinct,
          'sorted': sorted, 'loc': loc, 'name': name, 'lits': lits}


def floatv(lo, hi, loc='', name=None):
  return {'t': 'float', 'lo': float(lo), 'hi': float(hi), 'loc': loc, 'name': name}


def custom(loc='', name=None):
  return {'t': 'custom', 'loc': loc, 'name': name}


def consts(n):
  return [CONST] * n


# --------------------------------------------------------------------------
# Description -> real spec.
# --------------------------------------------------------------------------

def _custom_random(r, previous_dna=None):
  del previous_dna
  return pg.DNA('g%d' % r.randint(0, 99))


def build(desc):
  """Builds the `pg.geno` spec of a description (fresh objects every call)."""
  if desc['t'] == 'space':
    return g.Space([build(e) for e in desc['elems']])
  loc = pg.KeyPath.parse(desc['loc']) if desc['loc'] else pg.KeyPath()
  if desc['t'] == 'float':
    return g.floatv(desc['lo'], desc['hi'], location=loc, name=desc['name'])
  if desc['t'] == 'custom':
    return g.custom(hyper_type='Gen', random_dna_fn=_custom_random,
                    location=loc, name=desc['name'])
  cands = [build(c) for c in desc['cands']]
  lits = list(desc['lits']) if desc['lits'] is not None else None
  if desc['k'] == 1:
    return g.oneof(cands, literal_values=lits, location=loc, name=desc['name'])
  return g.manyof(desc['k'], cands, distinct=desc['distinct'],
                  sorted=desc['sorted'], literal_values=lits, location=loc,
                  name=desc['name'])


def show(desc):
  """Short one-line rendering for samples and witnesses."""
  if desc['t'] == 'space':
    return '{' + ', '.join(show(e) for e in desc['elems']) + '}'
  head = (desc['loc'] or '_') + ('@' + desc['name'] if desc.get('name') else '')
  if desc['t'] == 'float':
    return f"{head}:float({desc['lo']},{desc['hi']})"
  if desc['t'] == 'custom':
    return f'{head}:custom'
  flags = ('d' if desc['distinct'] else '') + ('s' if desc['sorted'] else '')
  cands = ','.join('-' if not c['elems'] else show(c) for c in desc['cands'])
  lit = '' if desc['lits'] is None else ' lits=' + repr(desc['lits'])
  return f"{head}:{desc['k']}of{len(desc['cands'])}{flags}({cands}){lit}"


def relocate(desc, counter=None):
  """Returns a copy in which every decision point has a unique location."""
  counter = counter if counter is not None else itertools.count()
  if desc['t'] == 'space':
    return {'t': 'space', 'elems': [relocate(e, counter) for e in desc['elems']]}
  d = dict(desc)
  d['loc'] = 'p%d' % next(counter)
  if d['t'] == 'choice':
    d['cands'] = [relocate(c, counter) for c in d['cands']]
  return d


# --------------------------------------------------------------------------
# Exhaustive family.
# --------------------------------------------------------------------------

MODES = [(True, False), (True, True), (False, False), (False, True)]


def _shapes(max_k, max_n):
  """(k, n, distinct, sorted) of every admissible choice with constants."""
  out = []
  for n in range(1, max_n + 1):
    out.append((1, n, True, False))
  for k in range(2, max_k + 1):
    for n in range(1, max_n + 1):
      for distinct, srt in MODES:
        if distinct and k > n:
          continue
        out.append((k, n, distinct, srt))
  return out


def _sub_spaces():
  """Representative sub-spaces used as conditional candidates."""
  one2 = lambda: choice(1, consts(2))
  return [
      CONST,
      space(one2()),                                       # one decision
      space(choice(2, consts(2), True, False)),            # permutation
      space(one2(), one2()),                               # two decisions
      space(choice(1, [CONST, space(one2())])),            # nesting depth 2
      space(choice(2, consts(3), False, True)),            # sorted multiset
  ]


def exhaustive(max_dnas):
  """All descriptions of the bounded family, in a fixed order.

  Family: spaces of <= 2 elements; each a choice of k <= 3 picks among
  n <= 4 constant candidates in every distinct/sorted mode (flat part), and
  single- or two-element spaces whose first element is a choice with k <= 3,
  n <= 3 and every assignment of candidates from 6 representative sub-spaces
  (conditional part, nesting depth <= 2).  Descriptions whose reference size
  exceeds `max_dnas` are left out.
  """
  from pgverif.monitors import genoref   # pylint: disable=g-import-not-at-top
  out = []
  shapes = _shapes(3, 4)
  elems = [choice(k, consts(n), d, s) for k, n, d, s in shapes]
  for e in elems:
    out.append(space(e))
  for a in elems:
    for b in elems:
      out.append(space(a, b))
  subs = _sub_spaces()
  for k, n, d, s in _shapes(3, 3):
    for cands in itertools.product(range(len(subs)), repeat=n):
      if not any(cands):
        continue                      # all-constant: in the flat part
      e = choice(k, [subs[c] for c in cands], d, s)
      out.append(space(e))
      if n <= 2:
        out.append(space(e, choice(1, consts(2))))
        out.append(space(choice(2, consts(2), False, False), e))
  res = []
  for d in out:
    sz = genoref.size(d)
    if sz is not None and sz <= max_dnas:
      res.append(relocate(d))
  return res


# --------------------------------------------------------------------------
# Random descriptions.
# --------------------------------------------------------------------------

LITERAL_POOLS = [
    lambda n: ['v%d' % i for i in range(n)],
    lambda n: [10 + 3 * i for i in range(n)],                 # ints
    lambda n: [0.5 + i for i in range(n)],                    # floats
    lambda n: ['x y', 'a/b', '(1)', 'é', "q'", 'z"'][:n],     # odd strings
    lambda n: ['s0', 7, 2.5, 's3', 11, 's5'][:n],             # mixed
]


def random_space(rng, max_depth=2, max_elems=3, max_k=3, max_n=4,
                 floats=0.15, customs=0.05, names=0.0, lits=0.0, depth=0,
                 state=None, min_elems=1):
  """Random description with unique locations (and optional names/literals)."""
  state = state if state is not None else {'loc': itertools.count(),
                                           'name': itertools.count()}
  elems = []
  lo = min_elems if depth == 0 else 1
  for _ in range(rng.randint(lo, max_elems if depth == 0 else 2)):
    loc = _rand_loc(rng, next(state['loc']))
    name = ('n%d' % next(state['name'])) if rng.random() < names else None
    r = rng.random()
    if r < floats:
      lo_v = rng.choice([0.0, -1.0, 0.5, 1e-3])
      hi_v = lo_v + rng.choice([0.0, 1.0, 2.5])
      elems.append(floatv(lo_v, hi_v, loc, name))
      continue
    if r < floats + customs:
      elems.append(custom(loc, name))
      continue
    n = rng.randint(1, max_n)
    k = rng.choice([1, 1, 2, 2, 3][:max(1, min(5, 2 * max_k - 1))])
    distinct, srt = rng.choice(MODES)
    if k == 1:
      distinct, srt = True, False
    if distinct and k > n:
      k = n
      if k == 1:
        distinct, srt = True, False
    cands = []
    for _ in range(n):
      if depth < max_depth and rng.random() < 0.3:
        cands.append(random_space(rng, max_depth, max_elems, max_k, max_n,
                                  floats, customs, names, lits, depth + 1,
                                  state))
      else:
        cands.append(CONST)
    lit = None
    if rng.random() < lits:
      lit = rng.choice(LITERAL_POOLS)(n)
    elems.append(choice(k, cands, distinct, srt, loc, name, lit))
  return space(*elems)


def _rand_loc(rng, i):
  r = rng.random()
  if r < 0.7:
    return 'p%d' % i
  if r < 0.85:
    return 'q%d.r' % i
  return 'l%d[%d]' % (i, rng.randint(0, 2))


def has_kind(desc, t):
  if desc['t'] == 'space':
    return any(has_kind(e, t) for e in desc['elems'])
  if desc['t'] == t:
    return True
  return desc['t'] == 'choice' and any(has_kind(c, t) for c in desc['cands'])


def count_points(desc):
  if desc['t'] == 'space':
    return sum(count_points(e) for e in desc['elems'])
  if desc['t'] != 'choice':
    return 1
  return desc['k'] * (1 + sum(count_points(c) for c in desc['cands']))


# --------------------------------------------------------------------------
# Description -> real spec, built from library objects that were used before.
# --------------------------------------------------------------------------

REUSE_ORDERS = ['same', 'reverse', 'rotate', 'shuffle', 'prefix', 'prefix2', 'suffix']
REUSE_COPIES = ['object', 'object', 'clone', 'clone-deep', 'from_json', 'deepcopy', 'copy']


def _reuse_copy(obj, how):
  import copy as _copy   # pylint: disable=g-import-not-at-top
  if how == 'object':
    return obj
  if how == 'clone':
    return obj.clone()
  if how == 'clone-deep':
    return obj.clone(deep=True)
  if how == 'deepcopy':
    return _copy.deepcopy(obj)
  if how == 'copy':
    return _copy.copy(obj)
  if how == 'from_json':
    return pg.from_json(obj.to_json())
  raise AssertionError(how)


def _has_custom_point(obj):
  return any(dp.is_custom_decision_point for dp in obj.decision_points)


def build_reusing(desc, rng, stats=None, share=0.6):
  """Builds the spec of `desc` the way user code shares building blocks.

  Same result as `build(desc)` by the documentation, but the candidate
  sub-spaces of a choice / the elements of a space are, with probability
  `share` per container, library objects that already belonged to another
  ("donor") spec at OTHER positions: the donor is a one-of / many-of / space
  built from the same objects in another order or behind extra constants; the
  objects are then taken back from the donor (`donor.candidates[i]`,
  `donor.subchoice(j).candidates[i]`, `donor.elements[i]`), as they are or as
  a clone / deep copy / JSON copy, after the donor's ids were read, and passed
  to the real constructor in the order of the description.  `stats` (a dict)
  counts what was done."""
  stats = stats if stats is not None else {}

  def count(k):
    stats[k] = stats.get(k, 0) + 1

  def reorder(objs):
    n = len(objs)
    order = rng.choice(REUSE_ORDERS)
    idx = list(range(n))
    extra_front, extra_back = 0, 0
    if order == 'reverse':
      idx.reverse()
    elif order == 'rotate' and n:
      r = rng.randrange(n)
      idx = idx[r:] + idx[:r]
    elif order == 'shuffle':
      rng.shuffle(idx)
    elif order == 'prefix':
      extra_front = 1
    elif order == 'prefix2':
      extra_front = 2
    elif order == 'suffix':
      extra_back = 1
    # donor position of object i
    pos = {i: extra_front + p for p, i in enumerate(idx)}
    moved = sum(1 for i in range(n) if pos[i] != i)
    return order, idx, extra_front, extra_back, pos, moved

  def reuse(objs, container, k=1):
    if not objs or rng.random() >= share:
      count('reuse:none[%s]' % container)
      return objs
    order, idx, ef, eb, pos, moved = reorder(objs)
    if container == 'choice':
      extra = lambda j: g.constant()
    else:
      extra = lambda j: g.oneof([g.constant(), g.constant()],
                                location=pg.KeyPath.parse('extra%d' % j))
    seq = ([extra(j) for j in range(ef)] + [objs[i] for i in idx]
           + [extra(2 + j) for j in range(eb)])
    # (a JSON copy of a custom decision point drops its functions, as documented)
    json_ok = not any(_has_custom_point(o) for o in objs)
    if container == 'choice':
      kind = rng.choice(['oneof', 'oneof', 'manyof', 'manyof-subchoice', 'json'])
      if kind == 'json' and not json_ok:
        kind = 'oneof'
      if kind in ('oneof', 'json'):
        donor = g.oneof(seq, location=pg.KeyPath.parse('donor'))
      else:
        donor = g.manyof(2, seq, distinct=False, location=pg.KeyPath.parse('donor'))
      if rng.random() < 0.5:
        _ = [str(dp.id) for dp in donor.decision_points]      # fills the id caches
        count('reuse:donor-ids-read')
      if kind == 'json':
        donor = pg.from_json(donor.to_json())
      src = donor.subchoice(1).candidates if kind == 'manyof-subchoice' else donor.candidates
      got = [src[pos[i]] for i in range(len(objs))]
    else:
      kind = rng.choice(['space', 'space', 'candidate-space'])
      if kind == 'space':
        donor = g.Space(seq)
        src = donor.elements
      else:
        donor = g.oneof([g.constant(), g.Space(seq)])
        src = donor.candidates[1].elements
      if rng.random() < 0.5:
        _ = [str(dp.id) for dp in donor.decision_points]
        count('reuse:donor-ids-read')
      got = [src[pos[i]] for i in range(len(objs))]
    out = []
    for o in got:
      how = rng.choice(REUSE_COPIES)
      if how == 'from_json' and not json_ok:
        how = 'clone-deep'
      count('reuse:copy=' + how)
      out.append(_reuse_copy(o, how))
    count('reuse:%s[%s]' % (kind, container))
    count('reuse:order=' + order)
    if moved:
      count('reused_at_other_position')
      stats['objects_reused_at_other_position'] = (
          stats.get('objects_reused_at_other_position', 0) + moved)
    return out

  def b(d):
    if d['t'] == 'space':
      elems = reuse([b(e) for e in d['elems']], 'space')
      return g.Space(elems)
    loc = pg.KeyPath.parse(d['loc']) if d['loc'] else pg.KeyPath()
    if d['t'] == 'float':
      return g.floatv(d['lo'], d['hi'], location=loc, name=d['name'])
    if d['t'] == 'custom':
      return g.custom(hyper_type='Gen', random_dna_fn=_custom_random,
                      location=loc, name=d['name'])
    cands = reuse([b(c) for c in d['cands']], 'choice', d['k'])
    lits = list(d['lits']) if d['lits'] is not None else None
    if d['k'] == 1:
      return g.oneof(cands, literal_values=lits, location=loc, name=d['name'])
    return g.manyof(d['k'], cands, distinct=d['distinct'], sorted=d['sorted'],
                    literal_values=lits, location=loc, name=d['name'])

  spec = b(desc)
  if rng.random() < 0.3:
    # the whole spec taken out of a donor as well
    donor = g.oneof([g.constant(), g.constant(), spec])
    spec = _reuse_copy(donor.candidates[2], rng.choice(
        ['clone', 'clone-deep', 'clone-deep' if _has_custom_point(spec) else 'from_json']))
    count('reuse:root-from-candidate')
  return spec
