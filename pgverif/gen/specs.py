"""Value-spec descriptions, same-family variants and parameter-derived values (C04).

A spec *description* is a JSON-able dict from which a fresh `pg.typing` value
spec is built (specs are mutable: `noneable()`, `extend()`, `freeze()` change
them in place, so every use builds its own instance):

  {'k': 'int'|'float', 'min': n|None, 'max': n|None}
  {'k': 'bool'} {'k': 'str', 'regex': s|None} {'k': 'any'}
  {'k': 'enum', 'values': [...]}
  {'k': 'list', 'el': desc, 'min': n|None, 'max': n|None}
  {'k': 'tuple', 'els': [desc...]}                        fixed length
  {'k': 'vtuple', 'el': desc, 'min': n|None, 'max': n|None}
  {'k': 'dict', 'fields': [[key, desc]...]|None}         key '*' = StrKey()
  {'k': 'object', 'cls': name of a pgverif.models class}
  {'k': 'union', 'cands': [desc...]}
plus the common flags 'none' (noneable), 'default' (['v', plain value], absent
= no default) and 'frozen', and for List/Tuple/Dict/Object/Any the optional
'tf' = name of a harness-defined user transform (`TRANSFORMS`; every one is
idempotent and records in `TF_EVENTS` whether it changed or refused its input).

`candidates(rng, specs)` derives values from the *public parameters* of live
specs: every bound and bound +-1, every size bound +-1, every enum member and a
non-member, defaults, None, values of every other type, partial dicts, dicts
with an undeclared key. Whether a value is accepted is always decided by the
real `apply` (see `accepts`); the generator's opinion only steers coverage.

`why_rejected(spec, v)` is the harness's own reference validator over public
parameters; it names *which parameter* rejects a value and is used only to
derive mechanism keys, never a verdict.
"""
import copy

import pyglove as pg
from pgverif import models as M

T = pg.typing
MISSING = pg.MISSING_VALUE

PRIM_KINDS = ['int', 'float', 'str', 'bool', 'enum']
ALL_KINDS = PRIM_KINDS + ['list', 'tuple', 'vtuple', 'dict', 'object', 'union', 'any']
OBJECT_CLASSES = ['Inner', 'Typed', 'TypedSub', 'Any2']
INT_BOUNDS = [None, None, -2, 0, 1, 3, 5, 10]
FLOAT_BOUNDS = [None, None, -1.0, 0.0, 0.5, 2.0, 3]
SIZE_BOUNDS = [None, None, 0, 1, 2, 3]
ENUM_POOL = [1, 2, 3, 'a', 'b', 'c', None, 3.5]
DICT_KEYS = ['a', 'b', 'c']
APPLY_ERRORS = (TypeError, ValueError, KeyError)


# -- generation of descriptions ----------------------------------------------

def _ordered(lo, hi):
  if lo is not None and hi is not None and lo > hi:
    return hi, lo
  return lo, hi


def gen_core(rng, depth=0, max_depth=3, kinds=None, regex=False):
  """A description without flags."""
  if kinds is None:
    kinds = ALL_KINDS if depth < max_depth else PRIM_KINDS + ['any', 'object']
    if depth > 0 and rng.random() < 0.45:
      kinds = PRIM_KINDS
  k = rng.choice(kinds)
  sub = lambda: gen_spec(rng, depth + 1, max_depth)
  if k == 'int':
    lo, hi = _ordered(rng.choice(INT_BOUNDS), rng.choice(INT_BOUNDS))
    return {'k': 'int', 'min': lo, 'max': hi}
  if k == 'float':
    lo, hi = _ordered(rng.choice(FLOAT_BOUNDS), rng.choice(FLOAT_BOUNDS))
    return {'k': 'float', 'min': lo, 'max': hi}
  if k == 'str':
    return {'k': 'str', 'regex': rng.choice(['a.*', '[ab]+']) if regex and rng.random() < 0.3 else None}
  if k == 'bool':
    return {'k': 'bool'}
  if k == 'any':
    return {'k': 'any'}
  if k == 'enum':
    pool = ENUM_POOL if rng.random() < 0.5 else rng.choice([[1, 2, 3], ['a', 'b', 'c']])
    n = rng.randint(1, min(4, len(pool)))
    return {'k': 'enum', 'values': rng.sample(pool, n)}
  if k in ('list', 'vtuple'):
    lo, hi = _ordered(rng.choice(SIZE_BOUNDS), rng.choice(SIZE_BOUNDS))
    return {'k': k, 'el': sub(), 'min': lo, 'max': hi}
  if k == 'tuple':
    return {'k': 'tuple', 'els': [sub() for _ in range(rng.randint(1, 3))]}
  if k == 'dict':
    r = rng.random()
    if r < 0.15:
      return {'k': 'dict', 'fields': None}
    if r < 0.3:
      return {'k': 'dict', 'fields': [['*', sub()]]}
    fields = [[n, sub()] for n in sorted(rng.sample(DICT_KEYS, rng.randint(1, 2)))]
    if rng.random() < 0.25:
      fields.append(['*', sub()])
    return {'k': 'dict', 'fields': fields}
  if k == 'object':
    return {'k': 'object', 'cls': rng.choice(OBJECT_CLASSES)}
  if k == 'union':
    cands, seen = [], set()
    for _ in range(rng.randint(2, 4)):
      c = gen_spec(rng, depth + 1, max_depth,
                   kinds=[x for x in (PRIM_KINDS + ['list', 'dict', 'object', 'vtuple'])
                          if depth + 1 < max_depth or x in PRIM_KINDS + ['object']])
      t = _union_type(c)
      if t in seen or t is None:
        continue
      seen.add(t)
      cands.append(c)
    if len(cands) < 2:
      return gen_core(rng, depth, max_depth, PRIM_KINDS)
    return {'k': 'union', 'cands': cands}
  raise ValueError(k)


def _union_type(d):
  """Union rejects two candidates of the same (class, value type)."""
  k = d['k']
  if k == 'enum':
    ts = {type(v) for v in d['values'] if v is not None}
    return ('enum', ts.pop() if len(ts) == 1 else None)
  if k == 'object':
    return ('object', d['cls'])
  if k in ('tuple', 'vtuple'):
    return ('tuple',)
  return (k,)


def gen_spec(rng, depth=0, max_depth=3, kinds=None, regex=False):
  """A full description: core + noneable/default/frozen flags (all buildable)."""
  for _ in range(20):
    d = gen_core(rng, depth, max_depth, kinds, regex)
    add_flags(rng, d)
    try:
      build(d)
      return d
    except Exception:  # pylint: disable=broad-except
      continue
  return {'k': 'int', 'min': None, 'max': None}


def add_flags(rng, d):
  """Randomises noneable/default/frozen of a core description in place."""
  for f in ('none', 'default', 'frozen'):
    d.pop(f, None)
  if d['k'] != 'any' and rng.random() < 0.2:
    d['none'] = True
  if rng.random() < 0.3 and d['k'] != 'object':
    try:
      s = build(d)
    except Exception:  # pylint: disable=broad-except
      return d
    ok = [v for v in own_values(rng, s, 0)
          if v is not None and _plain(v) and accepts(s, v)[0]]
    if ok:
      d['default'] = ['v', copy.deepcopy(rng.choice(ok))]
      if rng.random() < 0.35:
        d['frozen'] = True
  return d


def _plain(v):
  """JSON-able-ish (printable, deep-copyable) default values only."""
  if isinstance(v, (bool, int, float, str)) or v is None:
    return v == v
  if isinstance(v, (list, tuple)):
    return all(_plain(x) for x in v)
  if isinstance(v, dict):
    return all(isinstance(k, str) and _plain(x) for k, x in v.items())
  return False


def variant(rng, d, depth=0):
  """A same-family perturbation of `d`: ranges that nest/overlap/touch, sizes
  likewise, enum subsets/supersets, flag flips, one nested spec varied."""
  d = copy.deepcopy(d)
  k = d['k']
  r = rng.random()
  # A union and one of its candidates (or a spec and a union around it) are
  # the same family, too.
  if k == 'union' and depth == 0 and rng.random() < 0.15:
    return variant(rng, rng.choice(d['cands']), depth) if rng.random() < 0.5 else (
        copy.deepcopy(rng.choice(d['cands'])))
  if k in ('int', 'float', 'str', 'bool') and depth == 0 and rng.random() < 0.1:
    # A frozen (and possibly noneable) primitive next to an Enum that contains
    # its frozen value: Enum.is_compatible and extend() have special rules for
    # frozen specs, so this pair is a family of its own.
    try:
      ok = [v for v in own_values(rng, build(d), 0)
            if v is not None and _plain(v) and accepts(build(d), v)[0]]
    except Exception:  # pylint: disable=broad-except
      ok = []
    if ok:
      v = copy.deepcopy(rng.choice(ok))
      if rng.random() < 0.5:
        fz = dict(d, default=['v', v], frozen=True)
        if rng.random() < 0.6:
          fz['none'] = True
        else:
          fz.pop('none', None)
        cand = fz
      else:
        others = [x for x in ok if x != v][:2] + ['zz']
        cand = {'k': 'enum', 'values': [v, others[0]], 'default': ['v', v]}
      try:
        build(cand)
        return cand
      except Exception:  # pylint: disable=broad-except
        pass
  if k in PRIM_KINDS and depth == 0 and rng.random() < 0.1:
    other = gen_spec(rng, 1, 2, [x for x in PRIM_KINDS if x != k])
    if _union_type(d) is not None and _union_type(other) not in (None, _union_type(d)):
      u = {'k': 'union', 'cands': [d, other] if rng.random() < 0.5 else [other, d]}
      try:
        build(u)
        return u
      except Exception:  # pylint: disable=broad-except
        pass
  if k in ('int', 'float'):
    step = 1 if k == 'int' else rng.choice([0.5, 1, 1.0])
    for b in ('min', 'max'):
      q = rng.random()
      if q < 0.3:
        d[b] = None if d[b] is not None and rng.random() < 0.4 else (
            rng.choice(INT_BOUNDS if k == 'int' else FLOAT_BOUNDS))
      elif q < 0.6 and d[b] is not None:
        d[b] = d[b] + rng.choice([-2, -1, 1, 2]) * step
    d['min'], d['max'] = _ordered(d['min'], d['max'])
    if k == 'int' and r < 0.08:
      d['k'] = 'float'
  elif k == 'enum':
    pool = [v for v in ENUM_POOL if v not in d['values']]
    vals = list(d['values'])
    q = rng.random()
    if q < 0.4 and len(vals) > 1:
      vals.remove(rng.choice(vals))
    elif q < 0.8 and pool:
      vals.insert(rng.randint(0, len(vals)), rng.choice(pool))
    else:
      rng.shuffle(vals)
    d['values'] = vals
  elif k in ('list', 'vtuple'):
    q = rng.random()
    if q < 0.6:
      for b in ('min', 'max'):
        if rng.random() < 0.5:
          d[b] = rng.choice(SIZE_BOUNDS)
        elif d[b] is not None:
          d[b] = max(0, d[b] + rng.choice([-1, 1]))
      d['min'], d['max'] = _ordered(d['min'], d['max'])
    if q > 0.4:
      d['el'] = variant(rng, d['el'], depth + 1)
    if k == 'vtuple' and rng.random() < 0.15:
      n = rng.choice([x for x in (d['min'], d['max'], 1, 2) if x is not None])
      d = {'k': 'tuple', 'els': [copy.deepcopy(d['el']) for _ in range(max(1, n))]}
  elif k == 'tuple':
    q = rng.random()
    if q < 0.15:
      d = {'k': 'vtuple', 'el': copy.deepcopy(rng.choice(d['els'])),
           'min': rng.choice([None, 0, len(d['els'])]),
           'max': rng.choice([None, len(d['els']), len(d['els']) + 1])}
      d['min'], d['max'] = _ordered(d['min'], d['max'])
    elif q < 0.3:
      if len(d['els']) > 1 and rng.random() < 0.5:
        d['els'].pop()
      else:
        d['els'].append(copy.deepcopy(rng.choice(d['els'])))
    else:
      i = rng.randrange(len(d['els']))
      d['els'][i] = variant(rng, d['els'][i], depth + 1)
  elif k == 'dict':
    fields = d['fields']
    q = rng.random()
    if fields is None:
      if q < 0.5:
        d['fields'] = [['a', gen_spec(rng, depth + 1, 2, PRIM_KINDS)]]
    elif q < 0.15:
      d['fields'] = None
    elif q < 0.3 and len(fields) > 1:
      fields.pop(rng.randrange(len(fields)))
    elif q < 0.45:
      free = [n for n in DICT_KEYS + ['*'] if n not in [f[0] for f in fields]]
      if free:
        n = rng.choice(free)
        fields.append([n, gen_spec(rng, depth + 1, 2, PRIM_KINDS)])
        d['fields'] = ([f for f in fields if f[0] != '*'] +
                       [f for f in fields if f[0] == '*'])
    elif fields:
      i = rng.randrange(len(fields))
      fields[i][1] = variant(rng, fields[i][1], depth + 1)
  elif k == 'object':
    d['cls'] = rng.choice(OBJECT_CLASSES)
  elif k == 'union':
    q = rng.random()
    cands = d['cands']
    if q < 0.5:
      i = rng.randrange(len(cands))
      c = variant(rng, cands[i], depth + 1)
      others = {_union_type(x) for j, x in enumerate(cands) if j != i}
      if _union_type(c) not in others and _union_type(c) is not None:
        cands[i] = c
    elif q < 0.7 and len(cands) > 2:
      cands.pop(rng.randrange(len(cands)))
    elif q < 0.85:
      c = gen_spec(rng, depth + 1, 2, PRIM_KINDS)
      if _union_type(c) not in {_union_type(x) for x in cands} and _union_type(c):
        cands.append(c)
    else:
      rng.shuffle(cands)
  # flags
  q = rng.random()
  if q < 0.25:
    if d.get('none'):
      d.pop('none')
    elif d['k'] != 'any':
      d['none'] = True
  if q > 0.6 or 'default' in d:
    keep = d.get('default') if rng.random() < 0.5 else None
    was_frozen = d.get('frozen')
    add_flags_keep_none(rng, d, keep, was_frozen)
  try:
    build(d)
  except Exception:  # pylint: disable=broad-except
    d.pop('default', None)
    d.pop('frozen', None)
    try:
      build(d)
    except Exception:  # pylint: disable=broad-except
      return gen_spec(rng, depth, 2)
  return d


def add_flags_keep_none(rng, d, keep_default, was_frozen):
  none = d.get('none')
  add_flags(rng, d)
  d.pop('none', None)
  if none:
    d['none'] = True
  if keep_default is not None:
    d['default'] = keep_default
    if was_frozen and rng.random() < 0.7:
      d['frozen'] = True
    elif not d.get('frozen') and rng.random() < 0.2:
      d['frozen'] = True
  return d


# -- building -------------------------------------------------------------------

def build(d):
  """A fresh value spec for the description."""
  k = d['k']
  kw = {}
  if 'default' in d:
    kw['default'] = copy.deepcopy(d['default'][1])
  if d.get('tf') and k in TF_KINDS:
    kw['transform'] = TRANSFORMS[d['tf']]
  if k == 'int':
    s = T.Int(min_value=d['min'], max_value=d['max'], **kw)
  elif k == 'float':
    s = T.Float(min_value=d['min'], max_value=d['max'], **kw)
  elif k == 'str':
    s = T.Str(regex=d.get('regex'), **kw)
  elif k == 'bool':
    s = T.Bool(**kw)
  elif k == 'any':
    s = T.Any(**kw)
  elif k == 'enum':
    s = T.Enum(kw.get('default', MISSING), list(d['values']))
  elif k == 'list':
    s = T.List(build(d['el']), min_size=d['min'], max_size=d['max'], **kw)
  elif k == 'vtuple':
    s = T.Tuple(build(d['el']), min_size=d['min'], max_size=d['max'], **kw)
  elif k == 'tuple':
    s = T.Tuple([build(e) for e in d['els']], **kw)
  elif k == 'dict':
    if d['fields'] is None:
      s = T.Dict(**kw)
    else:
      s = T.Dict([(T.StrKey() if n == '*' else n, build(f)) for n, f in d['fields']], **kw)
  elif k == 'object':
    s = T.Object(getattr(M, d['cls']), **kw)
  elif k == 'union':
    s = T.Union([build(c) for c in d['cands']], **kw)
  else:
    raise ValueError(k)
  if d.get('none'):
    s = s.noneable()
  if d.get('frozen'):
    s = s.freeze()
  return s


def has_regex(d):
  if d['k'] == 'str':
    return bool(d.get('regex'))
  return any(has_regex(c) for c in children(d))


def children(d):
  k = d['k']
  if k in ('list', 'vtuple'):
    return [d['el']]
  if k == 'tuple':
    return list(d['els'])
  if k == 'dict':
    return [f for _, f in (d['fields'] or [])]
  if k == 'union':
    return list(d['cands'])
  return []


def size(d):
  return 1 + sum(size(c) for c in children(d))


def show(d):
  """Compact one-line rendering of a description."""
  k = d['k']
  if k in ('int', 'float'):
    body = f"{k}[{'' if d['min'] is None else d['min']}..{'' if d['max'] is None else d['max']}]"
  elif k == 'enum':
    body = f"enum{d['values']!r}"
  elif k in ('list', 'vtuple'):
    body = (f"{k}<{show(d['el'])}>[{'' if d['min'] is None else d['min']}.."
            f"{'' if d['max'] is None else d['max']}]")
  elif k == 'tuple':
    body = 'tuple(' + ', '.join(show(e) for e in d['els']) + ')'
  elif k == 'dict':
    body = 'dict' if d['fields'] is None else (
        'dict{' + ', '.join(f'{n}: {show(f)}' for n, f in d['fields']) + '}')
  elif k == 'object':
    body = f"object<{d['cls']}>"
  elif k == 'union':
    body = 'union(' + ' | '.join(show(c) for c in d['cands']) + ')'
  elif k == 'str':
    body = 'str' + (f"/{d['regex']}/" if d.get('regex') else '')
  else:
    body = k
  if d.get('tf'):
    body += '~' + d['tf']
  if d.get('none'):
    body += '?'
  if 'default' in d:
    body += f"={d['default'][1]!r}"
  if d.get('frozen'):
    body += '!'
  return body


# -- acceptance (always the real apply) ----------------------------------------------

def detached(v):
  try:
    return copy.deepcopy(v)
  except Exception:  # pylint: disable=broad-except
    return v


def accepts(spec, v, allow_partial=False):
  """(accepted?, result or exception) of the real `apply` on a deep copy."""
  try:
    return True, spec.apply(detached(v), allow_partial=allow_partial)
  except APPLY_ERRORS as e:
    return False, e


# -- parameter-derived candidate values ------------------------------------------------

def _objects():
  return [f() for f in _OBJECT_FACTORIES]


_SHARED_OBJECTS = []


def _shared_object(i):
  """The i-th object of `_objects()`, built once per process: candidate values
  are never handed to the library (`accepts` and the laws work on deep
  copies), so they can be shared between calls."""
  if not _SHARED_OBJECTS:
    _SHARED_OBJECTS.extend(_objects())
  return _SHARED_OBJECTS[i]


class _Later:
  """Placeholder for an object of `_objects()` that is built only if used."""

  def __init__(self, factory):
    self.factory = factory


_OBJECT_FACTORIES = [
    lambda: M.Inner(), lambda: M.Inner(p=5, q='s'), lambda: M.Typed(),
    lambda: M.TypedSub(extra=2), lambda: M.Any2(x=1), lambda: M.Leaf(1)]


UNIVERSAL = [None, True, False, 0, 1, -1, 2, 7, 0.5, -0.0, 2.0, 'a', 'ab', '', 'zz',
             [], [1], {}, {'a': 1}, (), (1,), (1, 'a')]


def _num_cands(spec):
  out = []
  step = [1] if isinstance(spec, T.Int) else [1, 0.5]
  for b in (spec.min_value, spec.max_value):
    if b is not None:
      out.append(b)
      for s in step:
        out += [b - s, b + s]
      if isinstance(spec, T.Float):
        out.append(float(b))
        if float(b).is_integer():
          out.append(int(b))
  if spec.min_value is not None and spec.max_value is not None:
    out.append((spec.min_value + spec.max_value) / 2 if isinstance(spec, T.Float)
               else (spec.min_value + spec.max_value) // 2)
  if not out:
    out += [0, 4] if isinstance(spec, T.Int) else [0.0, 4, 1.5]
  return out


def _pick_ok(rng, spec, depth, n):
  """Up to n values the element spec accepts + one it rejects (if any)."""
  vs = own_values(rng, spec, depth + 1)
  ok, bad = [], []
  for v in vs:
    (ok if accepts(spec, v)[0] else bad).append(v)
  rng.shuffle(ok)
  rng.shuffle(bad)
  return ok[:n], bad[:1]


def own_values(rng, spec, depth=0):
  """Candidate values derived from the public parameters of one spec."""
  out = [None]       # the noneable flag is a parameter of every spec
  if spec.has_default:
    d = spec.default
    out.append(d)
    if isinstance(d, bool):
      out.append(not d)
    elif isinstance(d, (int, float)):
      out += [d + 1, d - 1]
    elif isinstance(d, str):
      out.append(d + 'x')
    elif isinstance(d, list):
      out += [list(d) + list(d[:1] or [0]), list(d[:-1])]
    elif isinstance(d, tuple):
      out += [tuple(d) + tuple(d[:1] or (0,)), tuple(d[:-1])]
    elif isinstance(d, dict):
      out.append({k: v for k, v in list(d.items())[:-1]})
  if isinstance(spec, T.Bool):
    out += [True, False]
  elif isinstance(spec, (T.Int, T.Float)):
    out += _num_cands(spec)
  elif isinstance(spec, T.Str):
    out += ['a', 'ab', 'b', '', 'abc']
  elif isinstance(spec, T.Enum):
    out += list(spec.values) + ['__no_member__', 99]
  elif isinstance(spec, T.List) or (isinstance(spec, T.Tuple) and not spec.fixed_length):
    el = spec.element.value if isinstance(spec, T.List) else spec.elements[0].value
    mk = list if isinstance(spec, T.List) else tuple
    if depth < 3:
      ok, bad = _pick_ok(rng, el, depth, 4)
    else:
      ok, bad = [], []
    sizes = {0, 1, 2}
    for b in (spec.min_size, spec.max_size):
      if b is not None:
        sizes.update({b - 1, b, b + 1})
    for n in sorted(s for s in sizes if 0 <= s <= 6):
      if ok or n == 0:
        out.append(mk(detached(rng.choice(ok)) for _ in range(n)))
    if bad and ok:
      n = max(1, spec.min_size or 0)
      out.append(mk([detached(bad[0])] + [detached(rng.choice(ok)) for _ in range(n - 1)]))
  elif isinstance(spec, T.Tuple):
    els = [e.value for e in spec.elements]
    if depth < 3 and els:
      per = [_pick_ok(rng, e, depth, 3) for e in els]
      if all(p[0] for p in per):
        for _ in range(3):
          out.append(tuple(detached(rng.choice(p[0])) for p in per))
        base = tuple(detached(p[0][0]) for p in per)
        out += [base[:-1], base + (detached(per[-1][0][0]),)]
        for i, p in enumerate(per):
          if p[1]:
            out.append(base[:i] + (detached(p[1][0]),) + base[i + 1:])
    out.append(())
  elif isinstance(spec, T.Dict):
    if spec.schema is None:
      out += [{}, {'a': 1}, {'zz': [1]}]
    elif depth < 3:
      per = {}
      for key, f in spec.schema.items():
        per[key] = (f, _pick_ok(rng, f.value, depth, 3))
      for trial in range(4):
        dct = {}
        for key, (f, (ok, bad)) in per.items():
          names = [str(key)] if key.is_const else rng.sample(['p', 'qq', 'a', 'b'], rng.randint(0, 2))
          for n in names:
            if key.is_const and n in dct:
              continue
            if not key.is_const and n in [str(k2) for k2 in per if k2.is_const]:
              continue
            if trial == 1 and key.is_const and rng.random() < 0.5:
              continue       # leave a field out (default / required)
            if trial == 3 and bad and rng.random() < 0.5:
              dct[n] = detached(bad[0])
            elif ok:
              dct[n] = detached(rng.choice(ok))
        out.append(dct)
        if trial == 2:
          extra = dict(detached(dct))
          extra['zz_undeclared'] = 1
          out.append(extra)
      out.append({})
  elif isinstance(spec, T.Object):
    out += [_shared_object(i) for i in range(len(_OBJECT_FACTORIES))]
  elif isinstance(spec, T.Union):
    for c in spec.candidates:
      vs = own_values(rng, c, depth + 1)
      rng.shuffle(vs)
      out += vs[:8]
  elif isinstance(spec, T.Any):
    out += [1, 'a', [1], {'a': 1}]
  return out


def candidates(rng, specs, limit=40):
  """Values derived from the parameters of all `specs` plus universal ones.

  Deduplicated by repr+type; parameter-derived values come first so that a
  small `limit` keeps the boundary values."""
  derived = []
  for s in specs:
    derived += own_values(rng, s, 0)
  seen, out = set(), []
  # Same values in the same order as `UNIVERSAL + _objects()` shuffled; the
  # (expensive) objects are built only when they make it into the selection.
  uni = list(UNIVERSAL) + [_Later(i) for i in range(len(_OBJECT_FACTORIES))]
  rng.shuffle(uni)
  n_uni = max(6, limit // 4)
  picked = [_shared_object(v.factory) if isinstance(v, _Later) else v for v in uni[:n_uni]]
  for v in derived + picked:
    key = (type(v).__name__, repr(v))
    if key in seen:
      continue
    seen.add(key)
    out.append(v)
  if len(out) > limit:
    head = out[:len(derived)]
    rng.shuffle(head)
    out = head[:limit - n_uni] + out[len(derived):]
    out = out[:limit]
  return out


# -- reference validator (mechanism keys only) ----------------------------------------

def _name(spec):
  return type(spec).__name__


def _values_equal(a, b):
  try:
    return bool(pg.eq(a, b))
  except Exception:  # pylint: disable=broad-except
    return False


def why_rejected(spec, v, depth=0):
  """Names the public parameter of `spec` (or of a nested spec) that rejects
  `v`; None when the reference sees no reason. Never used for verdicts."""
  n = _name(spec)
  if spec.frozen:
    return None if _values_equal(v, spec.default) else f'{n}.frozen'
  if MISSING == v:
    return f'{n}.required'
  if v is None:
    return None if spec.is_noneable else f'{n}.none'
  if isinstance(spec, T.Any):
    return None
  if isinstance(spec, T.Bool):
    return None if isinstance(v, bool) else f'{n}.type'
  if isinstance(spec, (T.Int, T.Float)):
    ok_type = isinstance(v, int) if isinstance(spec, T.Int) else isinstance(v, (int, float))
    if not ok_type:
      return f'{n}.type'
    if spec.min_value is not None and v < spec.min_value:
      return f'{n}.min-value'
    if spec.max_value is not None and v > spec.max_value:
      return f'{n}.max-value'
    return None
  if isinstance(spec, T.Str):
    if not isinstance(v, str):
      return f'{n}.type'
    if spec.regex is not None and not spec.regex.match(v):
      return f'{n}.regex'
    return None
  if isinstance(spec, T.Enum):
    vt = spec.value_type
    if vt is not None and not isinstance(v, vt):
      return f'{n}.type'
    try:
      return None if v in spec.values else f'{n}.enum-member'
    except Exception:  # pylint: disable=broad-except
      return f'{n}.enum-member'
  if isinstance(spec, T.List):
    if not isinstance(v, list):
      return f'{n}.type'
    if len(v) < spec.min_size:
      return f'{n}.min-size'
    if spec.max_size is not None and len(v) > spec.max_size:
      return f'{n}.max-size'
    for x in v:
      r = why_rejected(spec.element.value, x, depth + 1)
      if r:
        return r
    return None
  if isinstance(spec, T.Tuple):
    if not isinstance(v, tuple):
      return f'{n}.type'
    if spec.fixed_length:
      if len(v) != len(spec.elements):
        return f'{n}.length'
    else:
      if len(v) < spec.min_size:
        return f'{n}.min-size'
      if spec.max_size is not None and len(v) > spec.max_size:
        return f'{n}.max-size'
    for i, x in enumerate(v):
      r = why_rejected(spec.elements[i if spec.fixed_length else 0].value, x, depth + 1)
      if r:
        return r
    return None
  if isinstance(spec, T.Dict):
    if not isinstance(v, dict):
      return f'{n}.type'
    if spec.schema is None:
      return None
    for k in v:
      if spec.schema.get_field(k) is None:
        return f'{n}.key'
    for key, f in spec.schema.items():
      if key.is_const:
        x = v.get(str(key), MISSING)
        if MISSING == x:
          x = f.value.default
        r = why_rejected(f.value, x, depth + 1)
        if r:
          return r
    for k, x in v.items():
      f = spec.schema.get_field(k)
      if not f.key.is_const:
        r = why_rejected(f.value, x, depth + 1)
        if r:
          return r
    return None
  if isinstance(spec, T.Object):
    if not isinstance(v, spec.cls):
      return f'{n}.type'
    return None
  if isinstance(spec, T.Union):
    # Mirrors the documented order: the first candidate whose value type
    # matches decides; then candidates without a value type (only a TypeError
    # moves on to the next one); then convertible types.
    for c in spec.candidates:
      vt = c.value_type
      if vt is not None and isinstance(v, vt):
        r = why_rejected(c, v, depth + 1)
        return f'Union.first-typed-candidate-rejects/{r}' if r else None
    for c in spec.candidates:
      if c.value_type is None:
        r = why_rejected(c, v, depth + 1)
        if r is None:
          return None
        if not r.endswith('.type'):
          return f'Union.untyped-candidate-rejects/{r}'
    for c in spec.candidates:
      # First candidate for whose value type a converter exists (int -> float
      # is the only built-in one the generators produce); it may be a Float or
      # an Enum of floats.
      if c.value_type is float and isinstance(v, int):
        r = why_rejected(c, float(v), depth + 1)
        return f'Union.converted-candidate-rejects/{r}' if r else None
    return 'Union.no-candidate'
  return None


# -- user transforms (round 3) ------------------------------------------------------
#
# A user transform is arbitrary code, so what a spec with a transform accepts is
# not described by its parameters. The harness therefore uses transforms that
# are idempotent (apply stays idempotent) and that *record* whether they changed
# or refused their input: a value is judged in the pair laws only when every
# transform that ran returned its input unchanged (same type, equal), i.e. when
# the transforms were invisible and the spec must behave like the same spec
# without them.

TF_EVENTS = []
TF_KINDS = ('list', 'tuple', 'vtuple', 'dict', 'object', 'any')


def _tf_note(x, out):
  if type(out) is not type(x):
    TF_EVENTS.append('changed')
    return out
  try:
    if not out == x:
      TF_EVENTS.append('changed')
  except Exception:  # pylint: disable=broad-except
    TF_EVENTS.append('changed')
  return out


def tf_ident(x):
  return x


def tf_list(x):
  """Converting transform: any iterable -> list."""
  try:
    out = list(x)
  except Exception:
    TF_EVENTS.append('raised')
    raise
  return _tf_note(x, out)


def tf_tuple(x):
  try:
    out = tuple(x)
  except Exception:
    TF_EVENTS.append('raised')
    raise
  return _tf_note(x, out)


def tf_dict(x):
  try:
    out = dict(x)
  except Exception:
    TF_EVENTS.append('raised')
    raise
  return _tf_note(x, out)


def tf_sorted(x):
  """Normalising transform: list -> sorted list."""
  try:
    out = sorted(x) if isinstance(x, list) else x
  except Exception:
    TF_EVENTS.append('raised')
    raise
  return _tf_note(x, out)


def tf_short(x):
  """Validating transform: refuses containers longer than 4."""
  try:
    n = len(x)
  except Exception:  # pylint: disable=broad-except
    n = 0
  if n > 4:
    TF_EVENTS.append('raised')
    raise ValueError('too long')
  return x


TRANSFORMS = {'ident': tf_ident, 'list': tf_list, 'tuple': tf_tuple, 'dict': tf_dict,
              'sorted': tf_sorted, 'short': tf_short}
TF_BY_KIND = {
    'list': ['ident', 'list', 'list', 'sorted', 'short'],
    'vtuple': ['ident', 'tuple', 'tuple', 'short'],
    'tuple': ['ident', 'tuple', 'tuple'],
    'dict': ['ident', 'dict', 'dict'],     # no length validator: completion adds keys
    'object': ['ident'],
    'any': ['ident'],
}


def accepts_tracked(spec, v, allow_partial=False):
  """`accepts` + whether a harness transform changed or refused a value."""
  del TF_EVENTS[:]
  ok, r = accepts(spec, v, allow_partial)
  visible = bool(TF_EVENTS)
  del TF_EVENTS[:]
  return ok, r, visible


def has_transform(d):
  return bool(d.get('tf')) or any(has_transform(c) for c in children(d))


def strip_transforms(d):
  """A deep copy of the description without any transform."""
  d = copy.deepcopy(d)
  def walk(x):
    x.pop('tf', None)
    for c in children(x):
      walk(c)
  walk(d)
  return d


def build_quiet(d):
  """True when `d` builds and no transform changed or refused a default while
  it was built (the transform-free twin then holds the same defaults)."""
  del TF_EVENTS[:]
  try:
    build(d)
  except Exception:  # pylint: disable=broad-except
    return False
  finally:
    seen = bool(TF_EVENTS)
    del TF_EVENTS[:]
  return not seen


def settle_transforms(d):
  """`d`, or its transform-free twin when a transform touches a default."""
  return d if build_quiet(d) else strip_transforms(d)


def add_transforms(rng, d, p=0.5):
  """A deep copy of `d` with user transforms on some container nodes (still
  buildable; a transform that changes or refuses a default is dropped)."""
  d = copy.deepcopy(d)
  def walk(x):
    for c in children(x):
      walk(c)
    if x['k'] in TF_BY_KIND and rng.random() < p:
      x['tf'] = rng.choice(TF_BY_KIND[x['k']])
      if not build_quiet(x):
        x.pop('tf', None)
  walk(d)
  return settle_transforms(d)


# -- defaults that hold mutable containers (round 3) -------------------------------------

def holds_mutable(v):
  if isinstance(v, (list, dict)):
    return True
  if isinstance(v, tuple):
    return any(holds_mutable(x) for x in v)
  return False


def _gen_container(rng, depth):
  """A container description (no flags) that nests containers: tuples of
  lists/dicts, lists of tuples, dict fields of those, ..."""
  prim = lambda: gen_spec(rng, 3, 3, PRIM_KINDS)
  if depth < 2 and rng.random() < 0.65:
    inner = _gen_container(rng, depth + 1)
  else:
    inner = prim()
  k = rng.choice(['tuple', 'tuple', 'vtuple', 'list', 'dict'])
  if k == 'tuple':
    els = [inner] + [prim() for _ in range(rng.randint(0, 2))]
    rng.shuffle(els)
    return {'k': 'tuple', 'els': els}
  if k in ('vtuple', 'list'):
    return {'k': k, 'el': inner, 'min': None, 'max': rng.choice([None, None, 3])}
  fields = [['a', inner]]
  if rng.random() < 0.5:
    fields.append(['b', prim()])
  return {'k': 'dict', 'fields': fields}


def gen_defaulted(rng):
  """A description with a default; where the shape allows, the default holds a
  mutable container (possibly inside tuples). Flags noneable/frozen at random
  on every level."""
  for _ in range(30):
    d = _gen_container(rng, 0)
    def flags(x, top):
      for c in children(x):
        flags(c, False)
      if not top and 'default' not in x and x['k'] in ('list', 'tuple', 'vtuple', 'dict'):
        if rng.random() < 0.4:
          _choose_default(rng, x, 0.2)
    flags(d, True)
    r = rng.random()
    if r < 0.12:
      try:
        s = build(d)
        ok = [v for v in own_values(rng, s, 0) if _plain(v) and holds_mutable(v) and accepts(s, v)[0]]
      except Exception:  # pylint: disable=broad-except
        ok = []
      if ok:
        d = {'k': 'any', 'default': ['v', copy.deepcopy(rng.choice(ok))]}
    elif r < 0.24:
      other = gen_spec(rng, 3, 3, ['int', 'str', 'bool'])
      other.pop('default', None)
      other.pop('frozen', None)
      d = {'k': 'union', 'cands': [d, other] if rng.random() < 0.5 else [other, d]}
    if 'default' not in d and not _choose_default(rng, d, 0.15):
      continue
    if rng.random() < 0.15 and d['k'] != 'any':
      d['none'] = True
    try:
      build(d)
      return d
    except Exception:  # pylint: disable=broad-except
      continue
  return {'k': 'list', 'el': {'k': 'int', 'min': None, 'max': None}, 'min': None,
          'max': None, 'default': ['v', [1, 2]]}


def _choose_default(rng, d, p_frozen):
  """Gives `d` a default (preferring values that hold a mutable container)."""
  try:
    s = build(d)
    ok = [v for v in own_values(rng, s, 0)
          if v is not None and _plain(v) and accepts(s, v)[0]]
  except Exception:  # pylint: disable=broad-except
    return False
  good = [v for v in ok if holds_mutable(v)] or ok
  if not good:
    return False
  d['default'] = ['v', copy.deepcopy(rng.choice(good))]
  if rng.random() < p_frozen:
    d['frozen'] = True
  return True


def widen(d):
  """A wider spec of the same shape: Int -> Float (so applying it converts
  elements in place), no bounds, sizes, defaults, frozen flags or transforms;
  everything noneable."""
  d = copy.deepcopy(d)
  def walk(x):
    for f in ('default', 'frozen', 'tf'):
      x.pop(f, None)
    k = x['k']
    if k in ('int', 'float'):
      x.update(k='float', min=None, max=None)
    elif k == 'enum':
      x.clear()
      x.update(k='any')
    elif k in ('list', 'vtuple'):
      x.update(min=None, max=None)
    if x['k'] != 'any':
      x['none'] = True
    for c in children(x):
      walk(c)
  walk(d)
  return d


# -- boundary values of nested specs, crossed between the specs of a pair (round 3) -------

def _elem(spec, i=0):
  if isinstance(spec, T.List):
    return spec.element.value
  return spec.elements[i if spec.fixed_length else 0].value


def cross_values(rng, specs, limit=16, depth=0):
  """Containers built around the parameter-derived values of the *nested*
  specs of all `specs` of the same container class: every element-level
  boundary of one spec is offered inside a container to the others (own_values
  offers mostly elements that the spec's own element spec accepts)."""
  if depth > 3:
    return []
  out = []
  lists = [s for s in specs if isinstance(s, T.List)]
  vtups = [s for s in specs if isinstance(s, T.Tuple) and not s.fixed_length]
  ftups = [s for s in specs if isinstance(s, T.Tuple) and s.fixed_length]
  dicts = [s for s in specs if isinstance(s, T.Dict) and s.schema is not None]
  prims = [s for s in specs if not isinstance(s, (T.List, T.Tuple, T.Dict, T.Union))]
  if depth > 0:
    for s in prims:
      out += own_values(rng, s, 3)
  for group, mk in ((lists, list), (vtups, tuple)):
    if not group:
      continue
    inner = cross_values(rng, [_elem(s) for s in group], limit, depth + 1)
    n = max([1] + [s.min_size or 0 for s in group])
    n = min(n, min([6] + [s.max_size for s in group if s.max_size]))
    for e in inner:
      out.append(mk(detached(e) for _ in range(max(1, n))))
  if ftups:
    width = len(ftups[0].elements)
    same = [s for s in ftups if len(s.elements) == width]
    fill = []
    for i in range(width):
      ok, _ = _pick_ok(rng, _elem(same[0], i), 2, 1)
      fill.append(ok[0] if ok else None)
    for i in range(width):
      for e in cross_values(rng, [_elem(s, i) for s in same], limit, depth + 1):
        out.append(tuple(detached(e) if j == i else detached(fill[j]) for j in range(width)))
  if dicts:
    first = dicts[0]
    fill = {}
    for key, f in first.schema.items():
      if key.is_const:
        ok, _ = _pick_ok(rng, f.value, 2, 1)
        if ok:
          fill[str(key)] = ok[0]
    for key, f in first.schema.items():
      if not key.is_const:
        continue
      peers = [f.value]
      for s in dicts[1:]:
        g = s.schema.get_field(str(key))
        if g is not None:
          peers.append(g.value)
      if len(peers) < 2:
        continue
      for e in cross_values(rng, peers, limit, depth + 1):
        v = detached(fill)
        v[str(key)] = detached(e)
        out.append(v)
  if depth == 0:
    seen, uniq = set(), []
    for v in out:
      k = (type(v).__name__, repr(v))
      if k not in seen:
        seen.add(k)
        uniq.append(v)
    rng.shuffle(uniq)
    return uniq[:limit]
  return out


def relax(rng, d, p=0.6):
  """A deep copy of `d` that leaves some bounds / sizes unspecified: the spec a
  subclass writes when it overrides a field and inherits the rest (extending
  the original then fills the unspecified parameters in)."""
  d = copy.deepcopy(d)
  def walk(x):
    if x['k'] in ('int', 'float', 'list', 'vtuple'):
      for b in ('min', 'max'):
        if rng.random() < p:
          x[b] = None
    if x.get('frozen') and rng.random() < 0.5:
      x.pop('frozen')
    if x['k'] == 'dict' and x['fields'] and len(x['fields']) > 1 and rng.random() < 0.2:
      x['fields'].pop(rng.randrange(len(x['fields'])))
      if 'default' in x:
        x.pop('default')
        x.pop('frozen', None)
    for c in children(x):
      walk(c)
  walk(d)
  try:
    build(d)
    return d
  except Exception:  # pylint: disable=broad-except
    return copy.deepcopy(d) if False else strip_defaults(d)


def strip_defaults(d):
  d = copy.deepcopy(d)
  def walk(x):
    x.pop('default', None)
    x.pop('frozen', None)
    for c in children(x):
      walk(c)
  walk(d)
  return d
