"""Hyper-template descriptions (C13).

One JSON-able *template description* is the single source from which the
harness derives

  * the real hyper value (`build`: `pg.oneof/manyof/floatv`, custom hyper
    placeholders nested in `pg.Dict`/`pg.List`/`pgverif.models` objects),
  * the search-space description in the grammar of `monitors/genoref.py`
    (`to_space`; its members are the DNAs valid for the template),
  * the *reference decoder* (`ref_decode`), written from the description and
    the documented meaning of a template: the decisions are consumed in the
    order in which the placeholders occur in the value (dict insertion order,
    list order, schema order of object fields; a pick, then the decisions of
    the picked candidate, then the next pick), every placeholder on which the
    `where` filter answers True is replaced by the value it stands for, every
    other placeholder stays (its own candidates are still searched),
  * canonical, type-precise forms of values (`canon_value`, public API only)
    and of descriptions (`canon_desc`) to compare both sides.

Grammar
  T := {'t': 'const', 'v': None|bool|int|float|str}
     | {'t': 'dict', 'items': [[key, T], ...]}
     | {'t': 'list', 'items': [T, ...]}
     | {'t': 'obj', 'cls': name in pgverif.models, 'fields': [[name, T], ...]}
     | {'t': 'choice', 'k': K, 'cands': [T, ...], 'distinct': bool,
        'sorted': bool, 'name': str|None, 'tag': str|None}        (k=1: oneof)
     | {'t': 'float', 'lo': float, 'hi': float, 'name': ..., 'tag': ...}
     | {'t': 'custom', 'form': 'str'|'dict'|'evolve', 'name': ..., 'tag': ...,
        'pool': [T, ...]}     (evolve only: placeholder-free values; pool[0] is
                               the initial value)
  W := {'by': 'all'} | {'by': 'tag', 'keep': [tag, ...]}
     | {'by': 'kind', 'keep': ['oneof'|'manyof'|'float'|'custom', ...]}

`tag` is rendered as the `hints` of the placeholder.
"""
import itertools
import random as pyrandom

import pyglove as pg
from pgverif import models as M
from pgverif.gen import spaces as S
from pgverif.monitors import genoref as G

PLACEHOLDERS = ('choice', 'float', 'custom')


# --------------------------------------------------------------------------
# Custom hyper placeholders of the harness.
# --------------------------------------------------------------------------

class Gen(pg.hyper.CustomHyper):
  """Genome 'xyz' stands for the string 'c:xyz'."""

  def custom_decode(self, dna):
    return 'c:' + dna.value

  def custom_encode(self, value):
    if not isinstance(value, str) or not value.startswith('c:'):
      raise ValueError(f'not a Gen value: {value!r}')
    return pg.DNA(value[2:])

  def random_dna(self, random_generator=None, previous_dna=None):
    r = random_generator or pyrandom
    return pg.DNA('g%d' % r.randint(0, 99))

  def next_dna(self, dna=None):
    if dna is None:
      return pg.DNA('g0')
    return pg.DNA('g%d' % (int(dna.value[1:]) + 1))


class GenD(pg.hyper.CustomHyper):
  """Genome 'xyz' stands for a fresh pg.Dict(g='xyz')."""

  def custom_decode(self, dna):
    return pg.Dict(g=dna.value)

  def custom_encode(self, value):
    if not isinstance(value, dict) or list(value.keys()) != ['g']:
      raise ValueError(f'not a GenD value: {value!r}')
    return pg.DNA(value['g'])

  def random_dna(self, random_generator=None, previous_dna=None):
    r = random_generator or pyrandom
    return pg.DNA('g%d' % r.randint(0, 99))

  def next_dna(self, dna=None):
    if dna is None:
      return pg.DNA('g0')
    return pg.DNA('g%d' % (int(dna.value[1:]) + 1))


def no_transform(location, value, parent):
  """node_transform of the evolvable placeholders (never mutates)."""
  del location, parent
  return value


GENOMES = ['', 'abc', 'x,y', '0', 'g7']

# Fields of the models classes in schema order (the order in which a template
# scans an object), and the canonical form of the fields that descriptions
# never list.
CLASS_FIELDS = {
    'Any2': ['x', 'y'],
    'Inner': ['p', 'q'],
    'Typed': ['i', 's', 'e', 'fl', 'b', 'l', 'd', 'dyn', 'u', 'n', 'fz', 'o',
              'lo', 't'],
    'Required': ['r', 'rs', 'rd', 'opt'],
}
UNLISTED = {
    'Typed': {'fz': ('leaf', 'int', '7'), 't': ('leaf', 'NoneType', 'None')},
}


# --------------------------------------------------------------------------
# Constructors.
# --------------------------------------------------------------------------

def const(v):
  return {'t': 'const', 'v': v}


def tdict(items):
  return {'t': 'dict', 'items': [[k, v] for k, v in items]}


def tlist(items):
  return {'t': 'list', 'items': list(items)}


def tobj(cls, fields):
  order = CLASS_FIELDS[cls]
  fields = sorted(fields, key=lambda kv: order.index(kv[0]))
  return {'t': 'obj', 'cls': cls, 'fields': [[k, v] for k, v in fields]}


def choice(k, cands, distinct=True, sorted=False, name=None, tag=None):  # pylint: disable=redefined-builtin
  return {'t': 'choice', 'k': k, 'cands': list(cands), 'distinct': distinct,
          'sorted': sorted, 'name': name, 'tag': tag}


def oneof(cands, name=None, tag=None):
  return choice(1, cands, True, False, name, tag)


def tfloat(lo, hi, name=None, tag=None):
  return {'t': 'float', 'lo': float(lo), 'hi': float(hi), 'name': name,
          'tag': tag}


def tcustom(form='str', name=None, tag=None, pool=None):
  return {'t': 'custom', 'form': form, 'name': name, 'tag': tag,
          'pool': list(pool or [])}


def children(T):
  """(path token, child) of a container description."""
  t = T['t']
  if t == 'dict':
    return [(('k', k), c) for k, c in T['items']]
  if t == 'list':
    return [(('i', i), c) for i, c in enumerate(T['items'])]
  if t == 'obj':
    return [(('k', k), c) for k, c in T['fields']]
  return []


def kind_of(T):
  """'oneof' | 'manyof' | 'float' | 'custom' (the class a filter sees)."""
  if T['t'] == 'choice':
    return 'oneof' if T['k'] == 1 else 'manyof'
  return T['t']


def key_kind(T):
  """Stable class name for mechanism keys (genoref naming)."""
  if T['t'] == 'choice':
    return G.kind(T)
  if T['t'] == 'custom':
    return 'evolve' if T['form'] == 'evolve' else 'custom'
  return T['t']


# --------------------------------------------------------------------------
# The `where` filter.
# --------------------------------------------------------------------------

ALL = {'by': 'all'}


def keep(W, T):
  """Reference predicate: is this placeholder part of the search space?"""
  if W['by'] == 'all':
    return True
  if W['by'] == 'tag':
    return T['tag'] in W['keep']
  return kind_of(T) in W['keep']


def where_fn(W):
  """The real `where` callable (reads public attributes only)."""
  if W['by'] == 'all':
    return None
  if W['by'] == 'tag':
    tags = list(W['keep'])
    return lambda x: x.hints in tags
  classes = tuple({'oneof': pg.hyper.OneOf, 'manyof': pg.hyper.ManyOf,
                   'float': pg.hyper.Float,
                   'custom': pg.hyper.CustomHyper}[k] for k in W['keep'])
  return lambda x: isinstance(x, classes)


# --------------------------------------------------------------------------
# Description -> real value.
# --------------------------------------------------------------------------

def build(T, plain_root=False, dynamic=False):
  """Real (hyper) value of a description; fresh objects on every call.

  plain_root: the root container is a built-in dict/list.
  dynamic: for DynamicEvaluationContext — candidates that contain placeholders
    are wrapped in zero-argument lambdas (the documented way to express
    conditional spaces in dynamic evaluation mode).
  """
  t = T['t']
  if t == 'const':
    return T['v']
  if t == 'dict':
    items = {k: build(c, dynamic=dynamic) for k, c in T['items']}
    return items if plain_root else pg.Dict(items)
  if t == 'list':
    items = [build(c, dynamic=dynamic) for c in T['items']]
    return items if plain_root else pg.List(items)
  if t == 'obj':
    cls = getattr(M, T['cls'])
    return cls(**{k: build(c, dynamic=dynamic) for k, c in T['fields']})
  if t == 'float':
    return pg.floatv(T['lo'], T['hi'], name=T['name'], hints=T['tag'])
  if t == 'custom':
    if T['form'] == 'evolve':
      return pg.evolve(build(T['pool'][0]), no_transform, name=T['name'],
                       hints=T['tag'])
    cls = Gen if T['form'] == 'str' else GenD
    return cls(name=T['name'], hints=T['tag'])
  cands = []
  for c in T['cands']:
    if dynamic and has_placeholder(c):
      cands.append(_thunk(c))
    else:
      cands.append(build(c, dynamic=dynamic))
  if T['k'] == 1:
    return pg.oneof(cands, name=T['name'], hints=T['tag'])
  return pg.manyof(T['k'], cands, distinct=T['distinct'], sorted=T['sorted'],
                   name=T['name'], hints=T['tag'])


def _thunk(c):
  return lambda: build(c, dynamic=True)


def has_placeholder(T):
  if T['t'] in PLACEHOLDERS:
    return True
  return any(has_placeholder(c) for _, c in children(T))


def genome_of(E):
  """Genome of an evolvable placeholder standing for value description E."""
  return pg.to_json_str(build(E))


# --------------------------------------------------------------------------
# Description -> search space (genoref grammar).
# --------------------------------------------------------------------------

def to_space(T, W=ALL):
  elems = []
  _scan(T, W, (), elems)
  return {'t': 'space', 'elems': elems}


def _scan(T, W, path, out):
  t = T['t']
  if t not in PLACEHOLDERS:
    for tok, c in children(T):
      _scan(c, W, path + (tok,), out)
    return
  if keep(W, T):
    loc = G.render_id(path)
    if t == 'choice':
      out.append(S.choice(T['k'], [to_space(c, W) for c in T['cands']],
                          T['distinct'], T['sorted'], loc, T['name']))
    elif t == 'float':
      out.append(S.floatv(T['lo'], T['hi'], loc, T['name']))
    else:
      e = S.custom(loc, T['name'])
      if T['form'] == 'evolve':
        e['genomes'] = 'evolve'
      out.append(e)
  elif t == 'choice':
    # A placeholder that is not part of the space is an ordinary object whose
    # `candidates` list is searched like any other container.
    for i, c in enumerate(T['cands']):
      _scan(c, W, path + (('k', 'candidates'), ('i', i)), out)


def top_placeholders(T, W=ALL, path=()):
  """[(path tokens, placeholder description)] of the root-level scan."""
  out = []
  t = T['t']
  if t not in PLACEHOLDERS:
    for tok, c in children(T):
      out.extend(top_placeholders(c, W, path + (tok,)))
  elif keep(W, T):
    out.append((path, T))
  elif t == 'choice':
    for i, c in enumerate(T['cands']):
      out.extend(top_placeholders(c, W, path + (('k', 'candidates'), ('i', i))))
  return out


# --------------------------------------------------------------------------
# Reference decoder and member sampler.
# --------------------------------------------------------------------------

class DecodeError(Exception):
  pass


def ref_decode(T, W, flat):
  """Description of the value that the decisions `flat` stand for."""
  it = iter(flat)
  out = _dec(T, W, it)
  rest = list(it)
  if rest:
    raise DecodeError(f'unused decisions {rest!r}')
  return out


def _dec(T, W, it):
  t = T['t']
  if t == 'const':
    return T
  if t == 'dict':
    return {'t': 'dict', 'items': [[k, _dec(c, W, it)] for k, c in T['items']]}
  if t == 'list':
    return {'t': 'list', 'items': [_dec(c, W, it) for c in T['items']]}
  if t == 'obj':
    return {'t': 'obj', 'cls': T['cls'],
            'fields': [[k, _dec(c, W, it)] for k, c in T['fields']]}
  if not keep(W, T):
    if t == 'choice':
      return dict(T, cands=[_dec(c, W, it) for c in T['cands']])
    return T
  if t == 'float':
    v = next(it)
    if not isinstance(v, float) or not T['lo'] <= v <= T['hi']:
      raise DecodeError(f'bad float decision {v!r}')
    return const(v)
  if t == 'custom':
    v = next(it)
    if not isinstance(v, str):
      raise DecodeError(f'bad custom decision {v!r}')
    if T['form'] == 'str':
      return const('c:' + v)
    if T['form'] == 'dict':
      return tdict([['g', const(v)]])
    for E in T['pool']:
      if genome_of(E) == v:
        return E
    raise DecodeError('genome outside the pool of the evolvable placeholder')
  picks, items = [], []
  for _ in range(T['k']):
    p = next(it)
    if isinstance(p, bool) or not isinstance(p, int) or not 0 <= p < len(T['cands']):
      raise DecodeError(f'bad pick {p!r}')
    if T['k'] > 1 and T['distinct'] and p in picks:
      raise DecodeError('picks not distinct')
    if T['k'] > 1 and T['sorted'] and picks and p < picks[-1]:
      raise DecodeError('picks not sorted')
    picks.append(p)
    items.append(_dec(T['cands'][p], W, it))
  return items[0] if T['k'] == 1 else tlist(items)


def random_member(T, W, rng):
  """A random valid decision sequence (harness-side sampler)."""
  out = []
  _rand(T, W, rng, out)
  return tuple(out)


def _rand(T, W, rng, out):
  t = T['t']
  if t not in PLACEHOLDERS:
    for _, c in children(T):
      _rand(c, W, rng, out)
    return
  if not keep(W, T):
    if t == 'choice':
      for c in T['cands']:
        _rand(c, W, rng, out)
    return
  if t == 'float':
    out.append(rng.choice([T['lo'], T['hi'], rng.uniform(T['lo'], T['hi'])]))
  elif t == 'custom':
    if T['form'] == 'evolve':
      out.append(genome_of(rng.choice(T['pool'])))
    else:
      out.append(rng.choice(GENOMES))
  else:
    n, k = len(T['cands']), T['k']
    if T['distinct'] and k > 1:
      picks = rng.sample(range(n), k)
    else:
      picks = [rng.randrange(n) for _ in range(k)]
    if T['sorted']:
      picks.sort()
    for p in picks:
      out.append(p)
      _rand(T['cands'][p], W, rng, out)


# --------------------------------------------------------------------------
# Canonical forms.
#   ('leaf', type name, repr) | ('dict', ((k, c)...)) | ('list', (c...))
#   ('obj', class name, ((k, c)...)) | ('ph', kind, ((k, c)...))
# Keys are sorted; the forms are type precise (1, 1.0 and True differ).
# --------------------------------------------------------------------------

def _leaf(v):
  return ('leaf', type(v).__name__, repr(v))


def canon_desc(T):
  t = T['t']
  if t == 'const':
    return _leaf(T['v'])
  if t == 'dict':
    return ('dict', tuple(sorted((k, canon_desc(c)) for k, c in T['items'])))
  if t == 'list':
    return ('list', tuple(canon_desc(c) for c in T['items']))
  if t == 'obj':
    items = {k: canon_desc(c) for k, c in T['fields']}
    items.update(UNLISTED.get(T['cls'], {}))
    return ('obj', T['cls'], tuple(sorted(items.items())))
  base = [('name', _leaf(T['name'])), ('hints', _leaf(T['tag']))]
  if t == 'float':
    return ('ph', 'float', tuple(sorted(base + [
        ('min_value', _leaf(T['lo'])), ('max_value', _leaf(T['hi']))])))
  if t == 'custom':
    if T['form'] == 'evolve':
      return ('ph', 'evolve', tuple(sorted(base + [
          ('initial_value', canon_desc(T['pool'][0]))])))
    return ('ph', 'Gen' if T['form'] == 'str' else 'GenD', tuple(sorted(base)))
  return ('ph', 'oneof' if T['k'] == 1 else 'manyof', tuple(sorted(base + [
      ('num_choices', _leaf(T['k'])),
      ('choices_distinct', _leaf(T['distinct'])),
      ('choices_sorted', _leaf(T['sorted'])),
      ('candidates', ('list', tuple(canon_desc(c) for c in T['cands'])))])))


def canon_value(v):
  """Canonical form of a real value, read through public API only."""
  if isinstance(v, pg.hyper.HyperPrimitive):
    base = [('name', _leaf(v.name)), ('hints', _leaf(v.hints))]
    if isinstance(v, pg.hyper.Float):
      return ('ph', 'float', tuple(sorted(base + [
          ('min_value', _leaf(v.min_value)), ('max_value', _leaf(v.max_value))])))
    if isinstance(v, pg.hyper.Evolvable):
      return ('ph', 'evolve', tuple(sorted(base + [
          ('initial_value', canon_value(v.initial_value))])))
    if isinstance(v, pg.hyper.CustomHyper):
      return ('ph', type(v).__name__, tuple(sorted(base)))
    if isinstance(v, pg.hyper.Choices):
      return ('ph', 'oneof' if isinstance(v, pg.hyper.OneOf) else 'manyof',
              tuple(sorted(base + [
                  ('num_choices', _leaf(v.num_choices)),
                  ('choices_distinct', _leaf(v.choices_distinct)),
                  ('choices_sorted', _leaf(v.choices_sorted)),
                  ('candidates', canon_value(v.candidates))])))
    return ('ph', type(v).__name__, tuple(sorted(base)))
  if isinstance(v, pg.Object):
    return ('obj', type(v).__name__,
            tuple(sorted((str(k), canon_value(x)) for k, x in v.sym_items())))
  if isinstance(v, pg.Dict):
    return ('dict', tuple(sorted((str(k), canon_value(x)) for k, x in v.sym_items())))
  if isinstance(v, dict):
    return ('dict', tuple(sorted((str(k), canon_value(x)) for k, x in v.items())))
  if isinstance(v, pg.List):
    return ('list', tuple(canon_value(x) for _, x in v.sym_items()))
  if isinstance(v, (list, tuple)):
    return ('list', tuple(canon_value(x) for x in v))
  return _leaf(v)


def canon_get(c, path):
  """Sub-form at path tokens; None if the path does not exist."""
  for tok in path:
    if c is None:
      return None
    if c[0] == 'list':
      c = c[1][tok[1]] if tok[0] == 'i' and 0 <= tok[1] < len(c[1]) else None
    elif c[0] in ('dict', 'obj', 'ph'):
      items = dict(c[-1])
      c = items.get(tok[1]) if tok[0] == 'k' else None
    else:
      c = None
  return c


def canon_placeholders(c, out=None):
  """All placeholder forms inside a canonical form."""
  out = [] if out is None else out
  if c[0] == 'ph':
    out.append(c)
  if c[0] == 'list':
    for x in c[1]:
      canon_placeholders(x, out)
  elif c[0] in ('dict', 'obj', 'ph'):
    for _, x in c[-1]:
      canon_placeholders(x, out)
  return out


def eq_key(c):
  """Canonical form -> a key under which `==`-equal values collide
  (1 == 1.0 == True; 0.0 == -0.0): leaves become the raw Python value."""
  if c[0] == 'leaf':
    if c[1] == 'bool':
      return ('num', 1.0 if c[2] == 'True' else 0.0)
    if c[1] == 'int':
      return ('num', float(int(c[2])))
    if c[1] == 'float':
      return ('num', float(c[2]) + 0.0 if float(c[2]) != 0 else 0.0)
    return c
  if c[0] == 'list':
    return ('list', tuple(eq_key(x) for x in c[1]))
  return c[:-1] + (tuple((k, eq_key(x)) for k, x in c[-1]),)


# --------------------------------------------------------------------------
# Distinguishability of candidates (decides whether the inverse law applies).
# --------------------------------------------------------------------------

def may_overlap(A, B, W):
  """Over-approximation: can A and B stand for `==`-equal values?"""
  a_ph = A['t'] in PLACEHOLDERS and keep(W, A)
  b_ph = B['t'] in PLACEHOLDERS and keep(W, B)
  if b_ph and not a_ph:
    return may_overlap(B, A, W)
  if a_ph:
    if A['t'] == 'custom' and A['form'] == 'evolve':
      return True
    if b_ph and B['t'] == 'custom' and B['form'] == 'evolve':
      return True
    if A['t'] == 'choice' and A['k'] == 1:
      return any(may_overlap(c, B, W) for c in A['cands'])
    if b_ph and B['t'] == 'choice' and B['k'] == 1:
      return any(may_overlap(A, c, W) for c in B['cands'])
    if A['t'] == 'choice':
      if b_ph:
        return B['t'] == 'choice' and B['k'] == A['k'] and any(
            may_overlap(x, y, W) for x in A['cands'] for y in B['cands'])
      return (B['t'] == 'list' and len(B['items']) == A['k'] and all(
          any(may_overlap(c, item, W) for c in A['cands']) for item in B['items']))
    if A['t'] == 'float':
      if b_ph:
        return B['t'] == 'float' and A['lo'] <= B['hi'] and B['lo'] <= A['hi']
      return (B['t'] == 'const' and isinstance(B['v'], (bool, int, float))
              and A['lo'] <= B['v'] <= A['hi'])
    # Gen / GenD
    if b_ph:
      return B['t'] == 'custom' and B['form'] == A['form']
    if A['form'] == 'str':
      return (B['t'] == 'const' and isinstance(B['v'], str)
              and B['v'].startswith('c:'))
    return B['t'] == 'dict' and [k for k, _ in B['items']] == ['g']
  # Neither is an active placeholder.
  if A['t'] != B['t']:
    return False
  if A['t'] == 'const':
    return A['v'] == B['v']
  if A['t'] == 'dict':
    da, db = dict(A['items']), dict(B['items'])
    return set(da) == set(db) and all(may_overlap(da[k], db[k], W) for k in da)
  if A['t'] == 'list':
    return len(A['items']) == len(B['items']) and all(
        may_overlap(x, y, W) for x, y in zip(A['items'], B['items']))
  if A['t'] == 'obj':
    fa, fb = dict(A['fields']), dict(B['fields'])
    return A['cls'] == B['cls'] and all(
        may_overlap(fa[k], fb[k], W) for k in fa if k in fb)
  # Two placeholders outside the space: ordinary objects.
  if A['t'] == 'choice':
    return (len(A['cands']) == len(B['cands']) and A['k'] == B['k'] and all(
        may_overlap(x, y, W) for x, y in zip(A['cands'], B['cands'])))
  return True


def distinguishable(T, W=ALL):
  """True when, for every choice of the space, no two candidates can stand
  for equal values (so encode has exactly one DNA to return)."""
  t = T['t']
  if t == 'choice':
    if keep(W, T):
      cs = T['cands']
      for i in range(len(cs)):
        for j in range(i + 1, len(cs)):
          if may_overlap(cs[i], cs[j], W):
            return False
    return all(distinguishable(c, W) for c in T['cands'])
  return all(distinguishable(c, W) for _, c in children(T))


def where_in_candidate(T, W, inside=False):
  """Does a candidate of a placeholder of the space contain a placeholder
  that the filter leaves out?"""
  t = T['t']
  if t in PLACEHOLDERS:
    if not keep(W, T):
      if inside:
        return True
      return t == 'choice' and any(where_in_candidate(c, W, inside) for c in T['cands'])
    return t == 'choice' and any(where_in_candidate(c, W, True) for c in T['cands'])
  return any(where_in_candidate(c, W, inside) for _, c in children(T))


# --------------------------------------------------------------------------
# Rendering for samples and witnesses.
# --------------------------------------------------------------------------

def show(T):
  t = T['t']
  if t == 'const':
    return repr(T['v'])
  if t == 'dict':
    return '{' + ', '.join(f'{k}: {show(c)}' for k, c in T['items']) + '}'
  if t == 'list':
    return '[' + ', '.join(show(c) for c in T['items']) + ']'
  if t == 'obj':
    return T['cls'] + '(' + ', '.join(f'{k}={show(c)}' for k, c in T['fields']) + ')'
  deco = ''.join([('@' + T['name']) if T['name'] else '',
                  ('#' + T['tag']) if T['tag'] else ''])
  if t == 'float':
    return f"floatv({T['lo']}, {T['hi']}){deco}"
  if t == 'custom':
    if T['form'] == 'evolve':
      return 'evolve(' + show(T['pool'][0]) + ')' + deco
    return ('Gen()' if T['form'] == 'str' else 'GenD()') + deco
  cands = '[' + ', '.join(show(c) for c in T['cands']) + ']'
  if T['k'] == 1:
    return f'oneof({cands}){deco}'
  flags = ('' if T['distinct'] else ', distinct=False') + (
      ', sorted=True' if T['sorted'] else '')
  return f"manyof({T['k']}, {cands}{flags}){deco}"


def show_where(W):
  if W['by'] == 'all':
    return 'None'
  if W['by'] == 'tag':
    return f"lambda x: x.hints in {W['keep']!r}"
  return f"lambda x: isinstance(x, {'/'.join(W['keep'])})"


# --------------------------------------------------------------------------
# Rendering a search-space description as a template.
# --------------------------------------------------------------------------

class State:
  """Per-template counters (unique constants, keys)."""

  def __init__(self, rng, dup=0.0, tags=False, typed=0.25, evolve=0.0):
    self.rng = rng
    self.u = itertools.count()
    self.dup, self.tags, self.typed, self.evolve = dup, tags, typed, evolve
    self.used_singletons = set()
    self.has_dup = False


def unique_const(st, simple=False):
  """A constant (or constant container) not `==` to any other one drawn."""
  rng = st.rng
  i = next(st.u)
  r = rng.random()
  if r < 0.4:
    leaf = const('u%d' % i)
  elif r < 0.6:
    leaf = const(100 + i)
  elif r < 0.7:
    leaf = const(100.5 + i)
  elif r < 0.8:
    pick = rng.choice([None, True, False])
    if repr(pick) in st.used_singletons:
      leaf = const('u%d' % i)
    else:
      st.used_singletons.add(repr(pick))
      leaf = const(pick)
  else:
    leaf = const('w%d' % i)
  if simple or rng.random() < 0.7:
    return leaf
  shape = rng.choice(['dict', 'list', 'any2', 'inner', 'nested'])
  if shape == 'dict':
    return tdict([['m', leaf]])
  if shape == 'list':
    return tlist([leaf, const(0)])
  if shape == 'any2':
    return tobj('Any2', [['x', leaf], ['y', tlist([const(1)])]])
  if shape == 'inner':
    return tobj('Inner', [['p', const(i % 6)], ['q', const('q%d' % i)]])
  return tdict([['m', tdict([['n', tlist([leaf])]])]])


def _tag(st):
  return st.rng.choice(['k', 's']) if st.tags else st.rng.choice([None, None, 'h'])


def render_space(sp, st, depth=0):
  """Template description whose space is isomorphic to `sp` (locations are
  recomputed by `to_space`)."""
  rng = st.rng
  if not sp['elems']:
    return unique_const(st)
  phs = [render_elem(e, st, depth) for e in sp['elems']]
  if len(phs) == 1 and rng.random() < (0.3 if depth == 0 else 0.45):
    return phs[0]
  shape = rng.choice(['dict', 'dict', 'dict', 'list', 'obj'])
  if shape == 'obj' and len(phs) <= 2:
    fields = list(zip(rng.sample(['x', 'y'], len(phs)), phs))
    if len(fields) == 1:
      other = 'y' if fields[0][0] == 'x' else 'x'
      fields.append((other, unique_const(st)))
    return tobj('Any2', fields)
  slots = []
  for p in phs:
    r = rng.random()
    if r < 0.7:
      slots.append(p)
    elif r < 0.85:
      slots.append(tdict([['in', p]] + ([['c', unique_const(st, True)]]
                                        if rng.random() < 0.5 else [])))
    else:
      slots.append(tlist([unique_const(st, True), p]))
  for _ in range(rng.choice([0, 0, 0, 1, 2]) if depth == 0 else rng.choice([0, 0, 0, 1])):
    slots.insert(rng.randrange(len(slots) + 1), unique_const(st))
  if shape == 'list':
    return tlist(slots)
  keys = ['a', 'b', 'c', 'd', 'e', 'f', 'g2', 'h']
  if rng.random() < 0.3:
    rng.shuffle(keys)
  return tdict(list(zip(keys, slots)))


def without_names(T):
  """Copy of a description whose placeholders are anonymous (decision point
  names must be unique in a space)."""
  if T['t'] == 'const':
    return T
  out = dict(T)
  if 'name' in out:
    out['name'] = None
  for key in ('items', 'fields'):
    if key in out:
      out[key] = [[k, without_names(c)] for k, c in out[key]] if T['t'] != 'list' else [
          without_names(c) for c in out[key]]
  if 'cands' in out:
    out['cands'] = [without_names(c) for c in out['cands']]
  return out


def render_elem(e, st, depth):
  rng = st.rng
  if e['t'] == 'float':
    return tfloat(e['lo'], e['hi'], e.get('name'), _tag(st))
  if e['t'] == 'custom':
    if st.evolve and rng.random() < st.evolve:
      pool = [unique_const(st) for _ in range(3)]
      pool = [p if p['t'] != 'const' else tdict([['v', p]]) for p in pool]
      return tcustom('evolve', e.get('name'), _tag(st), pool)
    return tcustom(rng.choice(['str', 'str', 'dict']), e.get('name'), _tag(st))
  cands = [render_space(c, st, depth + 1) for c in e['cands']]
  if st.dup and len(cands) >= 2 and rng.random() < st.dup:
    i, j = rng.sample(range(len(cands)), 2)
    if cands[i]['t'] == 'const' and isinstance(cands[i]['v'], int) and rng.random() < 0.5:
      cands[j] = const(float(cands[i]['v']))      # 101 vs 101.0
    else:
      cands[j] = without_names(cands[i])
    st.has_dup = True
  return choice(e['k'], cands, e['distinct'], e['sorted'], e.get('name'), _tag(st))


# --------------------------------------------------------------------------
# Typed objects: placeholders bound to the value specs of pgverif.models.
# --------------------------------------------------------------------------

def _ints(rng, lo, hi, n):
  return [const(v) for v in rng.sample(range(lo, hi + 1), n)]


def _int_choice(st, lo, hi):
  """oneof over distinct ints of [lo, hi], sometimes with a nested oneof."""
  rng = st.rng
  n = rng.randint(2, min(4, hi - lo + 1))
  vals = _ints(rng, lo, hi, n)
  if n >= 3 and rng.random() < 0.35:
    vals = [vals[0], oneof(vals[1:], tag=_tag(st))]
    rng.shuffle(vals)
  return oneof(vals, tag=_tag(st))


def _str_choice(st, none=False):
  rng = st.rng
  vals = [const('t%d' % next(st.u)) for _ in range(rng.randint(1, 3))]
  if none:
    vals.insert(rng.randrange(len(vals) + 1), const(None))
  return oneof(vals, tag=_tag(st))


def inner_obj(st, p_hyper=0.5):
  rng = st.rng
  p = _int_choice(st, 0, 5) if rng.random() < p_hyper else const(rng.randint(0, 5))
  q = _str_choice(st, none=True) if rng.random() < p_hyper else const(
      rng.choice([None, 'q%d' % next(st.u)]))
  return tobj('Inner', [['p', p], ['q', q]])


def typed_obj(st, bad_size=False):
  """A Typed object with placeholders in fields of every spec shape."""
  rng = st.rng
  f = {
      'i': const(1), 's': const('a'), 'e': const('a'), 'fl': const(0.0),
      'b': const(False), 'l': tlist([const(1)]),
      'd': tdict([['k', const(0)], ['m', const(None)]]), 'dyn': tdict([]),
      'u': const(0), 'n': const(None), 'o': const(None), 'lo': tlist([]),
  }
  names = rng.sample(sorted(f), rng.randint(1, 4))
  if bad_size and 'l' not in names:
    names.append('l')
  for name in names:
    if name == 'i':
      f['i'] = _int_choice(st, 0, 9)
    elif name == 's':
      f['s'] = _str_choice(st)
    elif name == 'e':
      f['e'] = oneof([const(v) for v in rng.sample(['a', 'b', 'c'], rng.randint(2, 3))],
                     tag=_tag(st))
    elif name == 'fl':
      if rng.random() < 0.6:
        lo = rng.choice([-1.0, -0.5, 0.0])
        f['fl'] = tfloat(lo, lo + rng.choice([0.0, 0.5, 1.0]), tag=_tag(st))
      else:
        f['fl'] = oneof([const(-0.5), const(0.25), tfloat(0.5, 1.0, tag=_tag(st))],
                        tag=_tag(st))
    elif name == 'b':
      f['b'] = oneof([const(True), const(False)], tag=_tag(st))
    elif name == 'l':
      if bad_size:
        f['l'] = choice(5, _ints(rng, 0, 9, 6), rng.random() < 0.5, False, tag=_tag(st))
      elif rng.random() < 0.7:
        n = rng.randint(2, 5)
        k = rng.randint(1, min(4, n))
        distinct, srt = rng.choice(S.MODES)
        if k == 1:
          k = 2
        if distinct and k > n:
          k = n
        f['l'] = choice(k, _ints(rng, 0, 9, n), distinct, srt, tag=_tag(st))
      else:
        f['l'] = tlist([_int_choice(st, 0, 9), const(3)][:rng.randint(1, 2)])
    elif name == 'd':
      f['d'] = tdict([['k', _int_choice(st, 0, 50)], ['m', _str_choice(st, none=True)]])
    elif name == 'dyn':
      f['dyn'] = tdict([['k%d' % j, _int_choice(st, 0, 9)]
                        for j in range(rng.randint(1, 2))])
    elif name == 'u':
      f['u'] = oneof([const(3), const('x%d' % next(st.u))], tag=_tag(st))
    elif name == 'n':
      f['n'] = oneof([const(None), const(4)], tag=_tag(st))
    elif name == 'o':
      f['o'] = (oneof([const(None), inner_obj(st)], tag=_tag(st))
                if rng.random() < 0.5 else inner_obj(st, 0.8))
    elif name == 'lo':
      if rng.random() < 0.5:
        cands = [inner_obj(st, 0.3) for _ in range(rng.randint(2, 3))]
        k = rng.randint(2, 3)
        distinct, srt = rng.choice(S.MODES)
        if distinct and k > len(cands):
          k = len(cands)
        f['lo'] = choice(k, cands, distinct, srt, tag=_tag(st))
      else:
        f['lo'] = tlist([inner_obj(st, 0.7) for _ in range(rng.randint(1, 2))])
  return tobj('Typed', list(f.items()))


def required_obj(st):
  rng = st.rng
  opt = render_space(S.random_space(rng, max_depth=1, max_elems=2, max_n=3), st, 1)
  return tobj('Required', [
      ['r', _int_choice(st, -5, 50)], ['rs', _str_choice(st)],
      ['rd', tdict([['a', _int_choice(st, 0, 9)], ['b', const(2)]])],
      ['opt', opt]])


def typed_template(st, bad_size=False):
  """A template around typed objects."""
  rng = st.rng
  r = rng.random()
  if bad_size:
    core = typed_obj(st, bad_size=True)
  elif r < 0.6:
    core = typed_obj(st)
  elif r < 0.8:
    core = required_obj(st)
  else:
    core = inner_obj(st, 1.0)
  r = rng.random()
  if r < 0.4:
    return core
  if r < 0.6:
    return tdict([['o', core], ['z', oneof([const('z0'), const('z1')], tag=_tag(st))]])
  if r < 0.8:
    return tlist([core, unique_const(st)])
  # the typed object as a candidate (conditional typed sub-template)
  return tdict([['c', oneof([unique_const(st, True), core], tag=_tag(st))]])


# Reference rules of the bound field specs (from pgverif/models.py), applied to
# canonical forms.  A placeholder left by the filter satisfies its field.

def _is_int(c, lo=None, hi=None):
  if c[0] != 'leaf' or c[1] != 'int':
    return False
  v = int(c[2])
  return (lo is None or v >= lo) and (hi is None or v <= hi)


def _is_str(c):
  return c[0] == 'leaf' and c[1] == 'str'


def _is_none(c):
  return c == ('leaf', 'NoneType', 'None')


def _is_float(c, lo, hi):
  if c[0] != 'leaf' or c[1] not in ('float', 'int'):
    return False
  v = float(c[2])
  return lo <= v <= hi


def _is_inner(c):
  return c[0] == 'obj' and c[1] == 'Inner'


def _list_of(c, pred, lo=0, hi=None):
  if c[0] != 'list':
    return False
  items = [x for x in c[1]]
  if len(items) < lo or (hi is not None and len(items) > hi):
    return False
  return all(x[0] == 'ph' or pred(x) for x in items)


def _dict_of(c, preds, dynamic=None):
  if c[0] != 'dict':
    return False
  for k, x in c[1]:
    if x[0] == 'ph':
      continue
    if k in preds:
      if not preds[k](x):
        return False
    elif dynamic is None or not dynamic(x):
      return False
  return all(k in dict(c[1]) for k in preds)


FIELD_RULES = {
    ('Inner', 'p'): lambda c: _is_int(c, 0, 5),
    ('Inner', 'q'): lambda c: _is_str(c) or _is_none(c),
    ('Typed', 'i'): lambda c: _is_int(c, 0, 9),
    ('Typed', 's'): _is_str,
    ('Typed', 'e'): lambda c: c in [_leaf('a'), _leaf('b'), _leaf('c')],
    ('Typed', 'fl'): lambda c: _is_float(c, -1.0, 1.0),
    ('Typed', 'b'): lambda c: c[0] == 'leaf' and c[1] == 'bool',
    ('Typed', 'l'): lambda c: _list_of(c, lambda x: _is_int(x, 0, 9), 1, 4),
    ('Typed', 'd'): lambda c: _dict_of(c, {'k': _is_int, 'm': lambda x: _is_str(x) or _is_none(x)}),
    ('Typed', 'dyn'): lambda c: _dict_of(c, {}, lambda x: _is_int(x, 0)),
    ('Typed', 'u'): lambda c: _is_int(c) or _is_str(c),
    ('Typed', 'n'): lambda c: _is_int(c) or _is_none(c),
    ('Typed', 'o'): lambda c: _is_inner(c) or _is_none(c),
    ('Typed', 'lo'): lambda c: _list_of(c, _is_inner, 0, 3),
    ('Required', 'r'): _is_int,
    ('Required', 'rs'): _is_str,
    ('Required', 'rd'): lambda c: _dict_of(c, {'a': _is_int, 'b': _is_int}),
}


def broken_field_rules(c, out=None):
  """['Cls.field', ...] of bound field specs that the canonical form breaks."""
  out = [] if out is None else out
  if c[0] == 'obj':
    for k, x in c[2]:
      rule = FIELD_RULES.get((c[1], k))
      if rule is not None and x[0] != 'ph' and not rule(x):
        out.append(f'{c[1]}.{k}')
  if c[0] == 'list':
    for x in c[1]:
      broken_field_rules(x, out)
  elif c[0] in ('dict', 'obj', 'ph'):
    for _, x in c[-1]:
      broken_field_rules(x, out)
  return out


# --------------------------------------------------------------------------
# Random templates and filters.
# --------------------------------------------------------------------------

def all_placeholders(T, out=None):
  out = [] if out is None else out
  if T['t'] in PLACEHOLDERS:
    out.append(T)
    if T['t'] == 'choice':
      for c in T['cands']:
        all_placeholders(c, out)
  else:
    for _, c in children(T):
      all_placeholders(c, out)
  return out


def random_where(rng, T):
  """A filter that keeps at least one placeholder of the root-level scan."""
  phs = all_placeholders(T)
  for _ in range(6):
    if rng.random() < 0.6:
      tags = sorted({p['tag'] for p in phs if p['tag'] is not None})
      if not tags:
        continue
      W = {'by': 'tag', 'keep': rng.sample(tags, rng.randint(1, max(1, len(tags) - 1)))}
    else:
      kinds = sorted({kind_of(p) for p in phs})
      W = {'by': 'kind', 'keep': rng.sample(kinds, rng.randint(1, max(1, len(kinds) - 1)))}
    if to_space(T, W)['elems']:
      return W
  return ALL


def from_space(sp, rng, tags=False, dup=0.0, evolve=0.0):
  st = State(rng, dup=dup, tags=tags, evolve=evolve)
  T = render_space(sp, st, 0)
  return T, st
