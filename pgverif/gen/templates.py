"""Hyper-template descriptions (C13).

One JSON-able *template description* is the single source from which the
harness derives

  * the real hyper value (`build`: `pg.oneof/manyof/floatv`, custom hyper
    placeholders nested in `pg.Dict`/`pg.List`/`pgverif.models` objects),
  * the search-space description in the grammar of `monitors/genoref.py`
    (`to_space`; its members are the DNAs valid for the template),
  * the *reference decoder* (`ref_decode`), written from the description and
    the documented meaning of a template: the decisions are consumed in the
    order in which the placeholders occur in the value (dict insertion order,
    list order, schema order of object fields; a pick, then the decisions of
    the picked candidate, then the next pick), every placeholder on which the
    `where` filter answers True is replaced by the value it stands for, every
    other placeholder stays (its own candidates are still searched),
  * canonical, type-precise forms of values (`canon_value`, public API only)
    and of descriptions (`canon_desc`) to compare both sides.

Grammar
  T := {'t': 'const', 'v': None|bool|int|float|str}
     | {'t': 'dict', 'items': [[key, T], ...]}
     | {'t': 'list', 'items': [T, ...]}
     | {'t': 'obj', 'cls': name in pgverif.models, 'fields': [[name, T], ...]}
     | {'t': 'choice', 'k': K, 'cands': [T, ...], 'distinct': bool,
        'sorted': bool, 'name': str|None, 'tag': str|None}        (k=1: oneof)
     | {'t': 'float', 'lo': float, 'hi': float, 'name': ..., 'tag': ...}
     | {'t': 'custom', 'form': 'str'|'dict'|'evolve', 'name': ..., 'tag': ...,
        'pool': [T, ...]}     (evolve only: placeholder-free values; pool[0] is
                               the initial value)
     | {'t': 'ref', 'path': [token, ...], 'ctor': 'reference'|'ValueReference'}
                              (a derived value, pg.hyper.reference: stands for
                               the value at `path`, searched from the container
                               that holds it up to the root; see `resolve_refs`)
     A dict may carry 'specs': {key: SPEC} and a list 'elem': SPEC: the container
     is then built with a value spec (pg.typing.Dict / pg.typing.List) to which
     the placeholders below it are bound.  An evolve placeholder may carry
     'transform': 'none'|'step' and 'weights': None|'leaves' (see
     `step_transform`, `leaf_weights`).
  SPEC := {'s': 'any'} | {'s': 'float'|'int', 'lo': num|None, 'hi': num|None,
           'none': bool} | {'s': 'list', 'elem': SPEC, 'min': int, 'max': int|None}
  W := {'by': 'all'} | {'by': 'tag', 'keep': [tag, ...]}
     | {'by': 'kind', 'keep': ['oneof'|'manyof'|'float'|'custom', ...]}

`tag` is rendered as the `hints` of the placeholder.
"""
import itertools
import json
import math
import random as pyrandom

import pyglove as pg
from pgverif import models as M
from pgverif.gen import spaces as S
from pgverif.monitors import genoref as G

PLACEHOLDERS = ('choice', 'float', 'custom')


# --------------------------------------------------------------------------
# Custom hyper placeholders of the harness.
# --------------------------------------------------------------------------

class Gen(pg.hyper.CustomHyper):
  """Genome 'xyz' stands for the string 'c:xyz'."""

  def custom_decode(self, dna):
    return 'c:' + dna.value

  def custom_encode(self, value):
    if not isinstance(value, str) or not value.startswith('c:'):
      raise ValueError(f'not a Gen value: {value!r}')
    return pg.DNA(value[2:])

  def random_dna(self, random_generator=None, previous_dna=None):
    r = random_generator or pyrandom
    return pg.DNA('g%d' % r.randint(0, 99))

  def next_dna(self, dna=None):
    if dna is None:
      return pg.DNA('g0')
    return pg.DNA('g%d' % (int(dna.value[1:]) + 1))


class GenD(pg.hyper.CustomHyper):
  """Genome 'xyz' stands for a fresh pg.Dict(g='xyz')."""

  def custom_decode(self, dna):
    return pg.Dict(g=dna.value)

  def custom_encode(self, value):
    if not isinstance(value, dict) or list(value.keys()) != ['g']:
      raise ValueError(f'not a GenD value: {value!r}')
    return pg.DNA(value['g'])

  def random_dna(self, random_generator=None, previous_dna=None):
    r = random_generator or pyrandom
    return pg.DNA('g%d' % r.randint(0, 99))

  def next_dna(self, dna=None):
    if dna is None:
      return pg.DNA('g0')
    return pg.DNA('g%d' % (int(dna.value[1:]) + 1))


def no_transform(location, value, parent):
  """node_transform of the evolvable placeholders (never mutates)."""
  del location, parent
  return value


def step_transform(location, value, parent):
  """node_transform that changes every node it is asked to transform."""
  del location, parent
  if value == pg.MISSING_VALUE:
    return 7                                    # insertion into a list
  if isinstance(value, bool):
    return not value
  if isinstance(value, int):
    return value + 1
  if isinstance(value, float):
    return value + 1.0
  if isinstance(value, str):
    return value + 'm'
  if value is None:
    return 'n'
  return pg.List([0])


def leaf_weights(mutation_type, location, value, parent):
  """Mutation weights: replace leaves only; insert / delete anywhere."""
  del location, parent
  if mutation_type == pg.hyper.MutationType.REPLACE:
    return 0.0 if isinstance(value, pg.Symbolic) else 1.0
  return 1.0


TRANSFORMS = {'none': no_transform, 'step': step_transform}
WEIGHTS = {None: None, 'leaves': leaf_weights}

GENOMES = ['', 'abc', 'x,y', '0', 'g7']

# Fields of the models classes in schema order (the order in which a template
# scans an object), and the canonical form of the fields that descriptions
# never list.
CLASS_FIELDS = {
    'Any2': ['x', 'y'],
    'Inner': ['p', 'q'],
    'Typed': ['i', 's', 'e', 'fl', 'b', 'l', 'd', 'dyn', 'u', 'n', 'fz', 'o',
              'lo', 't'],
    'Required': ['r', 'rs', 'rd', 'opt'],
    'Bounds': ['z', 'nz', 'm', 'zi', 'neg', 'i0', 'ip', 'lz'],
}
UNLISTED = {
    'Typed': {'fz': ('leaf', 'int', '7'), 't': ('leaf', 'NoneType', 'None')},
}


# --------------------------------------------------------------------------
# Constructors.
# --------------------------------------------------------------------------

def const(v):
  return {'t': 'const', 'v': v}


def tdict(items, specs=None):
  out = {'t': 'dict', 'items': [[k, v] for k, v in items]}
  if specs:
    out['specs'] = dict(specs)
  return out


def tlist(items, elem=None):
  out = {'t': 'list', 'items': list(items)}
  if elem:
    out['elem'] = elem
  return out


def tobj(cls, fields):
  order = CLASS_FIELDS[cls]
  fields = sorted(fields, key=lambda kv: order.index(kv[0]))
  return {'t': 'obj', 'cls': cls, 'fields': [[k, v] for k, v in fields]}


def choice(k, cands, distinct=True, sorted=False, name=None, tag=None):  # pylint: disable=redefined-builtin
  return {'t': 'choice', 'k': k, 'cands': list(cands), 'distinct': distinct,
          'sorted': sorted, 'name': name, 'tag': tag}


def oneof(cands, name=None, tag=None):
  return choice(1, cands, True, False, name, tag)


def tfloat(lo, hi, name=None, tag=None):
  return {'t': 'float', 'lo': float(lo), 'hi': float(hi), 'name': name,
          'tag': tag}


def tcustom(form='str', name=None, tag=None, pool=None, transform=None,
            weights=None):
  out = {'t': 'custom', 'form': form, 'name': name, 'tag': tag,
         'pool': list(pool or [])}
  if transform:
    out['transform'] = transform
    out['weights'] = weights
  return out


def tref(path, ctor='reference'):
  """A value reference; `path`: tokens ('k', key) | ('i', index)."""
  return {'t': 'ref', 'path': [list(t) for t in path], 'ctor': ctor}


def ref_path(T):
  """The reference path of a 'ref' description in KeyPath syntax."""
  return G.render_id([tuple(t) for t in T['path']])


def children(T):
  """(path token, child) of a container description."""
  t = T['t']
  if t == 'dict':
    return [(('k', k), c) for k, c in T['items']]
  if t == 'list':
    return [(('i', i), c) for i, c in enumerate(T['items'])]
  if t == 'obj':
    return [(('k', k), c) for k, c in T['fields']]
  return []


def kind_of(T):
  """'oneof' | 'manyof' | 'float' | 'custom' (the class a filter sees)."""
  if T['t'] == 'choice':
    return 'oneof' if T['k'] == 1 else 'manyof'
  return T['t']


def key_kind(T):
  """Stable class name for mechanism keys (genoref naming)."""
  if T['t'] == 'choice':
    return G.kind(T)
  if T['t'] == 'custom':
    return 'evolve' if T['form'] == 'evolve' else 'custom'
  return T['t']


# --------------------------------------------------------------------------
# The `where` filter.
# --------------------------------------------------------------------------

ALL = {'by': 'all'}


def keep(W, T):
  """Reference predicate: is this placeholder part of the search space?"""
  if W['by'] == 'all':
    return True
  if W['by'] == 'tag':
    return T['tag'] in W['keep']
  return kind_of(T) in W['keep']


def where_fn(W):
  """The real `where` callable (reads public attributes only)."""
  if W['by'] == 'all':
    return None
  if W['by'] == 'tag':
    tags = list(W['keep'])
    return lambda x: x.hints in tags
  classes = tuple({'oneof': pg.hyper.OneOf, 'manyof': pg.hyper.ManyOf,
                   'float': pg.hyper.Float,
                   'custom': pg.hyper.CustomHyper}[k] for k in W['keep'])
  return lambda x: isinstance(x, classes)


# --------------------------------------------------------------------------
# Description -> real value.
# --------------------------------------------------------------------------

def build(T, plain_root=False, dynamic=False):
  """Real (hyper) value of a description; fresh objects on every call.

  plain_root: the root container is a built-in dict/list.
  dynamic: for DynamicEvaluationContext — candidates that contain placeholders
    are wrapped in zero-argument lambdas (the documented way to express
    conditional spaces in dynamic evaluation mode).
  """
  t = T['t']
  if t == 'const':
    return T['v']
  if t == 'dict':
    items = {k: build(c, dynamic=dynamic) for k, c in T['items']}
    if T.get('specs') and not plain_root:
      return pg.Dict(items, value_spec=pg.typing.Dict([
          (k, real_spec(T['specs'].get(k, SPEC_ANY))) for k, _ in T['items']]))
    return items if plain_root else pg.Dict(items)
  if t == 'list':
    items = [build(c, dynamic=dynamic) for c in T['items']]
    if T.get('elem') and not plain_root:
      return pg.List(items, value_spec=pg.typing.List(real_spec(T['elem'])))
    return items if plain_root else pg.List(items)
  if t == 'obj':
    cls = getattr(M, T['cls'])
    return cls(**{k: build(c, dynamic=dynamic) for k, c in T['fields']})
  if t == 'float':
    return pg.floatv(T['lo'], T['hi'], name=T['name'], hints=T['tag'])
  if t == 'ref':
    if T['ctor'] == 'reference':
      return pg.hyper.reference(ref_path(T))
    return pg.hyper.ValueReference(reference_paths=[ref_path(T)])
  if t == 'custom':
    if T['form'] == 'evolve':
      return pg.evolve(build(T['pool'][0]),
                       TRANSFORMS[T.get('transform') or 'none'],
                       weights=WEIGHTS[T.get('weights')], name=T['name'],
                       hints=T['tag'])
    cls = Gen if T['form'] == 'str' else GenD
    return cls(name=T['name'], hints=T['tag'])
  cands = []
  for c in T['cands']:
    if dynamic and has_placeholder(c):
      cands.append(_thunk(c))
    else:
      cands.append(build(c, dynamic=dynamic))
  if T['k'] == 1:
    return pg.oneof(cands, name=T['name'], hints=T['tag'])
  return pg.manyof(T['k'], cands, distinct=T['distinct'], sorted=T['sorted'],
                   name=T['name'], hints=T['tag'])


def _thunk(c):
  return lambda: build(c, dynamic=True)


def has_placeholder(T):
  if T['t'] in PLACEHOLDERS:
    return True
  return any(has_placeholder(c) for _, c in children(T))


def genome_of(E):
  """Genome of an evolvable placeholder standing for value description E."""
  return pg.to_json_str(build(E))


# --------------------------------------------------------------------------
# Description -> search space (genoref grammar).
# --------------------------------------------------------------------------

def to_space(T, W=ALL):
  elems = []
  _scan(T, W, (), elems)
  return {'t': 'space', 'elems': elems}


def _scan(T, W, path, out):
  t = T['t']
  if t not in PLACEHOLDERS:
    for tok, c in children(T):
      _scan(c, W, path + (tok,), out)
    return
  if keep(W, T):
    loc = G.render_id(path)
    if t == 'choice':
      out.append(S.choice(T['k'], [to_space(c, W) for c in T['cands']],
                          T['distinct'], T['sorted'], loc, T['name']))
    elif t == 'float':
      out.append(S.floatv(T['lo'], T['hi'], loc, T['name']))
    else:
      e = S.custom(loc, T['name'])
      if T['form'] == 'evolve':
        e['genomes'] = 'evolve'
      out.append(e)
  elif t == 'choice':
    # A placeholder that is not part of the space is an ordinary object whose
    # `candidates` list is searched like any other container.
    for i, c in enumerate(T['cands']):
      _scan(c, W, path + (('k', 'candidates'), ('i', i)), out)


def top_placeholders(T, W=ALL, path=()):
  """[(path tokens, placeholder description)] of the root-level scan."""
  out = []
  t = T['t']
  if t not in PLACEHOLDERS:
    for tok, c in children(T):
      out.extend(top_placeholders(c, W, path + (tok,)))
  elif keep(W, T):
    out.append((path, T))
  elif t == 'choice':
    for i, c in enumerate(T['cands']):
      out.extend(top_placeholders(c, W, path + (('k', 'candidates'), ('i', i))))
  return out


# --------------------------------------------------------------------------
# Reference decoder and member sampler.
# --------------------------------------------------------------------------

class DecodeError(Exception):
  pass


def ref_decode(T, W, flat):
  """Description of the value that the decisions `flat` stand for."""
  it = iter(flat)
  out = _dec(T, W, it)
  rest = list(it)
  if rest:
    raise DecodeError(f'unused decisions {rest!r}')
  if has_ref(out):
    out = resolve_refs(out)
  return out


def _dec(T, W, it):
  t = T['t']
  if t == 'const' or t == 'ref':
    return T
  if t == 'dict':
    return dict(T, items=[[k, _dec(c, W, it)] for k, c in T['items']])
  if t == 'list':
    return dict(T, items=[_dec(c, W, it) for c in T['items']])
  if t == 'obj':
    return {'t': 'obj', 'cls': T['cls'],
            'fields': [[k, _dec(c, W, it)] for k, c in T['fields']]}
  if not keep(W, T):
    if t == 'choice':
      return dict(T, cands=[_dec(c, W, it) for c in T['cands']])
    return T
  if t == 'float':
    v = next(it)
    if not isinstance(v, float) or not T['lo'] <= v <= T['hi']:
      raise DecodeError(f'bad float decision {v!r}')
    return const(v)
  if t == 'custom':
    v = next(it)
    if not isinstance(v, str):
      raise DecodeError(f'bad custom decision {v!r}')
    if T['form'] == 'str':
      return const('c:' + v)
    if T['form'] == 'dict':
      return tdict([['g', const(v)]])
    for E in T['pool']:
      if genome_of(E) == v:
        return E
    # Any other genome: the documented encoding of an evolvable value is its
    # JSON text (harness-side parse, see `desc_from_json`).
    try:
      return desc_from_json(json.loads(v))
    except (ValueError, KeyError, TypeError) as e:
      raise DecodeError(f'genome of an evolvable placeholder not understood: {e}')
  picks, items = [], []
  for _ in range(T['k']):
    p = next(it)
    if isinstance(p, bool) or not isinstance(p, int) or not 0 <= p < len(T['cands']):
      raise DecodeError(f'bad pick {p!r}')
    if T['k'] > 1 and T['distinct'] and p in picks:
      raise DecodeError('picks not distinct')
    if T['k'] > 1 and T['sorted'] and picks and p < picks[-1]:
      raise DecodeError('picks not sorted')
    picks.append(p)
    items.append(_dec(T['cands'][p], W, it))
  return items[0] if T['k'] == 1 else tlist(items)


def random_member(T, W, rng):
  """A random valid decision sequence (harness-side sampler)."""
  out = []
  _rand(T, W, rng, out)
  return tuple(out)


def extreme_member(T, W, rng, end):
  """A random member whose float decisions all sit on the `end` ('lo'|'hi')
  of their range."""
  out = []
  _rand(T, W, rng, out, end)
  return tuple(out)


def _rand(T, W, rng, out, end=None):
  t = T['t']
  if t not in PLACEHOLDERS:
    for _, c in children(T):
      _rand(c, W, rng, out, end)
    return
  if not keep(W, T):
    if t == 'choice':
      for c in T['cands']:
        _rand(c, W, rng, out, end)
    return
  if t == 'float':
    if end:
      out.append(T[end])
    else:
      out.append(rng.choice([T['lo'], T['hi'], rng.uniform(T['lo'], T['hi'])]))
  elif t == 'custom':
    if T['form'] == 'evolve':
      out.append(genome_of(rng.choice(T['pool'])))
    else:
      out.append(rng.choice(GENOMES))
  else:
    n, k = len(T['cands']), T['k']
    if T['distinct'] and k > 1:
      picks = rng.sample(range(n), k)
    else:
      picks = [rng.randrange(n) for _ in range(k)]
    if T['sorted']:
      picks.sort()
    for p in picks:
      out.append(p)
      _rand(T['cands'][p], W, rng, out, end)


# --------------------------------------------------------------------------
# Canonical forms.
#   ('leaf', type name, repr) | ('dict', ((k, c)...)) | ('list', (c...))
#   ('obj', class name, ((k, c)...)) | ('ph', kind, ((k, c)...))
# Keys are sorted; the forms are type precise (1, 1.0 and True differ).
# --------------------------------------------------------------------------

def _leaf(v):
  return ('leaf', type(v).__name__, repr(v))


def canon_desc(T):
  t = T['t']
  if t == 'const':
    return _leaf(T['v'])
  if t == 'dict':
    return ('dict', tuple(sorted((k, canon_desc(c)) for k, c in T['items'])))
  if t == 'list':
    return ('list', tuple(canon_desc(c) for c in T['items']))
  if t == 'obj':
    items = {k: canon_desc(c) for k, c in T['fields']}
    items.update(UNLISTED.get(T['cls'], {}))
    return ('obj', T['cls'], tuple(sorted(items.items())))
  if t == 'ref':
    return ('obj', 'ValueReference', (('reference_paths', ('list', (
        _leaf(pg.KeyPath.parse(ref_path(T))),))),))
  base = [('name', _leaf(T['name'])), ('hints', _leaf(T['tag']))]
  if t == 'float':
    return ('ph', 'float', tuple(sorted(base + [
        ('min_value', _leaf(T['lo'])), ('max_value', _leaf(T['hi']))])))
  if t == 'custom':
    if T['form'] == 'evolve':
      return ('ph', 'evolve', tuple(sorted(base + [
          ('initial_value', canon_desc(T['pool'][0]))])))
    return ('ph', 'Gen' if T['form'] == 'str' else 'GenD', tuple(sorted(base)))
  return ('ph', 'oneof' if T['k'] == 1 else 'manyof', tuple(sorted(base + [
      ('num_choices', _leaf(T['k'])),
      ('choices_distinct', _leaf(T['distinct'])),
      ('choices_sorted', _leaf(T['sorted'])),
      ('candidates', ('list', tuple(canon_desc(c) for c in T['cands'])))])))


def canon_value(v):
  """Canonical form of a real value, read through public API only."""
  if isinstance(v, pg.hyper.HyperPrimitive):
    base = [('name', _leaf(v.name)), ('hints', _leaf(v.hints))]
    if isinstance(v, pg.hyper.Float):
      return ('ph', 'float', tuple(sorted(base + [
          ('min_value', _leaf(v.min_value)), ('max_value', _leaf(v.max_value))])))
    if isinstance(v, pg.hyper.Evolvable):
      return ('ph', 'evolve', tuple(sorted(base + [
          ('initial_value', canon_value(v.initial_value))])))
    if isinstance(v, pg.hyper.CustomHyper):
      return ('ph', type(v).__name__, tuple(sorted(base)))
    if isinstance(v, pg.hyper.Choices):
      return ('ph', 'oneof' if isinstance(v, pg.hyper.OneOf) else 'manyof',
              tuple(sorted(base + [
                  ('num_choices', _leaf(v.num_choices)),
                  ('choices_distinct', _leaf(v.choices_distinct)),
                  ('choices_sorted', _leaf(v.choices_sorted)),
                  ('candidates', canon_value(v.candidates))])))
    return ('ph', type(v).__name__, tuple(sorted(base)))
  if isinstance(v, pg.Object):
    return ('obj', type(v).__name__,
            tuple(sorted((str(k), canon_value(x)) for k, x in v.sym_items())))
  if isinstance(v, pg.Dict):
    return ('dict', tuple(sorted((str(k), canon_value(x)) for k, x in v.sym_items())))
  if isinstance(v, dict):
    return ('dict', tuple(sorted((str(k), canon_value(x)) for k, x in v.items())))
  if isinstance(v, pg.List):
    return ('list', tuple(canon_value(x) for _, x in v.sym_items()))
  if isinstance(v, (list, tuple)):
    return ('list', tuple(canon_value(x) for x in v))
  return _leaf(v)


def canon_get(c, path):
  """Sub-form at path tokens; None if the path does not exist."""
  for tok in path:
    if c is None:
      return None
    if c[0] == 'list':
      c = c[1][tok[1]] if tok[0] == 'i' and 0 <= tok[1] < len(c[1]) else None
    elif c[0] in ('dict', 'obj', 'ph'):
      items = dict(c[-1])
      c = items.get(tok[1]) if tok[0] == 'k' else None
    else:
      c = None
  return c


def canon_placeholders(c, out=None):
  """All placeholder forms inside a canonical form."""
  out = [] if out is None else out
  if c[0] == 'ph':
    out.append(c)
  if c[0] == 'list':
    for x in c[1]:
      canon_placeholders(x, out)
  elif c[0] in ('dict', 'obj', 'ph'):
    for _, x in c[-1]:
      canon_placeholders(x, out)
  return out


def eq_key(c):
  """Canonical form -> a key under which `==`-equal values collide
  (1 == 1.0 == True; 0.0 == -0.0): leaves become the raw Python value."""
  if c[0] == 'leaf':
    if c[1] == 'bool':
      return ('num', 1.0 if c[2] == 'True' else 0.0)
    if c[1] == 'int':
      return ('num', float(int(c[2])))
    if c[1] == 'float':
      return ('num', float(c[2]) + 0.0 if float(c[2]) != 0 else 0.0)
    return c
  if c[0] == 'list':
    return ('list', tuple(eq_key(x) for x in c[1]))
  return c[:-1] + (tuple((k, eq_key(x)) for k, x in c[-1]),)


# --------------------------------------------------------------------------
# Distinguishability of candidates (decides whether the inverse law applies).
# --------------------------------------------------------------------------

def may_overlap(A, B, W):
  """Over-approximation: can A and B stand for `==`-equal values?"""
  if A['t'] == 'ref' or B['t'] == 'ref':
    return True                      # a reference stands for any value
  a_ph = A['t'] in PLACEHOLDERS and keep(W, A)
  b_ph = B['t'] in PLACEHOLDERS and keep(W, B)
  if b_ph and not a_ph:
    return may_overlap(B, A, W)
  if a_ph:
    if A['t'] == 'custom' and A['form'] == 'evolve':
      return True
    if b_ph and B['t'] == 'custom' and B['form'] == 'evolve':
      return True
    if A['t'] == 'choice' and A['k'] == 1:
      return any(may_overlap(c, B, W) for c in A['cands'])
    if b_ph and B['t'] == 'choice' and B['k'] == 1:
      return any(may_overlap(A, c, W) for c in B['cands'])
    if A['t'] == 'choice':
      if b_ph:
        return B['t'] == 'choice' and B['k'] == A['k'] and any(
            may_overlap(x, y, W) for x in A['cands'] for y in B['cands'])
      return (B['t'] == 'list' and len(B['items']) == A['k'] and all(
          any(may_overlap(c, item, W) for c in A['cands']) for item in B['items']))
    if A['t'] == 'float':
      if b_ph:
        return B['t'] == 'float' and A['lo'] <= B['hi'] and B['lo'] <= A['hi']
      return (B['t'] == 'const' and isinstance(B['v'], (bool, int, float))
              and A['lo'] <= B['v'] <= A['hi'])
    # Gen / GenD
    if b_ph:
      return B['t'] == 'custom' and B['form'] == A['form']
    if A['form'] == 'str':
      return (B['t'] == 'const' and isinstance(B['v'], str)
              and B['v'].startswith('c:'))
    return B['t'] == 'dict' and [k for k, _ in B['items']] == ['g']
  # Neither is an active placeholder.
  if A['t'] != B['t']:
    return False
  if A['t'] == 'const':
    return A['v'] == B['v']
  if A['t'] == 'dict':
    da, db = dict(A['items']), dict(B['items'])
    return set(da) == set(db) and all(may_overlap(da[k], db[k], W) for k in da)
  if A['t'] == 'list':
    return len(A['items']) == len(B['items']) and all(
        may_overlap(x, y, W) for x, y in zip(A['items'], B['items']))
  if A['t'] == 'obj':
    fa, fb = dict(A['fields']), dict(B['fields'])
    return A['cls'] == B['cls'] and all(
        may_overlap(fa[k], fb[k], W) for k in fa if k in fb)
  # Two placeholders outside the space: ordinary objects.
  if A['t'] == 'choice':
    return (len(A['cands']) == len(B['cands']) and A['k'] == B['k'] and all(
        may_overlap(x, y, W) for x, y in zip(A['cands'], B['cands'])))
  return True


def distinguishable(T, W=ALL):
  """True when, for every choice of the space, no two candidates can stand
  for equal values (so encode has exactly one DNA to return)."""
  t = T['t']
  if t == 'choice':
    if keep(W, T):
      cs = T['cands']
      for i in range(len(cs)):
        for j in range(i + 1, len(cs)):
          if may_overlap(cs[i], cs[j], W):
            return False
    return all(distinguishable(c, W) for c in T['cands'])
  return all(distinguishable(c, W) for _, c in children(T))


def where_in_candidate(T, W, inside=False):
  """Does a candidate of a placeholder of the space contain a placeholder
  that the filter leaves out?"""
  t = T['t']
  if t in PLACEHOLDERS:
    if not keep(W, T):
      if inside:
        return True
      return t == 'choice' and any(where_in_candidate(c, W, inside) for c in T['cands'])
    return t == 'choice' and any(where_in_candidate(c, W, True) for c in T['cands'])
  return any(where_in_candidate(c, W, inside) for _, c in children(T))


# --------------------------------------------------------------------------
# Rendering for samples and witnesses.
# --------------------------------------------------------------------------

def show(T):
  t = T['t']
  if t == 'const':
    return repr(T['v'])
  if t == 'ref':
    return f"{T['ctor']}({ref_path(T)!r})"
  if t == 'dict':
    sp = T.get('specs') or {}
    return '{' + ', '.join(
        f'{k}' + (f'<{show_spec(sp[k])}>' if k in sp else '') + f': {show(c)}'
        for k, c in T['items']) + '}'
  if t == 'list':
    return '[' + ', '.join(show(c) for c in T['items']) + ']' + (
        f"<{show_spec(T['elem'])}>" if T.get('elem') else '')
  if t == 'obj':
    return T['cls'] + '(' + ', '.join(f'{k}={show(c)}' for k, c in T['fields']) + ')'
  deco = ''.join([('@' + T['name']) if T['name'] else '',
                  ('#' + T['tag']) if T['tag'] else ''])
  if t == 'float':
    return f"floatv({T['lo']}, {T['hi']}){deco}"
  if t == 'custom':
    if T['form'] == 'evolve':
      extra = ''
      if T.get('transform'):
        extra = f", {T['transform']}, weights={T.get('weights')}"
      return 'evolve(' + show(T['pool'][0]) + extra + ')' + deco
    return ('Gen()' if T['form'] == 'str' else 'GenD()') + deco
  cands = '[' + ', '.join(show(c) for c in T['cands']) + ']'
  if T['k'] == 1:
    return f'oneof({cands}){deco}'
  flags = ('' if T['distinct'] else ', distinct=False') + (
      ', sorted=True' if T['sorted'] else '')
  return f"manyof({T['k']}, {cands}{flags}){deco}"


def show_where(W):
  if W['by'] == 'all':
    return 'None'
  if W['by'] == 'tag':
    return f"lambda x: x.hints in {W['keep']!r}"
  return f"lambda x: isinstance(x, {'/'.join(W['keep'])})"


# --------------------------------------------------------------------------
# Rendering a search-space description as a template.
# --------------------------------------------------------------------------

class State:
  """Per-template counters (unique constants, keys)."""

  def __init__(self, rng, dup=0.0, tags=False, typed=0.25, evolve=0.0):
    self.rng = rng
    self.u = itertools.count()
    self.dup, self.tags, self.typed, self.evolve = dup, tags, typed, evolve
    self.used_singletons = set()
    self.has_dup = False
    self.outside = True     # bound_template: ranges may leave the field spec
    self.hot_end = 0        # ... at their lower (+1) / upper (-1) end


def unique_const(st, simple=False):
  """A constant (or constant container) not `==` to any other one drawn."""
  rng = st.rng
  i = next(st.u)
  r = rng.random()
  if r < 0.4:
    leaf = const('u%d' % i)
  elif r < 0.6:
    leaf = const(100 + i)
  elif r < 0.7:
    leaf = const(100.5 + i)
  elif r < 0.8:
    pick = rng.choice([None, True, False])
    if repr(pick) in st.used_singletons:
      leaf = const('u%d' % i)
    else:
      st.used_singletons.add(repr(pick))
      leaf = const(pick)
  else:
    leaf = const('w%d' % i)
  if simple or rng.random() < 0.7:
    return leaf
  shape = rng.choice(['dict', 'list', 'any2', 'inner', 'nested'])
  if shape == 'dict':
    return tdict([['m', leaf]])
  if shape == 'list':
    return tlist([leaf, const(0)])
  if shape == 'any2':
    return tobj('Any2', [['x', leaf], ['y', tlist([const(1)])]])
  if shape == 'inner':
    return tobj('Inner', [['p', const(i % 6)], ['q', const('q%d' % i)]])
  return tdict([['m', tdict([['n', tlist([leaf])]])]])


def _tag(st):
  return st.rng.choice(['k', 's']) if st.tags else st.rng.choice([None, None, 'h'])


def render_space(sp, st, depth=0):
  """Template description whose space is isomorphic to `sp` (locations are
  recomputed by `to_space`)."""
  rng = st.rng
  if not sp['elems']:
    return unique_const(st)
  phs = [render_elem(e, st, depth) for e in sp['elems']]
  if len(phs) == 1 and rng.random() < (0.3 if depth == 0 else 0.45):
    return phs[0]
  shape = rng.choice(['dict', 'dict', 'dict', 'list', 'obj'])
  if shape == 'obj' and len(phs) <= 2:
    fields = list(zip(rng.sample(['x', 'y'], len(phs)), phs))
    if len(fields) == 1:
      other = 'y' if fields[0][0] == 'x' else 'x'
      fields.append((other, unique_const(st)))
    return tobj('Any2', fields)
  slots = []
  for p in phs:
    r = rng.random()
    if r < 0.7:
      slots.append(p)
    elif r < 0.85:
      slots.append(tdict([['in', p]] + ([['c', unique_const(st, True)]]
                                        if rng.random() < 0.5 else [])))
    else:
      slots.append(tlist([unique_const(st, True), p]))
  for _ in range(rng.choice([0, 0, 0, 1, 2]) if depth == 0 else rng.choice([0, 0, 0, 1])):
    slots.insert(rng.randrange(len(slots) + 1), unique_const(st))
  if shape == 'list':
    return tlist(slots)
  keys = ['a', 'b', 'c', 'd', 'e', 'f', 'g2', 'h']
  if rng.random() < 0.3:
    rng.shuffle(keys)
  return tdict(list(zip(keys, slots)))


def without_names(T):
  """Copy of a description whose placeholders are anonymous (decision point
  names must be unique in a space)."""
  if T['t'] == 'const':
    return T
  out = dict(T)
  if 'name' in out:
    out['name'] = None
  for key in ('items', 'fields'):
    if key in out:
      out[key] = [[k, without_names(c)] for k, c in out[key]] if T['t'] != 'list' else [
          without_names(c) for c in out[key]]
  if 'cands' in out:
    out['cands'] = [without_names(c) for c in out['cands']]
  return out


def render_elem(e, st, depth):
  rng = st.rng
  if e['t'] == 'float':
    return tfloat(e['lo'], e['hi'], e.get('name'), _tag(st))
  if e['t'] == 'custom':
    if st.evolve and rng.random() < st.evolve:
      pool = [unique_const(st) for _ in range(3)]
      pool = [p if p['t'] != 'const' else tdict([['v', p]]) for p in pool]
      return tcustom('evolve', e.get('name'), _tag(st), pool)
    return tcustom(rng.choice(['str', 'str', 'dict']), e.get('name'), _tag(st))
  cands = [render_space(c, st, depth + 1) for c in e['cands']]
  if st.dup and len(cands) >= 2 and rng.random() < st.dup:
    i, j = rng.sample(range(len(cands)), 2)
    if cands[i]['t'] == 'const' and isinstance(cands[i]['v'], int) and rng.random() < 0.5:
      cands[j] = const(float(cands[i]['v']))      # 101 vs 101.0
    else:
      cands[j] = without_names(cands[i])
    st.has_dup = True
  return choice(e['k'], cands, e['distinct'], e['sorted'], e.get('name'), _tag(st))


# --------------------------------------------------------------------------
# Typed objects: placeholders bound to the value specs of pgverif.models.
# --------------------------------------------------------------------------

def _ints(rng, lo, hi, n):
  return [const(v) for v in rng.sample(range(lo, hi + 1), n)]


def _int_choice(st, lo, hi):
  """oneof over distinct ints of [lo, hi], sometimes with a nested oneof."""
  rng = st.rng
  n = rng.randint(2, min(4, hi - lo + 1))
  vals = _ints(rng, lo, hi, n)
  if n >= 3 and rng.random() < 0.35:
    vals = [vals[0], oneof(vals[1:], tag=_tag(st))]
    rng.shuffle(vals)
  return oneof(vals, tag=_tag(st))


def _str_choice(st, none=False):
  rng = st.rng
  vals = [const('t%d' % next(st.u)) for _ in range(rng.randint(1, 3))]
  if none:
    vals.insert(rng.randrange(len(vals) + 1), const(None))
  return oneof(vals, tag=_tag(st))


def inner_obj(st, p_hyper=0.5):
  rng = st.rng
  p = _int_choice(st, 0, 5) if rng.random() < p_hyper else const(rng.randint(0, 5))
  q = _str_choice(st, none=True) if rng.random() < p_hyper else const(
      rng.choice([None, 'q%d' % next(st.u)]))
  return tobj('Inner', [['p', p], ['q', q]])


def typed_obj(st, bad_size=False):
  """A Typed object with placeholders in fields of every spec shape."""
  rng = st.rng
  f = {
      'i': const(1), 's': const('a'), 'e': const('a'), 'fl': const(0.0),
      'b': const(False), 'l': tlist([const(1)]),
      'd': tdict([['k', const(0)], ['m', const(None)]]), 'dyn': tdict([]),
      'u': const(0), 'n': const(None), 'o': const(None), 'lo': tlist([]),
  }
  names = rng.sample(sorted(f), rng.randint(1, 4))
  if bad_size and 'l' not in names:
    names.append('l')
  for name in names:
    if name == 'i':
      f['i'] = _int_choice(st, 0, 9)
    elif name == 's':
      f['s'] = _str_choice(st)
    elif name == 'e':
      f['e'] = oneof([const(v) for v in rng.sample(['a', 'b', 'c'], rng.randint(2, 3))],
                     tag=_tag(st))
    elif name == 'fl':
      if rng.random() < 0.6:
        lo = rng.choice([-1.0, -0.5, 0.0])
        f['fl'] = tfloat(lo, lo + rng.choice([0.0, 0.5, 1.0]), tag=_tag(st))
      else:
        f['fl'] = oneof([const(-0.5), const(0.25), tfloat(0.5, 1.0, tag=_tag(st))],
                        tag=_tag(st))
    elif name == 'b':
      f['b'] = oneof([const(True), const(False)], tag=_tag(st))
    elif name == 'l':
      if bad_size:
        f['l'] = choice(5, _ints(rng, 0, 9, 6), rng.random() < 0.5, False, tag=_tag(st))
      elif rng.random() < 0.7:
        n = rng.randint(2, 5)
        k = rng.randint(1, min(4, n))
        distinct, srt = rng.choice(S.MODES)
        if k == 1:
          k = 2
        if distinct and k > n:
          k = n
        f['l'] = choice(k, _ints(rng, 0, 9, n), distinct, srt, tag=_tag(st))
      else:
        f['l'] = tlist([_int_choice(st, 0, 9), const(3)][:rng.randint(1, 2)])
    elif name == 'd':
      f['d'] = tdict([['k', _int_choice(st, 0, 50)], ['m', _str_choice(st, none=True)]])
    elif name == 'dyn':
      f['dyn'] = tdict([['k%d' % j, _int_choice(st, 0, 9)]
                        for j in range(rng.randint(1, 2))])
    elif name == 'u':
      f['u'] = oneof([const(3), const('x%d' % next(st.u))], tag=_tag(st))
    elif name == 'n':
      f['n'] = oneof([const(None), const(4)], tag=_tag(st))
    elif name == 'o':
      f['o'] = (oneof([const(None), inner_obj(st)], tag=_tag(st))
                if rng.random() < 0.5 else inner_obj(st, 0.8))
    elif name == 'lo':
      if rng.random() < 0.5:
        cands = [inner_obj(st, 0.3) for _ in range(rng.randint(2, 3))]
        k = rng.randint(2, 3)
        distinct, srt = rng.choice(S.MODES)
        if distinct and k > len(cands):
          k = len(cands)
        f['lo'] = choice(k, cands, distinct, srt, tag=_tag(st))
      else:
        f['lo'] = tlist([inner_obj(st, 0.7) for _ in range(rng.randint(1, 2))])
  return tobj('Typed', list(f.items()))


def required_obj(st):
  rng = st.rng
  opt = render_space(S.random_space(rng, max_depth=1, max_elems=2, max_n=3), st, 1)
  return tobj('Required', [
      ['r', _int_choice(st, -5, 50)], ['rs', _str_choice(st)],
      ['rd', tdict([['a', _int_choice(st, 0, 9)], ['b', const(2)]])],
      ['opt', opt]])


def typed_template(st, bad_size=False):
  """A template around typed objects."""
  rng = st.rng
  r = rng.random()
  if bad_size:
    core = typed_obj(st, bad_size=True)
  elif r < 0.6:
    core = typed_obj(st)
  elif r < 0.8:
    core = required_obj(st)
  else:
    core = inner_obj(st, 1.0)
  r = rng.random()
  if r < 0.4:
    return core
  if r < 0.6:
    return tdict([['o', core], ['z', oneof([const('z0'), const('z1')], tag=_tag(st))]])
  if r < 0.8:
    return tlist([core, unique_const(st)])
  # the typed object as a candidate (conditional typed sub-template)
  return tdict([['c', oneof([unique_const(st, True), core], tag=_tag(st))]])


# Reference rules of the bound field specs (from pgverif/models.py), applied to
# canonical forms.  A placeholder left by the filter satisfies its field.

def _is_int(c, lo=None, hi=None):
  if c[0] != 'leaf' or c[1] != 'int':
    return False
  v = int(c[2])
  return (lo is None or v >= lo) and (hi is None or v <= hi)


def _is_str(c):
  return c[0] == 'leaf' and c[1] == 'str'


def _is_none(c):
  return c == ('leaf', 'NoneType', 'None')


def _is_float(c, lo, hi):
  if c[0] != 'leaf' or c[1] not in ('float', 'int'):
    return False
  v = float(c[2])
  return lo <= v <= hi


def _is_inner(c):
  return c[0] == 'obj' and c[1] == 'Inner'


def _list_of(c, pred, lo=0, hi=None):
  if c[0] != 'list':
    return False
  items = [x for x in c[1]]
  if len(items) < lo or (hi is not None and len(items) > hi):
    return False
  return all(x[0] == 'ph' or pred(x) for x in items)


def _dict_of(c, preds, dynamic=None):
  if c[0] != 'dict':
    return False
  for k, x in c[1]:
    if x[0] == 'ph':
      continue
    if k in preds:
      if not preds[k](x):
        return False
    elif dynamic is None or not dynamic(x):
      return False
  return all(k in dict(c[1]) for k in preds)


FIELD_RULES = {
    ('Inner', 'p'): lambda c: _is_int(c, 0, 5),
    ('Inner', 'q'): lambda c: _is_str(c) or _is_none(c),
    ('Typed', 'i'): lambda c: _is_int(c, 0, 9),
    ('Typed', 's'): _is_str,
    ('Typed', 'e'): lambda c: c in [_leaf('a'), _leaf('b'), _leaf('c')],
    ('Typed', 'fl'): lambda c: _is_float(c, -1.0, 1.0),
    ('Typed', 'b'): lambda c: c[0] == 'leaf' and c[1] == 'bool',
    ('Typed', 'l'): lambda c: _list_of(c, lambda x: _is_int(x, 0, 9), 1, 4),
    ('Typed', 'd'): lambda c: _dict_of(c, {'k': _is_int, 'm': lambda x: _is_str(x) or _is_none(x)}),
    ('Typed', 'dyn'): lambda c: _dict_of(c, {}, lambda x: _is_int(x, 0)),
    ('Typed', 'u'): lambda c: _is_int(c) or _is_str(c),
    ('Typed', 'n'): lambda c: _is_int(c) or _is_none(c),
    ('Typed', 'o'): lambda c: _is_inner(c) or _is_none(c),
    ('Typed', 'lo'): lambda c: _list_of(c, _is_inner, 0, 3),
    ('Required', 'r'): _is_int,
    ('Required', 'rs'): _is_str,
    ('Required', 'rd'): lambda c: _dict_of(c, {'a': _is_int, 'b': _is_int}),
}


def broken_field_rules(c, out=None):
  """['Cls.field', ...] of bound field specs that the canonical form breaks."""
  out = [] if out is None else out
  if c[0] == 'obj':
    for k, x in c[2]:
      rule = FIELD_RULES.get((c[1], k))
      if rule is not None and x[0] != 'ph' and not rule(x):
        out.append(f'{c[1]}.{k}')
  if c[0] == 'list':
    for x in c[1]:
      broken_field_rules(x, out)
  elif c[0] in ('dict', 'obj', 'ph'):
    for _, x in c[-1]:
      broken_field_rules(x, out)
  return out


# --------------------------------------------------------------------------
# Containers with a value spec: placeholders bound to numeric fields whose
# bounds sit on boundary values.
# --------------------------------------------------------------------------

SPEC_ANY = {'s': 'any'}


def field_specs(T):
  """{key: SPEC} of a container description ({} when it binds none)."""
  if T['t'] == 'dict':
    return T.get('specs') or {}
  if T['t'] == 'obj':
    return CLASS_SPECS.get(T['cls'], {})
  return {}


def spec_num(kind, lo=None, hi=None, none=False):
  return {'s': kind, 'lo': lo, 'hi': hi, 'none': none}


def spec_list(elem, min_size=0, max_size=None):
  return {'s': 'list', 'elem': elem, 'min': min_size, 'max': max_size}


# SPECs of the fields of pgverif.models.Bounds.
CLASS_SPECS = {
    'Bounds': {
        'z': spec_num('float', 0.0, None), 'nz': spec_num('float', -0.0, 0.0),
        'm': spec_num('float', None, 0), 'zi': spec_num('float', 0, 1.0),
        'neg': spec_num('float', -1.0, -0.0), 'i0': spec_num('int', 0, 0),
        'ip': spec_num('int', 0, None),
        'lz': spec_list(spec_num('float', 0.0, 1.0), 0, 3),
    },
}
BOUNDS_DEFAULTS = {'z': 0.0, 'nz': 0.0, 'm': 0.0, 'zi': 0.0, 'neg': -0.5,
                   'i0': 0, 'ip': 0}


def real_spec(s):
  """The pg.typing value spec of a SPEC."""
  if s['s'] == 'any':
    return pg.typing.Any()
  if s['s'] == 'list':
    return pg.typing.List(real_spec(s['elem']), min_size=s['min'],
                          max_size=s['max'])
  cls = pg.typing.Float if s['s'] == 'float' else pg.typing.Int
  v = cls(min_value=s['lo'], max_value=s['hi'])
  return v.noneable() if s['none'] else v


def show_spec(s):
  if s['s'] == 'any':
    return 'Any'
  if s['s'] == 'list':
    return f"List({show_spec(s['elem'])}, {s['min']}..{s['max']})"
  return f"{s['s'].capitalize()}({s['lo']!r}..{s['hi']!r}" + (
      ', noneable)' if s['none'] else ')')


def _num_breaks(s, v):
  """None, or which parameter of the numeric SPEC rejects the number v
  (bounds are inclusive)."""
  if s['lo'] is not None and v < s['lo']:
    return s['s'] + '-min'
  if s['hi'] is not None and v > s['hi']:
    return s['s'] + '-max'
  return None


def value_breaks(s, v):
  """None, or which parameter of SPEC rejects the constant v."""
  if s['s'] == 'any':
    return None
  if s['s'] == 'list':
    return 'list-type'
  if v is None:
    return None if s['none'] else s['s'] + '-none'
  if isinstance(v, bool) or not isinstance(v, (int, float)):
    return s['s'] + '-type'
  if s['s'] == 'int' and not isinstance(v, int):
    return 'int-type'
  return _num_breaks(s, v)


def desc_breaks(s, T):
  """None, or which parameter of SPEC is broken by some value that the
  description T (constants and placeholders of a typed field) can stand for:
  the placeholder's range is not inside the field spec."""
  t = T['t']
  if s['s'] == 'any':
    return None
  if t == 'const':
    return value_breaks(s, T['v'])
  if t == 'float':
    if s['s'] != 'float':
      return s['s'] + '-type'
    return _num_breaks(s, T['lo']) or _num_breaks(s, T['hi'])
  if t == 'choice' and T['k'] == 1:
    for c in T['cands']:
      r = desc_breaks(s, c)
      if r:
        return r
    return None
  if t == 'choice':
    if s['s'] != 'list':
      return s['s'] + '-type'
    if T['k'] < s['min'] or (s['max'] is not None and T['k'] > s['max']):
      return 'list-size'
    for c in T['cands']:
      r = desc_breaks(s['elem'], c)
      if r:
        return r
    return None
  if t == 'list' and s['s'] == 'list':
    if len(T['items']) < s['min'] or (
        s['max'] is not None and len(T['items']) > s['max']):
      return 'list-size'
    for c in T['items']:
      r = desc_breaks(s['elem'], c)
      if r:
        return r
    return None
  return s['s'] + '-type'


def misfits(T):
  """[which parameter, ...]: typed fields of T whose content (placeholder
  ranges, candidates) is not inside the field spec."""
  out = []
  if T['t'] in ('dict', 'obj'):
    sp = field_specs(T)
    for tok, c in children(T):
      r = desc_breaks(sp.get(tok[1], SPEC_ANY), c)
      if r:
        out.append(r)
  elif T['t'] == 'list' and T.get('elem'):
    for c in T['items']:
      r = desc_breaks(T['elem'], c)
      if r:
        out.append(r)
  kids = T['cands'] if T['t'] == 'choice' else [c for _, c in children(T)]
  for c in kids:
    out.extend(misfits(c))
  return out


def has_bound_spec(T):
  if T.get('specs') or T.get('elem') or (T['t'] == 'obj' and T['cls'] in CLASS_SPECS):
    return True
  kids = T['cands'] if T['t'] == 'choice' else [c for _, c in children(T)]
  return any(has_bound_spec(c) for c in kids)


def canon_breaks(s, c):
  """None, or which parameter of SPEC rejects the canonical form c.  A
  placeholder left by the filter satisfies its field."""
  if s['s'] == 'any' or c[0] == 'ph':
    return None
  if s['s'] == 'list':
    if c[0] != 'list':
      return 'list-type'
    if len(c[1]) < s['min'] or (s['max'] is not None and len(c[1]) > s['max']):
      return 'list-size'
    for x in c[1]:
      r = canon_breaks(s['elem'], x)
      if r:
        return r
    return None
  if c[0] != 'leaf':
    return s['s'] + '-type'
  if c[1] == 'NoneType':
    return None if s['none'] else s['s'] + '-none'
  if c[1] == 'int':
    return _num_breaks(s, int(c[2]))
  if c[1] == 'float' and s['s'] == 'float':
    return _num_breaks(s, float(c[2]))
  return s['s'] + '-type'


def broken_bound_specs(D, c, out=None):
  """['typed-dict:float-min', ...]: specs of typed containers of the decoded
  description D that the canonical form c of the decoded value breaks."""
  out = [] if out is None else out
  t = D['t']
  if t == 'dict' and c[0] == 'dict':
    got = dict(c[1])
    for k, sub in D['items']:
      if k not in got:
        continue
      s = (D.get('specs') or {}).get(k)
      r = canon_breaks(s, got[k]) if s else None
      if r:
        out.append('typed-dict:' + r)
      broken_bound_specs(sub, got[k], out)
  elif t == 'list' and c[0] == 'list':
    for sub, x in zip(D['items'], c[1]):
      r = canon_breaks(D['elem'], x) if D.get('elem') else None
      if r:
        out.append('typed-list:' + r)
      broken_bound_specs(sub, x, out)
  elif t == 'obj' and c[0] == 'obj':
    got = dict(c[2])
    sp = field_specs(D)
    for k, sub in D['fields']:
      if k in got:
        r = canon_breaks(sp[k], got[k]) if k in sp else None
        if r:
          out.append('typed-object:' + r)
        broken_bound_specs(sub, got[k], out)
  elif t == 'choice' and c[0] == 'ph':
    cands = dict(c[2]).get('candidates')
    if cands and cands[0] == 'list':
      for sub, x in zip(D['cands'], cands[1]):
        broken_bound_specs(sub, x, out)
  return out


ZEROS = [0.0, -0.0, 0]
STEPS = [5e-324, 1e-9, 0.25, 0.5, 1.0]


def _bound(rng):
  if rng.random() < 0.55:
    return rng.choice(ZEROS)
  return rng.choice([1.0, -1.0, 0.5, -0.5, 2, -3, 1e-9, -1e-9])


def _shift(rng, b, direction):
  """A float just / somewhat beyond b in `direction` (+1 | -1)."""
  b = float(b)
  if rng.random() < 0.3:
    return math.nextafter(b, math.inf * direction)
  return b + direction * rng.choice(STEPS)


def float_spec(rng, none=False):
  lo = None if rng.random() < 0.2 else _bound(rng)
  r = rng.random()
  if r < 0.3:
    hi = None
  elif lo is None:
    hi = _bound(rng)
  elif r < 0.5:
    hi = rng.choice(ZEROS) if lo == 0 else lo          # equal bounds
  elif lo < 0 and r < 0.65:
    hi = rng.choice(ZEROS)
  else:
    hi = lo + rng.choice([0.5, 1.0, 2])
  return spec_num('float', lo, hi, none)


def _end(st, b, inward):
  """An end of a placeholder range relative to the bound b of the field:
  on it (with either sign of zero), just inside or (st.outside) just outside."""
  rng = st.rng
  r = rng.random()
  if st.outside and st.hot_end == inward and r < 0.85:
    return _shift(rng, b, -inward)
  if r < 0.5:
    return rng.choice([0.0, -0.0]) if b == 0 else float(b)
  return _shift(rng, b, inward)


def float_range(st, s):
  """floatv whose ends sit on / just inside / just outside the bounds of s."""
  rng = st.rng
  lo, hi = s['lo'], s['hi']
  # in a field that may misfit, one end of the range leaves the spec
  st.hot_end = rng.choice([d for b, d in ((lo, +1), (hi, -1)) if b is not None] or [0])
  a = _end(st, lo, +1) if lo is not None else None
  b = _end(st, hi, -1) if hi is not None else None
  if a is None and b is None:
    a = rng.choice([-2.0, -0.0, 0.0, 0.5])
  if a is None:
    a = b - rng.choice([0.0, 0.5, 2.0])
  if b is None:
    b = a + rng.choice([0.0, 0.5, 2.0])
  if a > b:
    a, b = b, a
  if not st.outside and (_num_breaks(s, a) or _num_breaks(s, b)):
    a = float(lo) if lo is not None else min(a, float(hi))
    b = float(hi) if hi is not None else max(a, b)
  return tfloat(a, b, tag=_tag(st))


def float_value(st, s):
  """A float constant on / around a bound of s."""
  rng = st.rng
  bs = [(b, d) for b, d in ((s['lo'], +1), (s['hi'], -1)) if b is not None]
  if not bs:
    return const(rng.choice([-1.5, 0.0, -0.0, 2.5]))
  b, d = rng.choice(bs)
  st.hot_end = d
  v = _end(st, b, d)
  if not st.outside and _num_breaks(s, v):
    v = float(b)
  return const(v)


def float_field(st, s):
  """Content of a field with the float SPEC s."""
  rng = st.rng
  r = rng.random()
  if s['none']:
    vals = [const(None), float_value(st, s)]
    rng.shuffle(vals)
    return oneof(vals, tag=_tag(st))
  if r < 0.55:
    return float_range(st, s)
  n = rng.randint(1, 2)
  with_range = rng.random() < 0.6
  # at most one candidate of a field that may misfit leaves the spec
  hot = st.outside
  hot_j = rng.randrange(n + with_range) if hot else -1
  if hot and with_range and rng.random() < 0.5:
    hot_j = n
  vals = []
  for j in range(n):
    st.outside = j == hot_j
    vals.append(float_value(st, s))
  if with_range:
    st.outside = hot_j == n
    vals.append(float_range(st, s))
  st.outside = hot
  if len(vals) >= 3 and rng.random() < 0.4:
    vals = [vals[0], oneof(vals[1:], tag=_tag(st))]
  rng.shuffle(vals)
  return oneof(vals, tag=_tag(st))


def int_field(st, s=None):
  """(SPEC, content) of an int field: a oneof over ints around its bounds."""
  rng = st.rng
  lo = rng.choice([None, 0, 0, 0, 1, -1, -3])
  r = rng.random()
  if r < 0.3:
    hi = None
  elif lo is None:
    hi = rng.choice([0, 0, 2, -1])
  else:
    hi = lo + rng.choice([0, 0, 1, 3])
  s = s or spec_num('int', lo, hi, rng.random() < 0.15)
  lo, hi = s['lo'], s['hi']
  pool = {0}
  for b in (lo, hi):
    if b is not None:
      pool.update([b - 1, b, b + 1])
  inside = [v for v in sorted(pool) if not value_breaks(s, v)]
  if (not st.outside or rng.random() < 0.5) and len(inside) >= 1:
    vals = rng.sample(inside, min(len(inside), rng.randint(1, 3)))
  else:
    vals = rng.sample(sorted(pool), min(len(pool), rng.randint(2, 3)))
  cands = [const(v) for v in vals]
  if s['none']:
    cands.append(const(None))
  elif st.outside and rng.random() < 0.1:
    cands.append(tfloat(0.0, 1.0, tag=_tag(st)))       # never fits an int field
  rng.shuffle(cands)
  return s, oneof(cands, tag=_tag(st))


def list_field(st, s=None):
  """(SPEC, content) of a list field with bounded float elements."""
  rng = st.rng
  es = s['elem'] if s else float_spec(rng)
  n = rng.randint(2, 4)
  cands = []
  hot = st.outside
  hot_j = rng.randrange(n) if hot else -1
  for j in range(n):
    st.outside = j == hot_j
    cands.append(float_range(st, es) if rng.random() < (0.8 if j == hot_j else 0.4)
                 else float_value(st, es))
  st.outside = False
  distinct, srt = rng.choice(S.MODES)
  k = rng.randint(2, 3)
  if distinct and k > n:
    k = n
  if s:
    if hot and rng.random() < 0.15 and s['max'] is not None:
      k = s['max'] + 1
      cands += [float_value(st, es) for _ in range(k - len(cands))]
    return s, choice(k, cands, distinct, srt, tag=_tag(st))
  s = spec_list(es, rng.choice([0, 1, 2]), rng.choice([None, 3, 4]))
  if hot and rng.random() < 0.15:
    s = spec_list(es, rng.choice([0, k + 1]), k - 1 if s['min'] == 0 else None)
  return s, choice(k, cands, distinct, srt, tag=_tag(st))


def bound_template(st):
  """A template around a pg.Dict / pg.List with a value spec whose numeric
  bounds are boundary values (0, 0.0, -0.0, equal min/max) and whose
  placeholders reach just inside / outside them."""
  rng = st.rng
  outside = rng.random() < 0.5
  st.outside = False
  if rng.random() < 0.15:
    es = float_spec(rng)
    n = rng.randint(1, 3)
    hot = rng.randrange(n) if outside else -1       # the only slot that may misfit
    items = []
    for j in range(n):
      st.outside = j == hot
      items.append(float_range(st, es) if j == hot or rng.random() < 0.6
                   else float_value(st, es))
    if not any(has_placeholder(x) for x in items):
      items[0] = float_range(st, es)
    core = tlist(items, elem=es)
  elif rng.random() < 0.3:
    sp = CLASS_SPECS['Bounds']
    f = {k: const(v) for k, v in BOUNDS_DEFAULTS.items()}
    f['lz'] = tlist([])
    keys = rng.sample(sorted(f), rng.randint(1, 3))
    hot = rng.choice(keys) if outside else None
    for k in keys:
      st.outside = k == hot
      if k in ('i0', 'ip'):
        f[k] = int_field(st, sp[k])[1]
      elif k == 'lz':
        f[k] = list_field(st, sp[k])[1]
      else:
        f[k] = float_field(st, sp[k])
    core = tobj('Bounds', list(f.items()))
  else:
    items, specs = [], {}
    keys = rng.sample(['f', 'g', 'h'], rng.randint(1, 2))
    if rng.random() < 0.35:
      keys.append('i')
    if rng.random() < 0.25:
      keys.append('l')
    hot = rng.choice(keys) if outside else None      # the only field that may misfit
    for k in keys:
      st.outside = k == hot
      if k == 'i':
        specs[k], c = int_field(st)
      elif k == 'l':
        specs[k], c = list_field(st)
      else:
        specs[k] = float_spec(rng, none=rng.random() < 0.1)
        c = float_field(st, specs[k])
      items.append([k, c])
    if rng.random() < 0.3:
      items.append(['u', unique_const(st, True)])         # Any field
    rng.shuffle(items)
    core = tdict(items, specs)
  r = rng.random()
  if r < 0.5:
    return core
  if r < 0.7:
    return tdict([['o', core], ['z', oneof([const('z0'), const('z1')], tag=_tag(st))]])
  if r < 0.8:
    return tlist([core, unique_const(st)])
  return tdict([['c', oneof([unique_const(st, True), core], tag=_tag(st))]])


def bound_grid():
  """The bounded family of boundary bindings: (bound of a float field: zero of
  either sign / type, +-1, 2) x (lower | upper bound) x (the range ends just
  outside, outside, on, inside the bound) x (floatv directly in the field, as
  a oneof candidate, as a manyof candidate of a list field)."""
  out = []
  n = 0
  for b in (0.0, -0.0, 0, 1.0, -1.0, 2):
    for d in (+1, -1):                      # +1: lower bound, -1: upper bound
      for rel in ('just-outside', 'outside', 'on', 'inside'):
        for form in ('floatv', 'oneof', 'manyof'):
          n += 1
          other = None if n % 2 else b + 2 * d
          s = spec_num('float', b, other) if d > 0 else spec_num('float', other, b)
          e = {'just-outside': math.nextafter(float(b), -math.inf * d),
               'outside': b - 0.5 * d, 'on': float(b), 'inside': b + 0.25 * d}[rel]
          far = b + 1.0 * d
          ph = tfloat(min(e, far), max(e, far))
          mid = [const(b + 0.5 * d), const(b + 0.75 * d)]
          if form == 'floatv':
            T = tdict([['f', ph]], {'f': s})
          elif form == 'oneof':
            T = tdict([['f', oneof([mid[0], ph])]], {'f': s})
          else:
            T = tdict([['l', choice(2, [mid[0], ph, mid[1]], n % 3 > 0, n % 4 > 1)]],
                      {'l': spec_list(s, 0, None if n % 2 else 2)})
          out.append(T)
  return out


# --------------------------------------------------------------------------
# Evolvable placeholders that really mutate.
# --------------------------------------------------------------------------

def desc_from_json(j):
  """Description of the value whose JSON form (pg.to_json) is j."""
  if isinstance(j, list):
    return tlist([desc_from_json(x) for x in j])
  if isinstance(j, dict):
    if '_type' in j:
      mod, _, cls = j['_type'].rpartition('.')
      if mod != M.__name__ or cls not in CLASS_FIELDS:
        raise KeyError(j['_type'])
      return tobj(cls, [[k, desc_from_json(v)] for k, v in j.items() if k != '_type'])
    return tdict([[k, desc_from_json(v)] for k, v in j.items()])
  return const(j)


def evolvable_value(st):
  """A placeholder-free symbolic value with leaves and lists to mutate."""
  rng = st.rng

  def leaf():
    i = next(st.u)
    return const(rng.choice([i, i, 'e%d' % i, i + 0.5, None, True]))

  shape = rng.choice(['dict', 'list', 'any2', 'nested'])
  if shape == 'dict':
    return tdict([['a', leaf()], ['b', tlist([leaf(), leaf()])]])
  if shape == 'list':
    return tlist([leaf(), tdict([['k', leaf()]])])
  if shape == 'any2':
    return tobj('Any2', [['x', leaf()], ['y', tlist([leaf()])]])
  return tdict([['m', tdict([['n', tlist([leaf(), leaf()])]])], ['z', leaf()]])


def evolvable(st, name=None):
  pool = [evolvable_value(st) for _ in range(3)]
  return tcustom('evolve', name, _tag(st), pool, transform='step',
                 weights=st.rng.choice([None, 'leaves', 'leaves']))


def evolve_template(st):
  """A template with evolvable placeholders whose node_transform changes
  the value (dicts / lists / objects, as a candidate, next to other
  placeholders)."""
  rng = st.rng
  e1 = evolvable(st)
  if rng.random() < 0.7:
    other = oneof([unique_const(st, True), unique_const(st, True)], tag=_tag(st))
  else:
    other = tfloat(0.0, 1.0, tag=_tag(st))
  shape = rng.choice(['dict', 'dict', 'dict', 'list', 'obj', 'cand', 'two', 'root'])
  if shape == 'dict':
    items = [['x', e1], ['y', other]]
    rng.shuffle(items)
    return tdict(items)
  if shape == 'list':
    return tlist([other, e1])
  if shape == 'obj':
    return tobj('Any2', [['x', e1], ['y', other]])
  if shape == 'cand':
    return tdict([['c', oneof([unique_const(st, True), e1], tag=_tag(st))], ['y', other]])
  if shape == 'two':
    return tdict([['x', e1], ['in', tdict([['y', evolvable(st)]])], ['z', other]])
  return e1


# --------------------------------------------------------------------------
# Random templates and filters.
# --------------------------------------------------------------------------

def all_placeholders(T, out=None):
  out = [] if out is None else out
  if T['t'] in PLACEHOLDERS:
    out.append(T)
    if T['t'] == 'choice':
      for c in T['cands']:
        all_placeholders(c, out)
  else:
    for _, c in children(T):
      all_placeholders(c, out)
  return out


def random_where(rng, T):
  """A filter that keeps at least one placeholder of the root-level scan."""
  phs = all_placeholders(T)
  for _ in range(6):
    if rng.random() < 0.6:
      tags = sorted({p['tag'] for p in phs if p['tag'] is not None})
      if not tags:
        continue
      W = {'by': 'tag', 'keep': rng.sample(tags, rng.randint(1, max(1, len(tags) - 1)))}
    else:
      kinds = sorted({kind_of(p) for p in phs})
      if not kinds:
        continue
      W = {'by': 'kind', 'keep': rng.sample(kinds, rng.randint(1, max(1, len(kinds) - 1)))}
    if to_space(T, W)['elems']:
      return W
  return ALL


def from_space(sp, rng, tags=False, dup=0.0, evolve=0.0):
  st = State(rng, dup=dup, tags=tags, evolve=evolve)
  T = render_space(sp, st, 0)
  return T, st


# --------------------------------------------------------------------------
# Value references (derived values): pg.hyper.reference / ValueReference.
#
# Documented meaning (hyper/derived.py): the reference path is a relative path
# "searched from current node to root": the nearest enclosing container in
# which the path EXISTS is the scope, and decoding replaces the reference by
# (a copy of) the value found there — whatever that value is (None, 0, '',
# False and empty containers are values like any other).
# --------------------------------------------------------------------------

def has_ref(T):
  if T['t'] == 'ref':
    return True
  kids = T['cands'] if T['t'] == 'choice' else [c for _, c in children(T)]
  return any(has_ref(c) for c in kids)


def _follow(node, tokens, static=False):
  """The node reached from the container description `node` by path tokens;
  None when the path does not exist.  static=True (a TEMPLATE description):
  'maybe' when the path enters a placeholder or a reference, whose decoded
  value may or may not have the rest of the path."""
  for n, tok in enumerate(tokens):
    t = node['t']
    if static and n and t in PLACEHOLDERS + ('ref',):
      return 'maybe'
    nxt = None
    if t == 'dict' and tok[0] == 'k':
      nxt = dict((k, c) for k, c in node['items']).get(tok[1])
    elif t == 'obj' and tok[0] == 'k':
      nxt = dict((k, c) for k, c in node['fields']).get(tok[1])
      if nxt is None and tok[1] in CLASS_FIELDS[node['cls']]:
        raise AssertionError('harness: reference to an unlisted object field')
    elif t == 'list' and tok[0] == 'i' and 0 <= tok[1] < len(node['items']):
      nxt = node['items'][tok[1]]
    if nxt is None:
      return None
    node = nxt
  return node


def resolve_refs(D):
  """The decoded description D with every reference replaced by the node its
  path reaches (read before any reference is replaced)."""
  def walk(node, anc):
    t = node['t']
    if t == 'ref':
      for a in reversed(anc):
        hit = _follow(a, node['path'])
        if hit is not None:
          if has_ref(hit):
            raise DecodeError('reference to a value that holds references')
          return hit
      raise DecodeError(f'reference {ref_path(node)!r} cannot be resolved')
    if t == 'dict':
      return dict(node, items=[[k, walk(c, anc + [node])] for k, c in node['items']])
    if t == 'list':
      return dict(node, items=[walk(c, anc + [node]) for c in node['items']])
    if t == 'obj':
      return dict(node, fields=[[k, walk(c, anc + [node])] for k, c in node['fields']])
    if t == 'choice':                 # a placeholder the filter left in place
      return dict(node, cands=[walk(c, anc) for c in node['cands']])
    return node
  return walk(D, [])


def ref_sites(T, W=ALL):
  """[(ref node, [enclosing container descriptions], path tokens or None,
  inside a left-out placeholder?)] of a TEMPLATE description; the path is
  None for references inside candidates."""
  out = []

  def walk(node, anc, path, left_out):
    t = node['t']
    if t == 'ref':
      out.append((node, anc, path, left_out))
    elif t == 'choice':
      for c in node['cands']:
        walk(c, anc if node['k'] == 1 else anc + [None], None,
             left_out or not keep(W, node))
    else:
      for tok, c in children(node):
        walk(c, anc + [node], None if path is None else path + (tok,), left_out)
  walk(T, [], (), False)
  return out


def refs_ok(T, W=ALL):
  """Every reference of the template resolves, for every DNA and both on the
  template and on the decoded value, to the same reference-free node: no
  scope on the way up has the path only for some decisions, no reference
  sits in a candidate of a multi-choice (the decoded list would be one more
  scope) or of a placeholder that the filter leaves in place."""
  for node, anc, _, left_out in ref_sites(T, W):
    if left_out or node['path'] is None or None in anc:
      return False
    hit = None
    for a in reversed(anc):
      hit = _follow(a, node['path'], static=True)
      if hit is not None:
        break
    if hit is None or hit == 'maybe' or has_ref(hit):
      return False
  return True


def falsy_pool(st):
  """Descriptions of values that are easily mistaken for 'nothing there',
  pairwise `!=` (one kind of zero only), None first half of the time."""
  rng = st.rng
  pool = [const(rng.choice([0, 0, False, 0.0, -0.0])), const(''), tlist([]),
          tdict([])]
  rng.shuffle(pool)
  pool.insert(0 if rng.random() < 0.5 else rng.randrange(len(pool) + 1), const(None))
  return pool


def referent(st):
  """What a reference points to: a placeholder whose candidates include falsy
  values, a falsy constant, or a container of the constant part."""
  rng = st.rng
  pool = falsy_pool(st)
  r = rng.random()
  if r < 0.6:
    cands = pool[:rng.randint(1, 3)] + [
        unique_const(st, simple=rng.random() < 0.7) for _ in range(rng.randint(0, 2))]
    if len(cands) < 2:
      cands.append(unique_const(st, True))
    rng.shuffle(cands)
    return oneof(cands, tag=_tag(st))
  if r < 0.72:
    cands = pool[:2] + [unique_const(st, True)]
    rng.shuffle(cands)
    distinct, srt = rng.choice(S.MODES)
    return choice(2, cands, distinct, srt, tag=_tag(st))
  if r < 0.86:
    return pool[0]
  if r < 0.91:
    lo, hi = rng.choice([(0.0, 1.0), (-0.0, 0.0), (-1.0, 0.0)])
    return tfloat(lo, hi, tag=_tag(st))
  return tdict([['x', oneof(pool[:2], tag=_tag(st))], ['y', pool[2]]])


def _ref_slot(st, slots):
  slot = {'t': 'ref', 'path': None,
          'ctor': st.rng.choice(['reference', 'reference', 'ValueReference'])}
  slots.append(slot)
  return slot


def _ref_scope(st, depth, slots):
  """A dict / list / Any2 with referents under key names that are used again
  on other levels, reference slots (filled by `ref_template`), sub-scopes
  and conditional sub-scopes."""
  rng = st.rng

  def entry():
    r = rng.random()
    if r < 0.4:
      return referent(st)
    if r < 0.75:
      return _ref_slot(st, slots)
    if r < 0.9 and depth < 2:
      return _ref_scope(st, depth + 1, slots)
    return unique_const(st, True)

  shape = rng.choice(['dict'] * 6 + ['list', 'any2']) if depth else 'dict'
  if shape == 'list':
    items = [entry() for _ in range(rng.randint(2, 3))]
    return tlist(items)
  if shape == 'any2':
    return tobj('Any2', [['x', entry()], ['y', entry()]])
  items = []
  for k, p in (('a', 0.8 if depth == 0 else 0.5), ('b', 0.3)):
    if rng.random() < p:
      items.append([k, referent(st)])
  for k in ('r', 'q'):
    if rng.random() < (0.75 if k == 'r' else 0.3):
      items.append([k, _ref_slot(st, slots)])
  if depth < 2 and rng.random() < (0.75 if depth == 0 else 0.4):
    items.append([rng.choice(['s', 't']), _ref_scope(st, depth + 1, slots)])
  if depth < 2 and rng.random() < 0.3:
    cands = [unique_const(st, True), _ref_scope(st, depth + 1, slots)]
    rng.shuffle(cands)
    items.append(['c', oneof(cands, tag=_tag(st))])
  if rng.random() < 0.3:
    items.append(['u', unique_const(st, True)])
  if len(items) < 2:
    used = [k for k, _ in items]
    items.append([[k for k in ('a', 'b') if k not in used][0], referent(st)])
  rng.shuffle(items)
  return tdict(items)


def _addressable(node, max_len, prefix=()):
  """[(path tokens, node)] below a container of the constant part."""
  out = []
  for tok, c in children(node):
    out.append((prefix + (tok,), c))
    if max_len > 1:
      out.extend(_addressable(c, max_len - 1, prefix + (tok,)))
  return out


def ref_template(st):
  """A template with value references: relative paths resolved in the holding
  container, an enclosing one or from the root ('absolute'), the same key
  name bound on several levels, references inside lists, objects and
  candidates; referents evaluate to None, 0, '', False, empty containers for
  some DNAs."""
  rng = st.rng
  st.used_singletons.update(['None', 'False'])
  slots = []
  T = _ref_scope(st, 0, slots)
  if not slots:
    T['items'].append(['r', _ref_slot(st, slots)])
  while not has_placeholder(T):
    T['items'] = [kv for kv in T['items'] if kv[0] != 'b'] + [['b', referent(st)]]
  sites = {id(node): anc for node, anc, _, _ in ref_sites(T)}
  for slot in slots:
    anc = sites[id(slot)]
    options = []
    if None not in anc:
      for a in anc:
        for tokens, node in _addressable(a, 2):
          if not has_ref(node):
            options.append(tokens)
    rng.shuffle(options)
    # prefer the names that are bound on several levels
    options.sort(key=lambda p: (p[-1][1] not in ('a', 'b')) and rng.random() < 0.6)
    done = False
    for tokens in options[:8]:
      slot['path'] = [list(t) for t in tokens]
      hit = None
      for a in reversed(anc):
        hit = _follow(a, slot['path'], static=True)
        if hit is not None:
          break
      if hit is not None and hit != 'maybe' and not has_ref(hit):
        done = True
        break
    if not done:
      slot.clear()
      slot.update(unique_const(st, True))
  return T
