"""Seeded value generators (plain values, symbolic trees, spec-aware values)."""
import math
import pyglove as pg
from pgverif import models as M

T = pg.typing
MISSING = pg.MISSING_VALUE

HOSTILE_STRINGS = [
    '', 'a', 'abc', 'é☃', '\x00', 'a\nb', '\t', '"', "'", '\\', '<b>', '&amp;',
    '</script>', '-->', ']]>', '__tuple__', 'n_:1', '_type', '$', 'a.b', '[0]',
    '0', '1', 'None', 'true', '{}', 'x' * 40, ' ', 'a b', '‮', '퟿',
]
SAFE_KEYS = ['a', 'b', 'c', 'k', 'x1', 'z_', 'key', 'K']
INTS = [0, 1, -1, 2, 3, 7, 9, 10, 255, 2**31, -2**63, 10**20]
FLOATS = [0.0, -0.0, 1.0, 0.5, -1.5, 1e300, 1e-300, float('inf'),
          float('-inf'), float('nan')]


def prim(rng, nan=True, hostile=True):
  r = rng.random()
  if r < 0.1:
    return None
  if r < 0.2:
    return rng.random() < 0.5
  if r < 0.5:
    return rng.choice(INTS) if rng.random() < 0.4 else rng.randint(-5, 20)
  if r < 0.65:
    f = rng.choice(FLOATS)
    if not nan and (f != f):
      f = 2.5
    return f
  if hostile:
    return rng.choice(HOSTILE_STRINGS)
  return rng.choice(['a', 'b', 'abc', 'x', '', 'hello'])


def small_prim(rng):
  """Small mutually comparable-ish primitives (ints and short strings)."""
  r = rng.random()
  if r < 0.6:
    return rng.randint(0, 9)
  if r < 0.8:
    return rng.choice(['a', 'b', 'c', 'd'])
  if r < 0.9:
    return None
  return rng.random() < 0.5


def key(rng, ints=True):
  if ints and rng.random() < 0.2:
    return rng.randint(0, 4)
  return rng.choice(SAFE_KEYS)


def plain_tree(rng, depth=2, leaf=small_prim, int_keys=False, max_width=3):
  """A plain Python value of nested dict/list/primitives."""
  r = rng.random()
  if depth <= 0 or r < 0.4:
    return leaf(rng)
  n = rng.randint(0, max_width)
  if r < 0.7:
    return {key(rng, int_keys): plain_tree(rng, depth - 1, leaf, int_keys, max_width)
            for _ in range(n)}
  return [plain_tree(rng, depth - 1, leaf, int_keys, max_width) for _ in range(n)]


def sym_tree(rng, depth=3, leaf=small_prim, classes=None, typed=False,
             max_width=3, flags=False, callbacks=None):
  """A symbolic value mixing Dict/List/Object nodes (untyped containers).

  Args:
    rng: random.Random.
    depth: max nesting.
    leaf: leaf generator.
    classes: object classes to draw from (defaults to untyped models).
    typed: if True, occasionally embed typed objects.
    max_width: max children per container.
    flags: randomise sealed/accessor flags? (never sealed here; see props).
    callbacks: optional factory `callbacks(kind) -> onchange_callback`.
  """
  classes = classes or [M.Any2, M.Writable, M.Notifier]
  r = rng.random()
  if depth <= 0 or r < 0.25:
    if rng.random() < 0.05:
      return M.Leaf(rng.randint(0, 3))
    return leaf(rng)
  sub = lambda: sym_tree(rng, depth - 1, leaf, classes, typed, max_width,
                         flags, callbacks)
  n = rng.randint(0, max_width)
  if r < 0.5:
    kw = {}
    if callbacks is not None and rng.random() < 0.6:
      kw['onchange_callback'] = callbacks('dict')
    return pg.Dict({key(rng, ints=False): sub() for _ in range(n)}, **kw)
  if r < 0.75:
    kw = {}
    if callbacks is not None and rng.random() < 0.6:
      kw['onchange_callback'] = callbacks('list')
    return pg.List([sub() for _ in range(n)], **kw)
  if typed and rng.random() < 0.4:
    return typed_object(rng)
  cls = rng.choice(classes)
  if cls is M.Bound or cls is M.NoSymCmp:
    return cls(x=sub())
  return cls(x=sub(), y=sub())


def typed_object(rng, valid=True):
  cls = rng.choice([M.Typed, M.TypedSub, M.Inner, M.TypedNotifier, M.Required])
  return object_of(cls, rng)


def needs_value(spec):
  """True when a field of this spec must be given explicitly."""
  if isinstance(spec, T.Dict) and spec.schema is not None:
    return any(isinstance(k, T.ConstStrKey) and needs_value(f.value)
               for k, f in spec.schema.fields.items())
  return not spec.has_default


def object_of(cls, rng, fill=0.5):
  kwargs = {}
  for k, f in cls.__schema__.fields.items():
    if not isinstance(k, pg.typing.ConstStrKey):
      continue
    required = needs_value(f.value)
    if f.value.frozen:
      continue
    if required or rng.random() < fill:
      kwargs[str(k)] = value_for(f.value, rng, valid=True)
  return cls(**kwargs)


# -- spec-aware values -------------------------------------------------------

def _int_in(spec, rng):
  lo = spec.min_value if spec.min_value is not None else -3
  hi = spec.max_value if spec.max_value is not None else lo + 12
  return rng.randint(lo, max(lo, hi))


def value_for(spec, rng, valid=True, depth=0):
  """A value for `spec`; `valid=False` tries to produce a rejected one.

  Uses only public attributes of the spec. When an invalid value cannot be
  built (e.g. Any), returns a valid one.
  """
  if not valid:
    return invalid_for(spec, rng, depth)
  if spec.frozen:
    return spec.default
  if spec.is_noneable and rng.random() < 0.2:
    return None
  if isinstance(spec, T.Bool):
    return rng.random() < 0.5
  if isinstance(spec, T.Int):
    return _int_in(spec, rng)
  if isinstance(spec, T.Float):
    lo = spec.min_value if spec.min_value is not None else -2.0
    hi = spec.max_value if spec.max_value is not None else lo + 4.0
    return rng.choice([lo, hi, (lo + hi) / 2, rng.uniform(lo, hi)])
  if isinstance(spec, T.Str):
    return rng.choice(['a', 'b', 'xyz', '', 'a.b', '<i>'])
  if isinstance(spec, T.Enum):
    return rng.choice(list(spec.values))
  if isinstance(spec, T.List):
    lo = spec.min_size or 0
    hi = spec.max_size if spec.max_size is not None else lo + 3
    n = rng.randint(lo, max(lo, hi))
    if depth > 3:
      n = lo
    return [value_for(spec.element.value, rng, True, depth + 1) for _ in range(n)]
  if isinstance(spec, T.Tuple):
    els = spec.elements
    if spec.fixed_length:
      return tuple(value_for(e.value, rng, True, depth + 1) for e in els)
    lo = spec.min_size or 0
    hi = spec.max_size if spec.max_size is not None else lo + 3
    n = rng.randint(lo, max(lo, hi))
    return tuple(value_for(els[0].value, rng, True, depth + 1) for _ in range(n))
  if isinstance(spec, T.Dict):
    if spec.schema is None:
      return {key(rng, False): small_prim(rng) for _ in range(rng.randint(0, 2))}
    out = {}
    for k, f in spec.schema.fields.items():
      if isinstance(k, T.ConstStrKey):
        if f.value.frozen:
          continue
        if needs_value(f.value) or rng.random() < 0.5:
          out[str(k)] = value_for(f.value, rng, True, depth + 1)
      else:
        for _ in range(rng.randint(0, 2)):
          kk = rng.choice(['p', 'q', 'r1', 'zz'])
          if k.match(kk):
            out[kk] = value_for(f.value, rng, True, depth + 1)
    return out
  if isinstance(spec, T.Object):
    cls = spec.cls
    if isinstance(cls, type) and issubclass(cls, pg.Object):
      try:
        return object_of(cls, rng)
      except Exception:  # abstract etc.  pylint: disable=broad-except
        pass
    if cls is M.Leaf:
      return M.Leaf(rng.randint(0, 3))
    try:
      return cls()
    except Exception:  # pylint: disable=broad-except
      return spec.default
  if isinstance(spec, T.Union):
    return value_for(rng.choice(list(spec.candidates)), rng, True, depth + 1)
  if isinstance(spec, T.Any):
    return rng.choice([small_prim(rng), plain_tree(rng, 1)])
  return spec.default if spec.has_default else None


def invalid_for(spec, rng, depth=0):
  """Tries to build a value `spec` rejects (best effort)."""
  cands = []
  if isinstance(spec, T.Any):
    return value_for(spec, rng, True, depth)
  if not spec.is_noneable:
    cands.append(None)
  if spec.frozen:
    d = spec.default
    cands.append(d + 1 if isinstance(d, int) and not isinstance(d, bool) else 'not-frozen')
    if d is not None:
      cands.append(None)        # also when the frozen spec is noneable
    if isinstance(d, bool):
      cands.append(not d)
    # "invalid" is decided by the reference rule for frozen specs (the only
    # acceptable value is the frozen one), not by the library's own apply.
    return rng.choice([c for c in cands if c != d] or [d])
  if isinstance(spec, T.Bool):
    cands += ['x', 2, 1.5]
  elif isinstance(spec, T.Int):
    cands += ['x', 1.5, [1]]
    if spec.min_value is not None:
      cands.append(spec.min_value - 1)
    if spec.max_value is not None:
      cands.append(spec.max_value + 1)
  elif isinstance(spec, T.Float):
    cands += ['x', [1.0]]
    if spec.min_value is not None:
      cands.append(spec.min_value - 0.5)
    if spec.max_value is not None:
      cands.append(spec.max_value + 0.5)
  elif isinstance(spec, T.Str):
    cands += [1, 2.0, ['a']]
  elif isinstance(spec, T.Enum):
    cands += ['__no_member__', 12345]
  elif isinstance(spec, T.List):
    cands += [1, 'x', {'a': 1}]
    ok = value_for(spec, rng, True, depth) or []   # None: a noneable list spec
    if spec.max_size is not None:
      extra = [value_for(spec.element.value, rng, True, depth + 1)
               for _ in range(spec.max_size + 1 - len(ok))]
      cands.append(list(ok) + extra)
    if spec.min_size:
      cands.append(list(ok)[:spec.min_size - 1])
    bad = invalid_for(spec.element.value, rng, depth + 1)
    if not _accepts(spec.element.value, bad):
      cands.append(list(ok) + [bad] if (spec.max_size is None or
                                        len(ok) < spec.max_size)
                   else [bad] + list(ok)[1:])
  elif isinstance(spec, T.Tuple):
    cands += [1, 'x', [1, 2, 3, 4, 5, 6, 7]]
  elif isinstance(spec, T.Dict):
    cands += [1, 'x', [1]]
    if spec.schema is not None and not spec.schema.dynamic_field:
      ok = value_for(spec, rng, True, depth)
      ok = dict(ok or {})
      ok['__undeclared__'] = 1
      cands.append(ok)
  elif isinstance(spec, T.Object):
    cands += [1, 'x', {'a': 1}, M.Leaf(1) if spec.cls is not M.Leaf else 3]
  elif isinstance(spec, T.Union):
    cands += [M.Leaf(1), (1, 2, 3)]
  cands = [c for c in cands if not _accepts(spec, c)]
  if not cands:
    return value_for(spec, rng, True, depth)
  return rng.choice(cands)


def _accepts(spec, v):
  import copy  # pylint: disable=g-import-not-at-top
  try:
    spec.apply(copy.deepcopy(v))
    return True
  except Exception:  # pylint: disable=broad-except
    return False


def same_float(a, b):
  return (a == b) or (isinstance(a, float) and isinstance(b, float)
                      and math.isnan(a) and math.isnan(b))
