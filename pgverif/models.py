"""Harness-defined symbolic classes (importable, so JSON/pickle can find them)."""
import pyglove as pg

T = pg.typing

# Change-event log shared by all notifying classes; entries are
# (receiver object, 'change'|'bound', {relative KeyPath: (old, new)} | None).
EVENT_LOG = []
RECORDING = [False]


def _record(receiver, kind, updates):
  if RECORDING[0]:
    payload = None
    if updates is not None:
      payload = {k: (u.old_value, u.new_value) for k, u in updates.items()}
    EVENT_LOG.append((receiver, kind, payload))


class Any2(pg.Object):
  """Untyped two-field object."""
  x: T.Any() = None
  y: T.Any() = None


class Writable(pg.Object):
  """Untyped object that allows attribute assignment."""
  allow_symbolic_assignment = True
  x: T.Any() = None
  y: T.Any() = None


class Notifier(pg.Object):
  """Object with an overridden change handler."""
  x: T.Any() = None
  y: T.Any() = None

  def _on_change(self, field_updates):
    _record(self, 'change', field_updates)
    super()._on_change(field_updates)


class Bound(pg.Object):
  """Object that overrides only `_on_bound`."""
  x: T.Any() = None

  def _on_bound(self):
    super()._on_bound()
    _record(self, 'bound', None)


class NoSymCmp(pg.Object):
  """Object that does not use symbolic comparison."""
  use_symbolic_comparison = False
  x: T.Any() = None


class Inner(pg.Object):
  p: T.Int(min_value=0, max_value=5) = 1
  q: T.Str().noneable() = None


class Typed(pg.Object):
  """Object with a field of every common spec shape."""
  i: T.Int(min_value=0, max_value=9) = 1
  s: T.Str() = 'a'
  e: T.Enum('a', ['a', 'b', 'c']) = 'a'
  fl: T.Float(min_value=-1.0, max_value=1.0) = 0.0
  b: T.Bool() = False
  l: T.List(T.Int(min_value=0, max_value=9), min_size=1, max_size=4) = [1]
  d: T.Dict([('k', T.Int(), ), ('m', T.Str().noneable())]) = dict(k=0)
  dyn: T.Dict([(pg.typing.StrKey(), T.Int(min_value=0))]) = {}
  u: T.Union([T.Int(), T.Str()]) = 0
  n: T.Int().noneable() = None
  fz: T.Int().freeze(7) = 7
  o: T.Object(Inner).noneable() = None
  lo: T.List(T.Object(Inner), max_size=3) = []
  t: T.Tuple([T.Int(), T.Str()]).noneable() = None


class TypedSub(Typed):
  extra: T.Int(min_value=0) = 0


class Required(pg.Object):
  """Object with required fields (can be partial)."""
  r: T.Int()
  rs: T.Str()
  rd: T.Dict([('a', T.Int()), ('b', T.Int(default=2))])
  opt: T.Any() = None


class TypedNotifier(pg.Object):
  a: T.Int(min_value=0) = 0
  c: T.List(T.Any()) = []
  m: T.Dict() = {}

  def _on_change(self, field_updates):
    _record(self, 'change', field_updates)
    super()._on_change(field_updates)


class Leaf:
  """A non-symbolic leaf object (picklable, value semantics)."""

  def __init__(self, v=0):
    self.v = v

  def __eq__(self, other):
    return isinstance(other, Leaf) and self.v == other.v

  def __ne__(self, other):
    return not self.__eq__(other)

  def __hash__(self):
    return hash(('Leaf', self.v))

  def __repr__(self):
    return f'Leaf({self.v!r})'


@pg.functor()
def add_fn(a, b=1):
  return a + b


def plain_fn(x):
  return x


UNTYPED_CLASSES = [Any2, Writable, Notifier, Bound, NoSymCmp]
TYPED_CLASSES = [Typed, TypedSub, Required, TypedNotifier, Inner]
