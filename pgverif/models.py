"""Harness-defined symbolic classes (importable, so JSON/pickle can find them)."""
import pyglove as pg

T = pg.typing

# Change-event log shared by all notifying classes; entries are
# (receiver object, 'change'|'bound', {relative KeyPath: (old, new)} | None).
EVENT_LOG = []
RECORDING = [False]


def _record(receiver, kind, updates):
  if RECORDING[0]:
    payload = None
    if updates is not None:
      payload = {k: (u.old_value, u.new_value) for k, u in updates.items()}
    EVENT_LOG.append((receiver, kind, payload))


class Any2(pg.Object):
  """Untyped two-field object."""
  x: T.Any() = None
  y: T.Any() = None


class Writable(pg.Object):
  """Untyped object that allows attribute assignment."""
  allow_symbolic_assignment = True
  x: T.Any() = None
  y: T.Any() = None


class Notifier(pg.Object):
  """Object with an overridden change handler."""
  x: T.Any() = None
  y: T.Any() = None

  def _on_change(self, field_updates):
    _record(self, 'change', field_updates)
    super()._on_change(field_updates)


class Bound(pg.Object):
  """Object that overrides only `_on_bound`."""
  x: T.Any() = None

  def _on_bound(self):
    super()._on_bound()
    _record(self, 'bound', None)


class NoSymCmp(pg.Object):
  """Object that does not use symbolic comparison."""
  use_symbolic_comparison = False
  x: T.Any() = None


class Inner(pg.Object):
  p: T.Int(min_value=0, max_value=5) = 1
  q: T.Str().noneable() = None


class Typed(pg.Object):
  """Object with a field of every common spec shape."""
  i: T.Int(min_value=0, max_value=9) = 1
  s: T.Str() = 'a'
  e: T.Enum('a', ['a', 'b', 'c']) = 'a'
  fl: T.Float(min_value=-1.0, max_value=1.0) = 0.0
  b: T.Bool() = False
  l: T.List(T.Int(min_value=0, max_value=9), min_size=1, max_size=4) = [1]
  d: T.Dict([('k', T.Int(), ), ('m', T.Str().noneable())]) = dict(k=0)
  dyn: T.Dict([(pg.typing.StrKey(), T.Int(min_value=0))]) = {}
  u: T.Union([T.Int(), T.Str()]) = 0
  n: T.Int().noneable() = None
  fz: T.Int().freeze(7) = 7
  o: T.Object(Inner).noneable() = None
  lo: T.List(T.Object(Inner), max_size=3) = []
  t: T.Tuple([T.Int(), T.Str()]).noneable() = None


class TypedSub(Typed):
  extra: T.Int(min_value=0) = 0


class Typed2(pg.Object):
  """Spec combinations that `Typed` does not have: frozen + noneable, tight
  list bounds, noneable bounded numbers, frozen members of nested dicts."""
  fzn: T.Str().noneable().freeze('fast') = 'fast'
  fzb: T.Bool().noneable().freeze(True) = True
  l2: T.List(T.Int(min_value=0, max_value=9), min_size=2, max_size=4) = [1, 2]
  ln: T.List(T.Str().noneable(), min_size=1, max_size=3) = ['a']
  nf: T.Float(min_value=0.0, max_value=1.0).noneable() = None
  ne: T.Enum('a', ['a', 'b']).noneable() = 'a'
  dk: T.Dict([('k', T.Int().noneable().freeze(3)),
              ('v', T.List(T.Int(), min_size=1, max_size=2, default=[0]))]) = dict(v=[0])
  lf: T.List(T.Int().freeze(1), max_size=3) = []


class Bounds(pg.Object):
  """Numeric fields whose bounds sit on boundary values (zero of either sign
  and type, equal min and max); mirrored by gen/templates.CLASS_SPECS."""
  z: T.Float(min_value=0.0) = 0.0
  nz: T.Float(min_value=-0.0, max_value=0.0) = 0.0
  m: T.Float(max_value=0) = 0.0
  zi: T.Float(min_value=0, max_value=1.0) = 0.0
  neg: T.Float(min_value=-1.0, max_value=-0.0) = -0.5
  i0: T.Int(min_value=0, max_value=0) = 0
  ip: T.Int(min_value=0) = 0
  lz: T.List(T.Float(min_value=0.0, max_value=1.0), max_size=3) = []


class Required(pg.Object):
  """Object with required fields (can be partial)."""
  r: T.Int()
  rs: T.Str()
  rd: T.Dict([('a', T.Int()), ('b', T.Int(default=2))])
  opt: T.Any() = None


class TypedNotifier(pg.Object):
  a: T.Int(min_value=0) = 0
  c: T.List(T.Any()) = []
  m: T.Dict() = {}

  def _on_change(self, field_updates):
    _record(self, 'change', field_updates)
    super()._on_change(field_updates)


class Leaf:
  """A non-symbolic leaf object (picklable, value semantics)."""

  def __init__(self, v=0):
    self.v = v

  def __eq__(self, other):
    return isinstance(other, Leaf) and self.v == other.v

  def __ne__(self, other):
    return not self.__eq__(other)

  def __hash__(self):
    return hash(('Leaf', self.v))

  def __repr__(self):
    return f'Leaf({self.v!r})'


@pg.functor()
def add_fn(a, b=1):
  return a + b


def plain_fn(x):
  return x


UNTYPED_CLASSES = [Any2, Writable, Notifier, Bound, NoSymCmp]
TYPED_CLASSES = [Typed, TypedSub, Required, TypedNotifier, Inner]
EXTRA_TYPED_CLASSES = [Typed2]


# ---------------------------------------------------------------------------
# C20 (HTML views): classes whose documentation, field descriptions, default /
# frozen values and *names* carry HTML payloads, each with a benign twin of the
# same shape in which every character outside [A-Za-z0-9] is a 'q'.
# Not part of UNTYPED_CLASSES / TYPED_CLASSES (other checks never build them).
# ---------------------------------------------------------------------------

def html_twin(s):
  """Same-length benign twin of a payload string."""
  return ''.join(c if (c.isascii() and c.isalnum()) else 'q' for c in s)


_HDOC = ('Doc </span></div></summary></details><zq17 zq17="1"> & "dq" \'sq\' '
         '--> ]]> </script></style> \\ end.')
_HFIELD = 'field <zq17 zq17="1"> "x" </td></tr></table> &amp; --> ]]>'
_HDEFAULT = 'dflt"><zq17 zq17="1"></span>&lt;'
_HFROZEN = 'frzn\'><zq17 zq17="1"></div>-->'


class HDoc(pg.Object):
  __doc__ = _HDOC
  x: T.Annotated[T.Any(), _HFIELD] = None
  dflt: T.Annotated[T.Str(), _HFIELD] = _HDEFAULT
  fz: T.Annotated[T.Str().freeze(_HFROZEN), _HFIELD]


class TDoc(pg.Object):
  __doc__ = html_twin(_HDOC)
  x: T.Annotated[T.Any(), html_twin(_HFIELD)] = None
  dflt: T.Annotated[T.Str(), html_twin(_HFIELD)] = html_twin(_HDEFAULT)
  fz: T.Annotated[T.Str().freeze(html_twin(_HFROZEN)), html_twin(_HFIELD)]


@pg.members([(T.StrKey(), T.Any(), _HFIELD)])
class HDyn(pg.Object):
  """Object with arbitrary (dynamic) field names."""
  __doc__ = _HDOC


@pg.members([(T.StrKey(), T.Any(), html_twin(_HFIELD))])
class TDyn(pg.Object):
  __doc__ = html_twin(_HDOC)


def _named_class(name):
  return type(name, (pg.Object,), {
      '__module__': __name__, '__annotations__': {'x': T.Any(), 'y': T.Any()},
      'x': None, 'y': None})


_HNAME_ELEM = 'Ne<zq17 zq17="1">'        # element injection from a text position
_HNAME_ATTR = 'Na" zq17="1'              # attribute injection from a quoted value
HNameElem = _named_class(_HNAME_ELEM)
TNameElem = _named_class(html_twin(_HNAME_ELEM))
HNameAttr = _named_class(_HNAME_ATTR)
TNameAttr = _named_class(html_twin(_HNAME_ATTR))

# The one hostile class name Python produces on its own: '<lambda>'.
h_lambda = pg.functor()(lambda x=None, y=None: x)


def qlambdaq(x=None, y=None):
  return x


t_lambda = pg.functor()(qlambdaq)


class ReprLeaf:
  """Non-symbolic leaf whose repr()/str() is an arbitrary string."""

  def __init__(self, text):
    self.text = text

  def __repr__(self):
    return self.text

  def __eq__(self, other):
    return isinstance(other, ReprLeaf) and self.text == other.text

  def __ne__(self, other):
    return not self.__eq__(other)

  def __hash__(self):
    return hash(('ReprLeaf', self.text))


class CtxChild(pg.ContextualObject):
  v: T.Any() = pg.contextual_attribute()


class CtxParent(pg.ContextualObject):
  v: T.Any() = None
  child: T.Any() = None


# kind -> {class key: (hostile class, twin class)}
HTML_CLASS_PAIRS = {
    'doc': {'Doc': (HDoc, TDoc), 'Dyn': (HDyn, TDyn)},
    'class-name': {'NameElem': (HNameElem, TNameElem),
                   'NameAttr': (HNameAttr, TNameAttr),
                   'Lambda': (h_lambda, t_lambda)},
}


# ---------------------------------------------------------------------------
# C09 (change notification / derived-state freshness): typed recording classes,
# so that `is_partial` / `sym_missing()` / `sym_nondefault()` change below a
# subscribed node. Not part of UNTYPED_CLASSES / TYPED_CLASSES.
# ---------------------------------------------------------------------------

class ReqNotifier(pg.Object):
  """Required and defaulted fields + an overridden `_on_change` that logs."""
  r: T.Int()
  rd: T.Dict([('a', T.Int()), ('b', T.Int(default=2))])
  w: T.Any() = None
  ws: T.List(T.Any()) = []

  def _on_change(self, field_updates):
    _record(self, 'change', field_updates)
    super()._on_change(field_updates)


class TypedBound(pg.Object):
  """Typed fields, overrides only `_on_bound` (which logs)."""
  n: T.Int(min_value=0) = 0
  v: T.Any() = None
  vs: T.List(T.Any()) = []
  vd: T.Dict() = {}

  def _on_bound(self):
    super()._on_bound()
    _record(self, 'bound', None)


class DeepTyped(pg.Object):
  """Schema-bound containers nested three deep below an object (the content
  caches of the levels are computed and reset independently)."""
  leaf: T.Object(Inner) = Inner()
  opts: T.Dict([
      ('lr', T.Float(default=0.1)),
      ('sub', T.Dict([
          ('k', T.Int(default=1)),
          ('l', T.List(T.Int(), default=[])),
          ('deep', T.Dict([('z', T.Int(default=0)), ('zs', T.List(T.Int(), default=[]))])),
      ])),
  ])

  def _on_change(self, field_updates):
    _record(self, 'change', field_updates)
    super()._on_change(field_updates)


class PlainBase(pg.Object):
  """A concrete class that does not override `_on_change` ..."""
  x: T.Any() = None
  y: T.Any() = None


class SubNotifier(PlainBase):
  """... and a subclass of it that does."""

  def _on_change(self, field_updates):
    _record(self, 'change', field_updates)
    super()._on_change(field_updates)


C09_CHANGE_CLASSES = (Notifier, TypedNotifier, ReqNotifier, DeepTyped, SubNotifier)
C09_BOUND_CLASSES = (Bound, TypedBound)


# ---------------------------------------------------------------------------
# C03 (schema invariant): zero-field schemas, objects with required members
# nested several levels deep, and a holder with non-partial typed fields into
# which such values can be moved. Not part of UNTYPED_CLASSES / TYPED_CLASSES.
# ---------------------------------------------------------------------------

class Empty(pg.Object):
  """A class without any symbolic field: every key is undeclared."""


class ReqLeaf(pg.Object):
  y: T.Int()
  z: T.Int(min_value=0) = 0


class ReqMid(pg.Object):
  leaf: T.Object(ReqLeaf)
  n: T.Int() = 0
  opt: T.Object(ReqLeaf).noneable() = None
  rd: T.Dict([('a', T.Int()), ('b', T.Int(default=2))]).noneable() = None


class ReqTop(pg.Object):
  mid: T.Object(ReqMid)
  leaf: T.Object(ReqLeaf).noneable() = None
  e: T.Object(Empty).noneable() = None
  tag: T.Dict([]) = {}


class ReqHolder(pg.Object):
  """Typed fields (none of them partial) that accept the values above, plain
  typed dicts/lists and zero-field schemas."""
  top: T.Object(ReqTop).noneable() = None
  mid: T.Object(ReqMid).noneable() = None
  leaf: T.Object(ReqLeaf).noneable() = None
  mids: T.List(T.Object(ReqMid), max_size=3) = []
  dm: T.Dict([('mid', T.Object(ReqMid).noneable()),
              ('leaf', T.Object(ReqLeaf).noneable()),
              ('tag', T.Dict([]))]) = {}
  e: T.Object(Empty).noneable() = None
  tag: T.Dict([]) = {}
  sd: T.Dict([('x', T.Int(default=0)), ('s', T.Str().noneable())]).noneable() = None
  sl: T.List(T.Int(min_value=0), max_size=4).noneable() = None
  anyv: T.Any() = None


C03_NESTED_CLASSES = (Empty, ReqLeaf, ReqMid, ReqTop, ReqHolder)


# ---------------------------------------------------------------------------
# C01 (tree integrity): schema-bound containers whose MEMBERS are symbolic
# nodes (nested typed dicts, lists of Any, Any slots, objects), with required
# keys and size bounds, so that a call the schema rejects (clear / delete /
# pop / overwrite / extend ...) happens on a container that has symbolic
# children. Not part of UNTYPED_CLASSES / TYPED_CLASSES.
# ---------------------------------------------------------------------------

def holder_cfg_spec():
  """Typed dict: one required key without default + symbolic-valued keys."""
  return T.Dict([
      ('name', T.Str()),                                   # required, no default
      ('opts', T.Dict([('k', T.Int(default=1)), ('sub', T.Dict(default={})),
                       ('vs', T.List(T.Any(), default=[]))])),
      ('elems', T.List(T.Any(), default=[])),
      ('any', T.Any(default=None)),
  ])


def holder_rows_spec():
  """Bounded typed list of typed dicts with a required key and Any slots."""
  return T.List(T.Dict([('id', T.Int()),
                        ('payload', T.Any(default=None)),
                        ('tags', T.List(T.Any(), default=[]))]),
                min_size=1, max_size=4)


class Holder(pg.Object):
  """Typed containers (required keys, bounds) that hold symbolic children."""
  cfg: holder_cfg_spec()
  rows: holder_rows_spec()
  inner: T.Object(Inner) = Inner()
  free: T.Any() = None


class HolderNotifier(Holder):
  """Same, with an overridden change handler."""

  def _on_change(self, field_updates):
    _record(self, 'change', field_updates)
    super()._on_change(field_updates)
