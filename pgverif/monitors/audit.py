"""sys.addaudithook sentinel: did any dynamically compiled code run? (C19)

The hook is installed once per process (audit hooks cannot be removed) and is
inert unless a `Watch` is active.  While a watch is active every `exec` audit
event (raised by the interpreter for `exec()` and `eval()` of a code object) and
every `compile` event is recorded.  An `exec` event counts as *dynamic
execution* when the code object was not loaded from a Python source file
(`co_filename` does not end in `.py`/`.pyc` and is not a frozen module) and was
not compiled by the harness itself (file names given in `own`).  Nothing about
the library is assumed: whatever file name it passes to `compile()`, running
any part of a submitted program shows up here.

`FdProbe` complements the hook for runs in a forked sandbox, where the child's
audit events are invisible to the parent: an object whose attribute load writes
one byte to a pipe that survives the fork.
"""
import contextlib
import os
import sys

_installed = False
_active = None


class Watch:
  """Events recorded during one window."""

  def __init__(self, own=()):
    self.own = frozenset(own)
    self.dynamic_execs = 0       # exec/eval of code that is not from a file
    self.file_execs = 0          # module imports etc.
    self.own_execs = 0           # harness' reference runs (normally 0 in a window)
    self.compiles = 0
    self.filenames = set()       # co_filename of the dynamic execs

  @property
  def executed(self):
    return self.dynamic_execs > 0


def _is_file(fn):
  return (isinstance(fn, str)
          and (fn.endswith('.py') or fn.endswith('.pyc') or fn.startswith('<frozen')))


def _hook(event, args):
  w = _active
  if w is None:
    return
  if event == 'exec':
    fn = getattr(args[0], 'co_filename', None)
    if fn in w.own:
      w.own_execs += 1
    elif _is_file(fn):
      w.file_execs += 1
    else:
      w.dynamic_execs += 1
      if len(w.filenames) < 8:
        w.filenames.add(repr(fn))
  elif event == 'compile':
    w.compiles += 1


def install():
  global _installed
  if not _installed:
    sys.addaudithook(_hook)
    _installed = True


@contextlib.contextmanager
def watch(own=()):
  """Records exec/compile audit events of the enclosed block."""
  global _active
  install()
  if _active is not None:
    raise RuntimeError('audit.watch is not re-entrant')
  w = Watch(own)
  _active = w
  try:
    yield w
  finally:
    _active = None


def self_test():
  """The sentinel must see a dynamic exec and ignore nothing else. -> bool"""
  with watch(own=('<own>',)) as w:
    exec(compile('1 + 1', '', 'exec'), {})          # pylint: disable=exec-used
    eval(compile('1 + 1', '<x>', 'eval'), {})       # pylint: disable=eval-used
    exec(compile('1 + 1', '<own>', 'exec'), {})     # pylint: disable=exec-used
  with watch() as w2:
    compile('1 + 1', '', 'exec')
  return (w.dynamic_execs == 2 and w.own_execs == 1 and not w2.executed
          and w2.compiles >= 1)


class FdProbe:
  """Sentinel whose attribute load `probe.hit` is visible across fork()."""

  def __init__(self):
    self._r, self._w = os.pipe()
    os.set_blocking(self._r, False)

  @property
  def hit(self):
    os.write(self._w, b'x')
    return 0

  def hits(self):
    n = 0
    while True:
      try:
        b = os.read(self._r, 4096)
      except BlockingIOError:
        break
      if not b:
        break
      n += len(b)
    return n

  def close(self):
    for fd in (self._r, self._w):
      try:
        os.close(fd)
      except OSError:
        pass

  def __reduce__(self):          # results of a sandboxed run are pickled
    return (int, (0,))
