"""Derived-state freshness oracle (C09).

The facts a symbolic value reports about itself

  is_partial, sym_missing(), sym_nondefault(), sym_puresymbolic,
  is_deterministic, is_abstract   (+ the non-flattened / alias spellings)

are memoised by the library. The oracle reads them on every node of the live
forest *before* a step (so that every memo is populated) and after it, and
compares the values read after the step with the same queries on a fresh copy
of the current contents:

  primary copy   pg.from_json(pg.to_json(root), allow_partial=True)
  second copy    `rebuild(root)`: every node re-created through the public
                 constructors from sym_items() / value_spec / flags

A live answer is stale when it differs from the primary copy and, if the
second copy could be made, from that one too: a shortcoming of the JSON round
trip (C05; `to_json` drops the value spec of a stand-alone typed Dict) must not
become a C09 alarm.

Only public API is used.
"""
import math

import pyglove as pg
from pgverif.monitors import tree as TM

MISSING = pg.MISSING_VALUE

# name -> reader. Every reader is a pure query of the public API.
FACTS = {
    'is_partial': lambda n: n.is_partial,
    'sym_missing()': lambda n: n.sym_missing(),
    'sym_missing(flatten=False)': lambda n: n.sym_missing(flatten=False),
    'sym_nondefault()': lambda n: n.sym_nondefault(),
    'non_default_values(flatten=False)': lambda n: n.non_default_values(flatten=False),
    'sym_puresymbolic': lambda n: n.sym_puresymbolic,
    'is_deterministic': lambda n: n.is_deterministic,
    'is_abstract': lambda n: n.is_abstract,
}
# The facts named by the property; the other readers are other spellings of them.
CORE = ('is_partial', 'sym_missing()', 'sym_nondefault()', 'sym_puresymbolic',
        'is_deterministic', 'is_abstract')


def same_value(a, b):
  """Equality of fact contents: symbolic equality, NaN == NaN, bool != int,
  plain dicts compared per key (key order is not part of the claim)."""
  if a is b:
    return True
  if isinstance(a, bool) or isinstance(b, bool):
    return isinstance(a, bool) and isinstance(b, bool) and a == b
  if isinstance(a, float) and isinstance(b, float) and math.isnan(a) and math.isnan(b):
    return True
  if type(a) is dict and type(b) is dict:
    if len(a) != len(b):
      return False
    for k, v in a.items():
      if k not in b or type(k) is not type([x for x in b if x == k][0]):
        return False
      if not same_value(v, b[k]):
        return False
    return True
  try:
    return bool(pg.eq(a, b))
  except Exception:  # pylint: disable=broad-except
    return False


def read(node, names=None):
  """{fact name: ('ok', value) | ('raise', exception class name)}."""
  out = {}
  for name, fn in FACTS.items():
    if names is not None and name not in names:
      continue
    try:
      out[name] = ('ok', fn(node))
    except Exception as e:  # pylint: disable=broad-except
      out[name] = ('raise', type(e).__name__)
  return out


def facts_equal(a, b):
  if a[0] != b[0]:
    return False
  if a[0] == 'raise':
    return a[1] == b[1]
  return same_value(a[1], b[1])


def touch(forest, counters=None, rng=None):
  """Calls every getter on every node (populates the memos).

  With `rng` (sparse mode) only a random subset of the nodes is asked, and each
  of them only a random subset of the getters, so that the memos the library
  keeps are populated in part only (the state a real program is in).

  Returns {(ridx, keys): facts} for change detection by the caller."""
  out = {}
  all_names = list(FACTS)
  for ridx, root in enumerate(forest):
    if not isinstance(root, pg.Symbolic):
      continue
    for n, keys in TM.nodes_of(root):
      if isinstance(n, pg.Ref):
        continue
      names = None
      if rng is not None:
        mode = getattr(rng, 'sparse_mode', 'half')
        if mode == 'half':
          if rng.random() < 0.5:
            continue
          names = set(rng.sample(all_names, rng.randint(1, max(1, len(all_names) // 2))))
        else:
          # 'one-fact': one and the same getter, asked of the roots only or of
          # a few nodes, and nothing else.
          if mode == 'one-fact@root' and keys:
            continue
          if mode == 'one-fact@some' and rng.random() < 0.7:
            continue
          names = {rng.sparse_fact}
      out[(ridx, tuple(keys))] = read(n, names)
      if counters is not None:
        counters['derived_getter_rounds'] += 1
  return out


def root_facts_changed(before, after):
  """True when a core fact of some root differs between two `touch` results
  (the facts of a root aggregate everything below it)."""
  roots = {k for k in list(before) + list(after) if not k[1]}
  for k in roots:
    if k not in before or k not in after:
      return True
    if any(name in before[k] and name in after[k]
           and not facts_equal(before[k][name], after[k][name]) for name in CORE):
      return True
  return False


def json_copy(root):
  return pg.from_json(pg.to_json(root), allow_partial=True)


def rebuild(node, make_callback=None, registered=None):
  """Re-creates `node` through the public constructors.

  make_callback(kind) -> onchange_callback or None for a new 'Dict' / 'List';
  registered(new_node, callback) is told about every node that was created."""
  with pg.allow_partial(True):
    return _rebuild(node, make_callback, registered)


def _rebuild(node, make_callback, registered):
  if not isinstance(node, pg.Symbolic) or isinstance(node, pg.Ref):
    return node
  sub = lambda v: _rebuild(v, make_callback, registered)
  cb = None
  if isinstance(node, pg.List):
    cb = make_callback('List') if make_callback else None
    new = pg.List([sub(v) for v in node.sym_values()],
                  value_spec=node.value_spec, allow_partial=node.allow_partial,
                  accessor_writable=node.accessor_writable,
                  onchange_callback=cb)
  elif isinstance(node, pg.Dict):
    cb = make_callback('Dict') if make_callback else None
    new = pg.Dict({k: sub(v) for k, v in node.sym_items()},
                  value_spec=node.value_spec, allow_partial=node.allow_partial,
                  accessor_writable=node.accessor_writable,
                  onchange_callback=cb)
  elif isinstance(node, pg.Object):
    kwargs = {k: sub(v) for k, v in node.sym_items() if not MISSING == v}
    new = type(node)(allow_partial=node.allow_partial, **kwargs)
    if not node.accessor_writable:
      new.set_accessor_writable(False)
  else:
    return node.clone(deep=True)   # other symbolic values (hyper primitives...)
  if node.is_sealed:
    new.seal(True)
  if registered is not None:
    registered(new, cb)
  return new


def node_at(root, keys):
  n = root
  for k in keys:
    n = n.sym_getattr(k)
  return n


def check(forest, counters, touched=None):
  """Compares the facts of every live node with fresh copies.

  touched: result of `touch(forest)` taken after the step (re-read here when
    None). Returns a list of problems
    (ridx, keys, node type name, fact, live, fresh); an empty list = fresh.
  """
  live = touched if touched is not None else touch(forest)
  problems = []
  for ridx, root in enumerate(forest):
    if not isinstance(root, pg.Symbolic):
      continue
    try:
      copy1 = json_copy(root)
      counters['fresh_json_copies'] += 1
    except Exception:  # pylint: disable=broad-except
      copy1 = None
      counters['fresh_json_copy_failed'] += 1
    copy2 = [None, False]       # [value, attempted]

    def second():
      if not copy2[1]:
        copy2[1] = True
        try:
          copy2[0] = rebuild(root)
          counters['fresh_rebuilt_copies'] += 1
        except Exception:  # pylint: disable=broad-except
          counters['fresh_rebuild_failed'] += 1
      return copy2[0]

    primary = copy1 if copy1 is not None else second()
    if primary is None:
      counters['derived_no_oracle'] += 1
      continue
    for n, keys in TM.nodes_of(root):
      if isinstance(n, pg.Ref):
        continue
      mine = live.get((ridx, tuple(keys)))
      if mine is None:
        continue
      try:
        twin = node_at(primary, keys)
      except Exception:  # pylint: disable=broad-except
        twin = None
      if not isinstance(twin, pg.Symbolic) or type(twin) is not type(n):
        counters['derived_twin_missing'] += 1
        continue
      counters['derived_nodes_compared'] += 1
      fresh = read(twin, set(mine))
      for name in FACTS:
        if name not in mine:
          continue
        counters['derived_fact_comparisons'] += 1
        if facts_equal(mine[name], fresh[name]):
          continue
        # Ask the other, independently made, fresh copy. A live answer that
        # agrees with one fresh computation is not stale (pg.to_json drops the
        # value spec of a stand-alone typed Dict/List, for instance).
        shown = fresh[name]
        if copy1 is not None:
          other = second()
          try:
            twin2 = node_at(other, keys) if other is not None else None
          except Exception:  # pylint: disable=broad-except
            twin2 = None
          if isinstance(twin2, pg.Symbolic) and type(twin2) is type(n):
            f2 = read(twin2)[name]
            if facts_equal(mine[name], f2):
              counters['derived_json_copy_unfaithful'] += 1
              continue
            shown = f2
        problems.append((ridx, list(keys), type(n).__name__, name,
                         mine[name], shown))
  return problems
