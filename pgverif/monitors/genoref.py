"""Independent reference for search spaces (C11-C14).

Written from the *specification of the constraints* (arity, index range,
distinct, sorted, conditional sub-spaces, float range, string genome); it
imports nothing from pyglove and shares no code with `pg.geno`.

A space is described by plain JSON-able data (see `gen/spaces.py`):

  space  := {'t': 'space', 'elems': [elem, ...]}
  elem   := {'t': 'choice', 'k': K, 'cands': [space, ...], 'distinct': bool,
             'sorted': bool, 'loc': str, 'name': str|None, 'lits': list|None}
          | {'t': 'float', 'lo': float, 'hi': float, 'loc': str, 'name': ...}
          | {'t': 'custom', 'loc': str, 'name': ...}

A *member* is the flat sequence of decisions in decision order (depth first:
first pick, the sub-space of that pick, second pick, ...).  Everything else
(size, order, the documented DNA tree/nested-number shape, the decision point
answering each position with its id) is derived from the description here.
"""
import itertools


# --------------------------------------------------------------------------
# Basic facts about a description.
# --------------------------------------------------------------------------

def kind(elem):
  """Stable class name of a decision point (used in mechanism keys)."""
  if elem['t'] == 'float':
    return 'float'
  if elem['t'] == 'custom':
    return 'custom'
  if elem['k'] == 1:
    return 'oneof'
  flags = [f for f in ('distinct', 'sorted') if elem[f]]
  return 'manyof[' + ('+'.join(flags) or 'plain') + ']'


def is_finite(space):
  for e in space['elems']:
    if e['t'] != 'choice':
      return False
    if not all(is_finite(c) for c in e['cands']):
      return False
  return True


def pick_tuples(elem):
  """All admissible index tuples of a choice, in lexicographic order."""
  n, k = len(elem['cands']), elem['k']
  out = []
  for picks in itertools.product(range(n), repeat=k):
    if elem['distinct'] and len(set(picks)) != k:
      continue
    if elem['sorted'] and any(a > b for a, b in zip(picks, picks[1:])):
      continue
    out.append(picks)
  return out


def size(space):
  """Number of members; None when the space is infinite."""
  total = 1
  for e in space['elems']:
    s = elem_size(e)
    if s is None:
      return None
    total *= s
  return total


def elem_size(e):
  if e['t'] != 'choice':
    return None
  subs = [size(c) for c in e['cands']]
  if any(s is None for s in subs):
    return None
  total = 0
  for picks in pick_tuples(e):
    m = 1
    for p in picks:
      m *= subs[p]
    total += m
  return total


# --------------------------------------------------------------------------
# Enumeration in decision order (== lexicographic order of the flat form).
# --------------------------------------------------------------------------

def enumerate_flat(space):
  """Yields every member (tuple of decisions) of a finite space, in order."""
  yield from _enum_elems(space['elems'], 0)


def _enum_elems(elems, i):
  if i == len(elems):
    yield ()
    return
  for head in _enum_elem(elems[i]):
    for tail in _enum_elems(elems, i + 1):
      yield head + tail


def _enum_elem(e):
  if e['t'] != 'choice':
    raise ValueError('infinite space cannot be enumerated')
  tuples = pick_tuples(e)
  prefixes = {t[:i] for t in tuples for i in range(e['k'] + 1)}
  yield from _enum_picks(e, (), prefixes)


def _enum_picks(e, prior, prefixes):
  """Pick by pick: a pick, the sub-space of that pick, then the next pick."""
  if len(prior) == e['k']:
    yield ()
    return
  for p in range(len(e['cands'])):
    if prior + (p,) not in prefixes:
      continue                    # breaks a constraint or cannot be completed
    for sub in enumerate_flat(e['cands'][p]):
      head = (p,) + sub
      for tail in _enum_picks(e, prior + (p,), prefixes):
        yield head + tail


def compare(a, b):
  """Reference order of two members of the same space: -1, 0, 1."""
  for x, y in zip(a, b):
    if x != y:
      return -1 if x < y else 1
  return (len(a) > len(b)) - (len(a) < len(b))


# --------------------------------------------------------------------------
# Membership with localisation, and the per-position decision-point map.
# --------------------------------------------------------------------------

class Point:
  """A decision point instance on the path of one member."""
  __slots__ = ('elem', 'path', 'sub', 'pos', 'value', 'active')

  def __init__(self, elem, path, sub, pos=None, value=None, active=True):
    self.elem, self.path, self.sub = elem, path, sub
    self.pos, self.value, self.active = pos, value, active

  @property
  def kind(self):
    return kind(self.elem)

  @property
  def id(self):
    return render_id(self.path)

  @property
  def parent_id(self):
    """Id of the multi-choice a subchoice belongs to (else its own id)."""
    return render_id(self.path[:-1]) if self.sub is not None else self.id

  @property
  def name(self):
    return self.elem.get('name')

  @property
  def n(self):
    return len(self.elem['cands']) if self.elem['t'] == 'choice' else None

  def __repr__(self):
    return f'Point({self.id!r}, pos={self.pos}, value={self.value!r})'


def loc_tokens(loc):
  """'a', 'a.b', '[0]', 'a[1]' -> path tokens ('k', str) / ('i', int)."""
  toks, cur, i = [], '', 0
  while i < len(loc):
    ch = loc[i]
    if ch == '.':
      if cur:
        toks.append(('k', cur))
        cur = ''
    elif ch == '[':
      if cur:
        toks.append(('k', cur))
        cur = ''
      j = loc.index(']', i)
      toks.append(('i', int(loc[i + 1:j])))
      i = j
    else:
      cur += ch
    i += 1
  if cur:
    toks.append(('k', cur))
  return tuple(toks)


def render_id(path):
  """Documented id format: `a[=1/3].b`, `a[0][=0/2].x`, `l[1]`."""
  s = ''
  for t in path:
    if t[0] == 'k':
      s += ('.' if s else '') + t[1]
    elif t[0] == 'i':
      s += f'[{t[1]}]'
    else:
      s += f'[={t[1]}/{t[2]}]'
  return s


class NonMember(Exception):
  """Raised by `walk`; carries (reason, kind of the deciding point, pos)."""

  def __init__(self, reason, point_kind, pos):
    super().__init__(reason)
    self.reason, self.point_kind, self.pos = reason, point_kind, pos


def _is_int(v):
  return isinstance(v, int) and not isinstance(v, bool)


def walk(space, flat, prefix=()):
  """Decodes `flat` against `space`; returns the list of active Points.

  Raises NonMember at the first decision that breaks a constraint.
  """
  flat = list(flat)
  points = []
  pos = _walk_space(space, flat, 0, tuple(prefix), points)
  if pos != len(flat):
    raise NonMember('too-long', 'space', pos)
  return points


def _walk_space(space, flat, pos, prefix, points):
  for e in space['elems']:
    pos = _walk_elem(e, flat, pos, prefix + loc_tokens(e['loc']), points)
  return pos


def _next(flat, pos, e):
  if pos >= len(flat):
    raise NonMember('too-short', kind(e), pos)
  return flat[pos]


def _walk_elem(e, flat, pos, path, points):
  if e['t'] == 'float':
    v = _next(flat, pos, e)
    if not isinstance(v, float):
      raise NonMember('type', 'float', pos)
    if v != v or v < e['lo'] or v > e['hi']:
      raise NonMember('range', 'float', pos)
    points.append(Point(e, path, None, pos, v))
    return pos + 1
  if e['t'] == 'custom':
    v = _next(flat, pos, e)
    if not isinstance(v, str):
      raise NonMember('type', 'custom', pos)
    points.append(Point(e, path, None, pos, v))
    return pos + 1
  n, k = len(e['cands']), e['k']
  picks = []
  for j in range(k):
    v = _next(flat, pos, e)
    if not _is_int(v):
      raise NonMember('type', kind(e), pos)
    if v < 0 or v >= n:
      raise NonMember('range', kind(e), pos)
    if e['distinct'] and k > 1 and v in picks:
      raise NonMember('distinct', kind(e), pos)
    if e['sorted'] and k > 1 and picks and v < picks[-1]:
      raise NonMember('sorted', kind(e), pos)
    picks.append(v)
    ppath = path + (('i', j),) if k > 1 else path
    points.append(Point(e, ppath, j if k > 1 else None, pos, v))
    pos = _walk_space(e['cands'][v], flat, pos + 1,
                      ppath + (('c', v, n),), points)
  return pos


def is_member(space, flat):
  try:
    walk(space, flat)
    return True
  except NonMember:
    return False


def why_not(space, flat):
  """None for a member, else (reason, kind of deciding point)."""
  try:
    walk(space, flat)
    return None
  except NonMember as e:
    return (e.reason, e.point_kind)


def all_points(space, prefix=()):
  """Every decision point of the space in declaration order (inactive Points).

  Multi-choices contribute one Point per subchoice, each followed by the
  points of all candidates below that subchoice.
  """
  out = []
  for e in space['elems']:
    path = tuple(prefix) + loc_tokens(e['loc'])
    if e['t'] != 'choice':
      out.append(Point(e, path, None, active=False))
      continue
    n, k = len(e['cands']), e['k']
    for j in range(k):
      ppath = path + (('i', j),) if k > 1 else path
      out.append(Point(e, ppath, j if k > 1 else None, active=False))
      for ci, c in enumerate(e['cands']):
        out.extend(all_points(c, ppath + (('c', ci, n),)))
  return out


# --------------------------------------------------------------------------
# The documented DNA tree and nested-number forms.
# --------------------------------------------------------------------------

class Node:
  """(value, children) with the index of the Point that owns the value."""
  __slots__ = ('value', 'children', 'point')

  def __init__(self, value, children, point=None):
    self.value, self.children, self.point = value, children, point

  def key(self):
    return (self.value, type(self.value).__name__,
            tuple(c.key() for c in self.children))

  def __eq__(self, other):
    return isinstance(other, Node) and self.key() == other.key()

  def __hash__(self):
    return hash(self.key())

  def __repr__(self):
    return f'N({self.value!r}, {self.children!r})'


def _norm(value, children, point=None):
  """DNA normalisation: a node without value and with one child is its child;
  a single value-less child is replaced by its children."""
  if len(children) == 1 and children[0].value is None:
    children = children[0].children
  if value is None and len(children) == 1:
    return children[0]
  return Node(value, list(children), point)


def tree(space, flat):
  """Canonical DNA tree of a member (Node)."""
  points = walk(space, flat)
  it = iter(range(len(points)))
  return _tree_space(space, points, it)


def _tree_space(space, points, it):
  return _norm(None, [_tree_elem(e, points, it) for e in space['elems']])


def _tree_elem(e, points, it):
  if e['t'] != 'choice':
    i = next(it)
    return Node(points[i].value, [], i)
  kids = []
  for _ in range(e['k']):
    i = next(it)
    sub = _tree_space(e['cands'][points[i].value], points, it)
    kids.append(_norm(points[i].value, [sub], i))
  return _norm(None, kids)


def flatten(node):
  out = [] if node.value is None else [node.value]
  for c in node.children:
    out.extend(flatten(c))
  return out


def nested(node):
  """Compact nested-number form per the documented grammar:
  leaf -> value; no value -> [children]; value with one child -> chained
  tuple (v, w, ..., last); value with several children -> (v, [children])."""
  if node.value is None:
    return [nested(c) for c in node.children]
  if not node.children:
    return node.value
  if len(node.children) == 1:
    sub = nested(node.children[0])
    if isinstance(sub, tuple):
      return (node.value,) + sub
    return (node.value, sub)
  return (node.value, [nested(c) for c in node.children])


def copy_tree(node):
  return Node(node.value, [copy_tree(c) for c in node.children], node.point)


def tree_is_member(space, node):
  """A DNA-shaped input is a member iff its decisions are a member and its
  shape is the canonical shape of that member."""
  flat = flatten(node)
  try:
    return tree(space, flat) == node
  except NonMember:
    return False


# --------------------------------------------------------------------------
# Random members (harness-side sampler; not part of the oracle).
# --------------------------------------------------------------------------

def random_member(space, rng):
  out = []
  for e in space['elems']:
    if e['t'] == 'float':
      out.append(rng.choice([e['lo'], e['hi'], rng.uniform(e['lo'], e['hi'])]))
    elif e['t'] == 'custom':
      out.append(rng.choice(['', 'abc', 'x,y', '0']))
    else:
      n, k = len(e['cands']), e['k']
      if e['distinct'] and k > 1:
        picks = rng.sample(range(n), k)
      else:
        picks = [rng.randrange(n) for _ in range(k)]
      if e['sorted']:
        picks.sort()
      for p in picks:
        out.append(p)
        out.extend(random_member(e['cands'][p], rng))
  return tuple(out)


# --------------------------------------------------------------------------
# Float decision points of a description (added for C11; nothing above uses it).
# --------------------------------------------------------------------------

def float_elems(space):
  """Every float element of a description, in declaration order (each once,
  whatever the number of picks of the choices above it)."""
  out = []
  for e in space['elems']:
    if e['t'] == 'float':
      out.append(e)
    elif e['t'] == 'choice':
      for c in e['cands']:
        out.extend(float_elems(c))
  return out


def float_member(elem, v):
  """Reference membership of one float decision: a float inside the closed
  range [lo, hi] (NaN is inside no range); `scale` is a hint and never
  changes the set."""
  return isinstance(v, float) and v == v and elem['lo'] <= v <= elem['hi']


# --------------------------------------------------------------------------
# Enumeration from a given member on (added for C12; nothing above uses it).
# --------------------------------------------------------------------------

def enumerate_from(space, start):
  """Yields the members >= `start` (a member) of a finite space in reference
  order, `start` itself first, without visiting the members before it: the
  branches that lie before `start` are pruned pick by pick."""
  for m, _ in _from_elems(space['elems'], 0, tuple(start), True):
    yield m


def successor(space, flat):
  """The member that follows `flat` in reference order; None for the last."""
  it = enumerate_from(space, flat)
  first = next(it, None)
  if first is None or tuple(first) != tuple(flat):
    raise ValueError('not a member: %r' % (flat,))
  return next(it, None)


def first_member(space):
  """First member of a finite space in reference order."""
  return next(enumerate_flat(space))


def _from_elems(elems, i, rest, tight):
  """(member part of elems[i:], still equal to the start so far?); `rest` is
  what remains of the start while `tight`."""
  if i == len(elems):
    yield (), tight
    return
  for head, t in _from_elem(elems[i], rest, tight):
    r = rest[len(head):] if t else ()
    for tail, t2 in _from_elems(elems, i + 1, r, t):
      yield head + tail, t2


def _from_elem(e, rest, tight):
  if e['t'] != 'choice':
    raise ValueError('infinite space cannot be enumerated')
  tuples = pick_tuples(e)
  prefixes = {t[:i] for t in tuples for i in range(e['k'] + 1)}
  yield from _from_picks(e, (), prefixes, rest, tight)


def _from_picks(e, prior, prefixes, rest, tight):
  if len(prior) == e['k']:
    yield (), tight
    return
  for p in range(len(e['cands'])):
    if prior + (p,) not in prefixes:
      continue
    if tight and (not rest or p < rest[0]):
      continue
    t = tight and p == rest[0]
    for sub, t1 in _from_elems(e['cands'][p]['elems'], 0, rest[1:] if t else (), t):
      head = (p,) + sub
      r = rest[len(head):] if t1 else ()
      for tail, t2 in _from_picks(e, prior + (p,), prefixes, r, t1):
        yield head + tail, t2


# --------------------------------------------------------------------------
# Enumerable custom points and the reported size (added for C11 round 4;
# nothing above uses it).  A custom element may carry `values`: the finite
# sequence of pairwise different strings its user-given successor function
# walks through (first value, ..., last value, end).  Such a point can be
# iterated although its reported size, like that of every custom point and of
# every float, is "infinite".
# --------------------------------------------------------------------------

def custom_values(e):
  return e.get('values') if e['t'] == 'custom' else None


def enum_size(space):
  """Number of members an iteration yields; None when the space cannot be
  iterated (a float or a custom point without successor function is
  reachable)."""
  total = 1
  for e in space['elems']:
    s = _enum_elem_size(e)
    if s is None:
      return None
    total *= s
  return total


def _enum_elem_size(e):
  if e['t'] == 'custom':
    vals = custom_values(e)
    return None if vals is None else len(vals)
  if e['t'] != 'choice':
    return None
  subs = [enum_size(c) for c in e['cands']]
  if any(s is None for s in subs):
    return None
  total = 0
  for picks in pick_tuples(e):
    m = 1
    for p in picks:
      m *= subs[p]
    total += m
  return total


def reported_size(space):
  """The size a space reports: the number of members, -1 ("infinite") as
  soon as one float or custom point is reachable."""
  s = size(space)
  return -1 if s is None else s


def reported_elem_size(e):
  s = elem_size(e)
  return -1 if s is None else s


def enumerate_members(space):
  """`enumerate_flat` for spaces whose custom points are enumerable: a custom
  point contributes its values in the order of its successor function."""
  yield from _enumx_elems(space['elems'], 0)


def _enumx_elems(elems, i):
  if i == len(elems):
    yield ()
    return
  for head in _enumx_elem(elems[i]):
    for tail in _enumx_elems(elems, i + 1):
      yield head + tail


def _enumx_elem(e):
  vals = custom_values(e)
  if vals is not None:
    for v in vals:
      yield (v,)
    return
  if e['t'] != 'choice':
    raise ValueError('space cannot be enumerated')
  tuples = pick_tuples(e)
  prefixes = {t[:i] for t in tuples for i in range(e['k'] + 1)}
  yield from _enumx_picks(e, (), prefixes)


def _enumx_picks(e, prior, prefixes):
  if len(prior) == e['k']:
    yield ()
    return
  for p in range(len(e['cands'])):
    if prior + (p,) not in prefixes:
      continue
    for sub in enumerate_members(e['cands'][p]):
      head = (p,) + sub
      for tail in _enumx_picks(e, prior + (p,), prefixes):
        yield head + tail


def custom_elems(space):
  """Every custom element of a description, in declaration order."""
  out = []
  for e in space['elems']:
    if e['t'] == 'custom':
      out.append(e)
    elif e['t'] == 'choice':
      for c in e['cands']:
        out.extend(custom_elems(c))
  return out


def increasing_customs(space):
  """True when the values of every enumerable custom point increase strictly
  (then the whole enumeration increases strictly in decision order)."""
  for e in custom_elems(space):
    vals = custom_values(e)
    if vals is not None and any(not a < b for a, b in zip(vals, vals[1:])):
      return False
  return True


def infinite_direct(space):
  """Number of elements of this very space (not of sub-spaces) that are
  infinite by the reference."""
  return sum(1 for e in space['elems'] if elem_size(e) is None)


def max_infinite_direct(space):
  """Largest number of infinite elements directly in one (sub-)space."""
  best = infinite_direct(space)
  for e in space['elems']:
    if e['t'] == 'choice':
      for c in e['cands']:
        best = max(best, max_infinite_direct(c))
  return best


def random_member_from(space, rng, strings):
  """`random_member` with the custom genomes drawn from the values of the
  point, else from `strings`."""
  out = []
  for e in space['elems']:
    if e['t'] == 'float':
      out.append(rng.choice([e['lo'], e['hi'], rng.uniform(e['lo'], e['hi'])]))
    elif e['t'] == 'custom':
      out.append(rng.choice(custom_values(e) or strings))
    else:
      n, k = len(e['cands']), e['k']
      if e['distinct'] and k > 1:
        picks = rng.sample(range(n), k)
      else:
        picks = [rng.randrange(n) for _ in range(k)]
      if e['sorted']:
        picks.sort()
      for p in picks:
        out.append(p)
        out.extend(random_member_from(e['cands'][p], rng, strings))
  return tuple(out)
