"""Strict HTML well-formedness checker and skeleton extractor (C20).

`check(text)` tokenizes a document with `html.parser.HTMLParser`
(`convert_charrefs=False`) and applies rules that are *stricter* than an HTML5
tree builder, because the library under test writes every tag explicitly:

* every non-void element has a matching end tag; end tags match the innermost
  open element (no implied end tags, no recovery);
* no raw `<` in character data outside `script`/`style` (raw-text elements:
  their content is never tokenized, exactly like a browser);
* every start tag, as it stands in the source, matches the attribute grammar
  `name`, `name="..."`, `name='...'` or `name=unquoted`, attributes separated by
  white space, no duplicate attribute names on one element (a value that closes
  its quote early leaves junk that violates this grammar);
* no end tag for a void element, no markup left unterminated at the end.

Result (`Report`):

* `errors`    list of `(code, detail)`;
* `skeleton`  tuple of events `('S'|'V', tag, attr-names)`, `('E', tag)`,
              `('C',)` comment, `('D',)` declaration / CDATA / PI — i.e. element
              names, attribute *names* and nesting, no text and no values;
* `texts`     list of `(in_raw_text, classes, text)` with character references
              resolved; `classes` = union of the `class` tokens of all open
              ancestors (lets a client discard e.g. tooltip subtrees);
* `attrs`     list of `(tag, name, value)` with references resolved.

Nothing here knows about pyglove.
"""
import collections
import html
import html.parser
import re

VOID = frozenset(['area', 'base', 'br', 'col', 'embed', 'hr', 'img', 'input',
                  'link', 'meta', 'source', 'track', 'wbr'])
RAW_TEXT = frozenset(['script', 'style'])

_ATTR = (r'''[ \t\r\n\f]+[^ \t\r\n\f"'<>/=\x00]+'''
         r'''(?:[ \t\r\n\f]*=[ \t\r\n\f]*'''
         r'''(?:"[^"]*"|'[^']*'|[^ \t\r\n\f"'=<>`]+))?''')
_START = re.compile(r'<[A-Za-z][A-Za-z0-9:_-]*(?:%s)*[ \t\r\n\f]*/?>' % _ATTR)


class Report:
  """Outcome of one strict parse."""

  def __init__(self):
    self.errors = []
    self.events = []
    self.texts = []
    self.attrs = []

  @property
  def skeleton(self):
    return tuple(self.events)

  @property
  def ok(self):
    return not self.errors

  def error_codes(self):
    return sorted({c for c, _ in self.errors})

  def elements(self):
    """Multiset of element names (start tags)."""
    return collections.Counter(e[1] for e in self.events if e[0] in 'SV')

  def attributes(self):
    """Multiset of (element name, attribute name)."""
    c = collections.Counter()
    for e in self.events:
      if e[0] in 'SV':
        for a in e[2]:
          c[(e[1], a)] += 1
    return c

  def text(self, exclude_classes=(), include_raw=False):
    """Character data in document order, references resolved."""
    ex = set(exclude_classes)
    return ''.join(t for raw, classes, t in self.texts
                   if (include_raw or not raw) and not (ex & classes))

  def attr_values(self, name=None):
    return [v for _, n, v in self.attrs if name is None or n == name]

  def describe(self, limit=6):
    return '; '.join(f'{c}: {d}' for c, d in self.errors[:limit])


class _Strict(html.parser.HTMLParser):

  def __init__(self, report):
    super().__init__(convert_charrefs=False)
    self.r = report
    self.stack = []          # [(tag, frozenset(class tokens))]
    self.buf = []            # pending text pieces of the current text node

  # -- helpers ---------------------------------------------------------------
  def _classes(self):
    out = set()
    for _, cl in self.stack:
      out |= cl
    return frozenset(out)

  def _flush(self):
    if self.buf:
      raw = bool(self.stack) and self.stack[-1][0] in RAW_TEXT
      self.r.texts.append((raw, self._classes(), ''.join(self.buf)))
      self.buf = []

  def _err(self, code, detail):
    self.r.errors.append((code, str(detail)[:160]))

  def _start(self, tag, attrs, selfclosing):
    self._flush()
    src = self.get_starttag_text() or ''
    if not _START.fullmatch(src):
      self._err('bad-start-tag-syntax', src)
    names = [a for a, _ in attrs]
    if len(set(names)) != len(names):
      self._err('duplicate-attribute', src)
    void = tag in VOID
    self.r.events.append(('V' if (void or selfclosing) else 'S', tag,
                          tuple(sorted(names))))
    for a, v in attrs:
      self.r.attrs.append((tag, a, v))
    if selfclosing and not void:
      # `<div/>` does not close a non-void element in HTML.
      self._err('self-closing-non-void', src)
    if not void and not selfclosing:
      cl = frozenset()
      for a, v in attrs:
        if a == 'class' and v:
          cl = frozenset(v.split())
      self.stack.append((tag, cl))

  # -- HTMLParser callbacks ----------------------------------------------------
  def handle_starttag(self, tag, attrs):
    self._start(tag, attrs, False)

  def handle_startendtag(self, tag, attrs):
    self._start(tag, attrs, True)

  def handle_endtag(self, tag):
    self._flush()
    self.r.events.append(('E', tag))
    if tag in VOID:
      self._err('end-tag-for-void', tag)
      return
    if self.stack and self.stack[-1][0] == tag:
      self.stack.pop()
      return
    open_tags = [t for t, _ in self.stack]
    if tag in open_tags:
      self._err('mismatched-end-tag',
                f'</{tag}> while <{open_tags[-1]}> is open')
      while self.stack and self.stack.pop()[0] != tag:
        pass
    else:
      self._err('stray-end-tag', f'</{tag}>')

  def handle_data(self, data):
    if not (self.stack and self.stack[-1][0] in RAW_TEXT) and '<' in data:
      self._err('raw-lt-in-text', data[:60])
    self.buf.append(data)

  def handle_entityref(self, name):
    self.buf.append(html.unescape(f'&{name};'))

  def handle_charref(self, name):
    self.buf.append(html.unescape(f'&#{name};'))

  def handle_comment(self, data):
    self._flush()
    self.r.events.append(('C',))

  def handle_decl(self, decl):
    self._flush()
    self.r.events.append(('D',))

  def unknown_decl(self, data):
    self._flush()
    self.r.events.append(('D',))

  def handle_pi(self, data):
    self._flush()
    self.r.events.append(('D',))


def check(text):
  """Strictly parses `text`; returns a `Report`."""
  r = Report()
  p = _Strict(r)
  try:
    p.feed(text)
    p.close()
  except Exception as e:  # pylint: disable=broad-except
    # html.parser raises on some malformed declarations (`<![` ...).
    r.errors.append(('tokenizer-gave-up', f'{type(e).__name__}: {e}'[:160]))
  p._flush()   # pylint: disable=protected-access
  if getattr(p, 'rawdata', ''):
    r.errors.append(('unterminated-markup', p.rawdata[:60]))
  if p.stack:
    r.errors.append(('unclosed-element',
                     '<' + '> <'.join(t for t, _ in p.stack[-6:]) + '>'))
  return r


def skeleton_diff(a, b, context=3):
  """First point where two skeletons differ, for messages."""
  n = min(len(a), len(b))
  i = 0
  while i < n and a[i] == b[i]:
    i += 1
  if i == n and len(a) == len(b):
    return None
  return (f'event #{i}: {a[max(0, i - context):i + context + 1]!r} vs '
          f'{b[max(0, i - context):i + context + 1]!r}')
