"""Tokenizer for small generated JavaScript snippets (C20, control updates).

`scan(code)` splits a script into code pieces and string literals (`"..."` and
`'...'`) the way a JavaScript lexer does, and decodes the literals:

* escapes `\\\\ \\" \\' \\n \\r \\t \\b \\f \\v \\0 \\xHH \\uHHHH \\u{H..}`, line
  continuation; any other `\\c` stands for `c`;
* a raw line terminator (LF, CR) inside a literal ends it with the error
  `newline-in-string`; end of input inside a literal is `unterminated-string`
  (U+2028 / U+2029 are legal in literals since ES2019).

Result (`Script`):

* `errors`    list of `(code, detail)`;
* `skeleton`  tuple of the code pieces between the literals, white space
              collapsed -- everything that is *executed*, no literal content;
* `literals`  list of `Literal(quote, raw, value, role)`; `role` is `'html'`
              for the right-hand side of `.innerHTML =` and the second argument
              of `.insertAdjacentHTML(`, `'text'` for the right-hand side of
              `.textContent =`, else `'other'`.

The snippets never contain comments, regular expressions or template literals,
so none of these is modelled: a payload that breaks out of its literal shows up
as a different skeleton (or as an error) when compared with its benign twin.
Nothing here knows about pyglove.
"""
import collections
import re

Literal = collections.namedtuple('Literal', 'quote raw value role')

_SIMPLE = {'n': '\n', 'r': '\r', 't': '\t', 'b': '\b', 'f': '\f', 'v': '\v',
           '0': '\0'}
_HEX = set('0123456789abcdefABCDEF')


class Script:

  def __init__(self):
    self.errors = []
    self.pieces = []
    self.literals = []

  @property
  def skeleton(self):
    return tuple(' '.join(p.split()) for p in self.pieces)

  def error_codes(self):
    return sorted({c for c, _ in self.errors})

  def describe(self, limit=4):
    return '; '.join(f'{c}: {d}' for c, d in self.errors[:limit])

  def values(self, role=None):
    return [l.value for l in self.literals if role is None or l.role == role]


def _role(pieces, literals):
  before = pieces[-1]
  if re.search(r'\.innerHTML\s*=\s*$', before):
    return 'html'
  if re.search(r'\.textContent\s*=\s*$', before):
    return 'text'
  if (literals and len(pieces) >= 2 and re.fullmatch(r'\s*,\s*', before)
      and re.search(r'\.insertAdjacentHTML\(\s*$', pieces[-2])):
    return 'html'
  return 'other'


def scan(code):
  """Tokenizes `code`; returns a `Script`."""
  s = Script()
  n = len(code)
  i = 0
  cur = []
  while i < n:
    c = code[i]
    if c not in '"\'':
      cur.append(c)
      i += 1
      continue
    s.pieces.append(''.join(cur))
    cur = []
    quote, start = c, i
    i += 1
    out = []
    closed = broken = False
    while i < n:
      c = code[i]
      if c == quote:
        closed = True
        i += 1
        break
      if c in '\n\r':
        s.errors.append(('newline-in-string', code[start:i][:80]))
        broken = True
        break
      if c != '\\':
        out.append(c)
        i += 1
        continue
      if i + 1 >= n:
        i += 1
        break
      e = code[i + 1]
      i += 2
      if e in _SIMPLE:
        out.append(_SIMPLE[e])
      elif e == '\n':
        pass
      elif e == '\r':
        if i < n and code[i] == '\n':
          i += 1
      elif e == 'x' and i + 2 <= n and set(code[i:i + 2]) <= _HEX and len(code[i:i + 2]) == 2:
        out.append(chr(int(code[i:i + 2], 16)))
        i += 2
      elif e == 'u' and i + 4 <= n and set(code[i:i + 4]) <= _HEX:
        out.append(chr(int(code[i:i + 4], 16)))
        i += 4
      elif e == 'u' and i < n and code[i] == '{' and '}' in code[i:i + 9]:
        j = code.index('}', i)
        try:
          out.append(chr(int(code[i + 1:j], 16)))
        except ValueError:
          s.errors.append(('bad-escape', code[i - 2:j + 1]))
        i = j + 1
      else:
        out.append(e)
    if not closed and not broken:
      s.errors.append(('unterminated-string', code[start:start + 80]))
    s.literals.append(Literal(quote, code[start:i], ''.join(out),
                              _role(s.pieces, s.literals)))
  s.pieces.append(''.join(cur))
  return s
