"""Change-event recorder and expected-event calculator (C09).

Recording uses the public extension points only:
  * `_on_change` / `_on_bound` overridden in `pgverif.models` classes
    (they append to `models.EVENT_LOG` while `models.RECORDING[0]` is set);
  * `onchange_callback` of every `pg.Dict` / `pg.List` the harness builds
    (a `Callback` object appending the raw `{KeyPath: FieldUpdate}` dict).

The receiver of a callback event is found from the payload itself: for an
entry `rel -> update`, the receiver is the ancestor `len(rel) - 1` parents above
`update.target` (public `sym_parent`), so that copies the library makes of a
Dict (which share the callback object) are told apart.

The expected events of a call are computed from the *written locations*:
  * Dict / Object containers: identity diff of the members before and after;
  * List containers: a per-operation model of the written positions
    (replacement at its index, insertion at the index of the new element,
    deletion at the index the element had before the call), verified against
    the before/after members; if the model does not reproduce the list, or the
    batch mixes insertions/deletions in one list, the payload keys below that
    list are not judged ("loose"), only counts and order are.
Location classes: MUST (value changed), OPTIONAL (location was written with an
identical or equal value: the property leaves the event open).
"""
import pyglove as pg
from pgverif import models as M
from pgverif.gen import desc as D
from pgverif.monitors import derived as DV
from pgverif.monitors import tree as TM

MISSING = pg.MISSING_VALUE
UNKNOWN = 'unknown'   # subscription state of a copy made by the library
same_value = DV.same_value


def is_missing(v):
  return not isinstance(v, pg.Symbolic) and MISSING == v


class Callback:
  """onchange_callback of one Dict/List built by the harness."""

  def __init__(self, tag):
    self.tag = tag

  def __call__(self, updates):
    if M.RECORDING[0]:
      M.EVENT_LOG.append((self, 'cb', dict(updates)))

  def __repr__(self):
    return f'Callback#{self.tag}'


class Recorder:
  """Builds values with callbacks and remembers which node subscribes."""

  def __init__(self, rng, p_callback=0.6, p_wrap=0.4):
    self.rng, self.p_callback, self.p_wrap = rng, p_callback, p_wrap
    self.known = {}       # id(node) -> (node, Callback | None | UNKNOWN)
    self.tags = 0

  # -- construction ---------------------------------------------------------
  def make_callback(self, kind=None):
    if self.rng.random() < self.p_callback:
      self.tags += 1
      return Callback(self.tags)
    return None

  def register(self, node, cb):
    self.known[id(node)] = (node, cb)

  def build(self, desc, forest=None):
    """Like gen.desc.build, but Dict/List get callbacks and are registered.

    Extra kind: ['OP', clsname, [[k, desc]...]] = cls.partial(**fields)."""
    k = desc[0]
    if k == 'v':
      v = D.build(desc)
      # A plain container given to a typed field: sometimes hand in a
      # symbolic one with a callback instead (nested ones stay plain).
      if type(v) in (dict, list) and self.rng.random() < self.p_wrap:
        cb = self.make_callback()
        try:
          v = (pg.Dict if type(v) is dict else pg.List)(v, onchange_callback=cb)
          self.register(v, cb)
        except Exception:  # pylint: disable=broad-except
          v = D.build(desc)
      return v
    if k == 'D':
      cb = self.make_callback()
      v = pg.Dict({kk: self.build(vv, forest) for kk, vv in desc[1]},
                  onchange_callback=cb, **(desc[2] if len(desc) > 2 else {}))
      self.register(v, cb)
      return v
    if k == 'L':
      cb = self.make_callback()
      v = pg.List([self.build(vv, forest) for vv in desc[1]],
                  onchange_callback=cb, **(desc[2] if len(desc) > 2 else {}))
      self.register(v, cb)
      return v
    if k == 'd':
      return {kk: self.build(vv, forest) for kk, vv in desc[1]}
    if k == 'l':
      return [self.build(vv, forest) for vv in desc[1]]
    if k == 't':
      return tuple(self.build(vv, forest) for vv in desc[1])
    if k in ('O', 'OP'):
      cls = getattr(M, desc[1])
      fields = {kk: self.build(vv, forest) for kk, vv in desc[2]}
      v = cls.partial(**fields) if k == 'OP' else cls(**fields)
      self.register(v, None)
      return v
    if k == 'ins':
      return pg.Insertion(self.build(desc[1], forest))
    return D.build(desc, forest)

  def heal(self, forest):
    """A fresh forest with the same contents (new nodes, new callbacks)."""
    self.known = {}
    out = []
    for r in forest:
      if isinstance(r, pg.Symbolic):
        try:
          out.append(DV.rebuild(r, self.make_callback, self.register))
        except Exception:  # pylint: disable=broad-except
          out.append(None)
      else:
        out.append(None)
    return out

  def adopt(self, forest, may_clone):
    """Registers the nodes the library created during the last call.

    A Dict/List the harness did not build has no callback, unless the call may
    have copied an existing one (a Dict copy shares the callback object):
    then its subscription is UNKNOWN. The registry is pruned to the forest."""
    live = {}
    for root in forest:
      if not isinstance(root, pg.Symbolic):
        continue
      for n, _ in TM.nodes_of(root):
        e = self.known.get(id(n))
        if e is None or e[0] is not n:
          e = (n, UNKNOWN if (may_clone and isinstance(n, (pg.Dict, pg.List)))
               else None)
        live[id(n)] = e
    self.known = live

  def subscription(self, node):
    """'change' | 'bound' | 'cb' | None | UNKNOWN."""
    if isinstance(node, M.C09_CHANGE_CLASSES):
      return 'change'
    if isinstance(node, M.C09_BOUND_CLASSES):
      return 'bound'
    if isinstance(node, (pg.Dict, pg.List)):
      e = self.known.get(id(node))
      if e is None or e[0] is not node or e[1] is UNKNOWN:
        return UNKNOWN
      return 'cb' if e[1] is not None else None
    return None


# ------------------------------------------------------------ snapshots -----

class Info:
  __slots__ = ('node', 'ridx', 'keys', 'members')

  def __init__(self, node, ridx, keys, members):
    self.node, self.ridx, self.keys, self.members = node, ridx, keys, members


class Snap:
  """Structure of a forest: every node, where it is, what it stores."""

  def __init__(self, forest):
    self.info = {}
    for ridx, root in enumerate(forest):
      if not isinstance(root, pg.Symbolic):
        continue
      for n, keys in TM.nodes_of(root):
        if isinstance(n, pg.Ref) or id(n) in self.info:
          continue
        self.info[id(n)] = Info(n, ridx, tuple(keys), list(TM.children(n)))

  def get(self, node):
    i = self.info.get(id(node))
    return i if i is not None and i.node is node else None


# ----------------------------------------------------- written locations ----

class Writes:

  def __init__(self):
    self.entries = []        # (container id, key, old, new, must)
    self.loose = set()       # ids of lists whose payload keys are not judged
    self.loose_changed = set()
    self.model_mismatch = 0

  def add(self, cid, key, old, new, asked=False):
    if old is new or (is_missing(old) and is_missing(new)):
      if asked:
        self.entries.append((cid, key, old, new, False))
      return
    must = not same_value(old, new)
    self.entries.append((cid, key, old, new, must))


def _norm(i, n):
  return i + n if i < 0 else i


def _identical(a, b):
  return len(a) == len(b) and all(x is y for x, y in zip(a, b))


def _apply_entries(pre, entries):
  """Reconstructs the list after the call from (key, old, new) entries."""
  out = list(pre)
  dels = sorted(k for k, o, n in entries if is_missing(n) and not is_missing(o))
  ins = sorted((k, n) for k, o, n in entries
               if is_missing(o) and not is_missing(n))
  if dels and ins:
    return None
  for k, o, n in entries:
    if not is_missing(o) and not is_missing(n):
      out[k] = n
  for k in reversed(dels):
    del out[k]
  for k, n in sorted(ins, key=lambda x: x[0]):
    if k > len(out):
      return None
    out.insert(k, n)
  return out


def list_model(op, a, pre, post):
  """(key, old, new) entries of one list operation, or None (not modelled)."""
  n = len(pre)
  if op == 'List.__setitem__[int]':
    i = _norm(a['i'], n)
    return [(i, pre[i], post[i])]
  if op in ('List.__delitem__[int]', 'List.pop'):
    i = _norm(a.get('i', -1), n)
    return [(i, pre[i], MISSING)]
  if op == 'List.remove':
    cands = [j for j in range(n) if _identical(pre[:j] + pre[j + 1:], post)]
    return [(cands[0], pre[cands[0]], MISSING)] if cands else None
  if op == 'List.append':
    return [(n, MISSING, post[n])]
  if op == 'List.insert':
    i = a['i']
    pos = max(0, i + n) if i < 0 else min(i, n)
    return [(pos, MISSING, post[pos])]
  if op in ('List.extend', 'List.__iadd__'):
    return [(n + j, MISSING, post[n + j]) for j in range(len(post) - n)]
  if op in ('List.__imul__', 'List.*='):
    if a['n'] <= 0:
      return [(i, pre[i], MISSING) for i in range(n)]
    return [(n + j, MISSING, post[n + j]) for j in range(len(post) - n)]
  if op == 'List.clear':
    return [(i, pre[i], MISSING) for i in range(n)]
  if op in ('List.sort', 'List.reverse'):
    if len(post) != n:
      return None
    return [(i, pre[i], post[i]) for i in range(n) if pre[i] is not post[i]]
  if op == 'List.__delitem__[slice]':
    idx = sorted(range(*slice(a['a'], a['b'], a['c']).indices(n)))
    return [(i, pre[i], MISSING) for i in idx]
  if op == 'List.__setitem__[slice]':
    start, stop, step = slice(a['a'], a['b'], a['c']).indices(n)
    k = len(a['vs'])
    if step == 1:
      stop = max(start, stop)
      size = stop - start
      out = [(start + j, pre[start + j], post[start + j])
             for j in range(min(size, k))]
      if k > size:
        out += [(start + j, MISSING, post[start + j]) for j in range(size, k)]
      else:
        out += [(start + j, pre[start + j], MISSING) for j in range(k, size)]
      return out
    return [(p, pre[p], post[p]) for p in range(start, stop, step)]
  return None


def rebind_list_model(items, pre, post):
  """items: [(index, value desc)] written into one list by a rebind batch."""
  n = len(pre)
  if len(items) > 1 and any(
      v[0] in ('ins', 'missing') or i >= n for i, v in items):
    return None               # mixed batch in one list: positions unspecified
  out = []
  for i, v in items:
    if v[0] == 'missing':
      if i < n:
        out.append((i, pre[i], MISSING))
    elif v[0] == 'ins':
      pos = min(i, n)
      out.append((pos, MISSING, post[pos]))
    elif i >= n:
      out.append((n, MISSING, post[n]))
    else:
      out.append((i, pre[i], post[i]))
  return out


def asked_locations(step, target, pre):
  """[(container id, key)] the call was asked to write (Dict/Object/List)."""
  op, a = step['op'], step['args']
  tid = id(target)
  if op in ('Dict.__setitem__', 'Dict.__setattr__', 'Dict.__delitem__',
            'Dict.__delattr__', 'Dict.pop', 'Dict.setdefault',
            'Object.__setattr__'):
    return [(tid, a['k'])]
  if op in ('Dict.update', 'Dict.__ior__'):
    return [(tid, k) for k, _ in a['items']]
  if op in ('Dict.clear', 'Dict.popitem'):
    info = pre.get(target)
    return [(tid, k) for k, _ in (info.members if info else [])]
  if op == 'rebind':
    out = []
    for rel, _ in a['updates']:
      node = target
      try:
        for k in rel[:-1]:
          node = dict(pre.get(node).members)[k]
        if pre.get(node) is not None:
          out.append((id(node), rel[-1]))
      except Exception:  # pylint: disable=broad-except
        pass
    return out
  return []


def written(step, target, pre, post, counters=None):
  """The written locations of a call that returned normally."""
  w = Writes()
  op, a = step['op'], step['args']
  asked = set()
  for cid, k in asked_locations(step, target, pre):
    try:
      asked.add((cid, k))
    except TypeError:
      pass
  rebind_lists = {}
  if op == 'rebind':
    for rel, v in a['updates']:
      node = target
      try:
        for k in rel[:-1]:
          node = dict(pre.get(node).members)[k]
      except Exception:  # pylint: disable=broad-except
        continue
      if isinstance(node, pg.List) and isinstance(rel[-1], int):
        rebind_lists.setdefault(id(node), []).append((rel[-1], v))
  for cid, info in pre.info.items():
    pinfo = post.get(info.node)
    if pinfo is None:
      continue                      # detached by the call: not a container of
                                    # a written location any more
    n = info.node
    if isinstance(n, pg.List):
      pre_m = [v for _, v in info.members]
      post_m = [v for _, v in pinfo.members]
      entries = None
      try:
        if cid == id(target) and op.startswith('List.'):
          entries = list_model(op, a, pre_m, post_m)
        elif cid in rebind_lists:
          entries = rebind_list_model(rebind_lists[cid], pre_m, post_m)
      except (IndexError, KeyError, TypeError):
        entries = None
      if entries is not None:
        applied = _apply_entries(pre_m, entries)
        if applied is None or not _identical(applied, post_m):
          entries = None
          w.model_mismatch += 1
      if entries is None:
        if _identical(pre_m, post_m):
          if cid in rebind_lists:
            w.loose.add(cid)     # a mixed batch that cancelled out
          continue
        if len(pre_m) == len(post_m) and cid not in rebind_lists and not (
            cid == id(target) and op.startswith('List.')):
          entries = [(i, pre_m[i], post_m[i]) for i in range(len(pre_m))
                     if pre_m[i] is not post_m[i]]
        else:
          w.loose.add(cid)
          w.loose_changed.add(cid)
          continue
      for k, o, nw in entries:
        w.add(cid, k, o, nw, asked=True)
    else:
      pre_d, post_d = dict(info.members), dict(pinfo.members)
      for k in list(pre_d) + [k for k in post_d if k not in pre_d]:
        w.add(cid, k, pre_d.get(k, MISSING), post_d.get(k, MISSING),
              asked=(cid, k) in asked)
  if counters is not None:
    counters['written_locations'] += len(w.entries)
    counters['list_model_mismatch'] += w.model_mismatch
    counters['loose_lists'] += len(w.loose)
  return w


# ------------------------------------------------------------- checking -----

def resolve_callback_receiver(updates):
  """The node whose callback fired, from the payload alone (or None)."""
  recv = None
  for rel, u in updates.items():
    node = u.target
    for _ in range(len(rel) - 1):
      if node is None:
        return None
      node = node.sym_parent
    if node is None or (recv is not None and recv is not node):
      return None
    recv = node
  return recv


def _is_prefix(a, b):
  return len(a) <= len(b) and b[:len(a)] == a


def _val_ok(got, exp):
  if isinstance(exp, pg.Symbolic) or isinstance(got, pg.Symbolic):
    return got is exp
  if is_missing(exp) or is_missing(got):
    return is_missing(exp) and is_missing(got)
  return got is exp or same_value(got, exp)


def _show(v):
  if isinstance(v, pg.Symbolic):
    return f'<{type(v).__name__}@{id(v) % 100000}>'
  return repr(v)[:40]


def check_events(events, pre, post, writes, rec, counters, suppressed=False,
                 below_only=None):
  """Judges the events of one call.

  Returns [(clause, detail, mechanism or None)]; a mechanism is given when the
  class of input, not the operation, decides (a dict key with path syntax).

  events: [(receiver or Callback, kind, payload)] in delivery order.
  below_only: the node `rebind(notify_parents=False)` was called on — its
    strict ancestors must not be notified.
  """
  problems = []
  seq = []          # (receiver info (pre), kind, payload {rel tuple: (old, new)})
  for who, kind, payload in events:
    if kind == 'cb':
      node = resolve_callback_receiver(payload)
      e = rec.known.get(id(node)) if node is not None else None
      if node is None or (e is not None and e[0] is node and
                          e[1] is not UNKNOWN and e[1] is not who):
        # The payload does not lead to a node that can own this callback
        # (e.g. a relative path with too many elements): fall back to the
        # node the callback was given to, when there is exactly one.
        cands = [x[0] for x in rec.known.values() if x[1] is who]
        node = cands[0] if len(cands) == 1 else None
        counters['callback_receiver_by_registry'] += 1
      if node is None:
        # The harness cannot tell which node owns the callback (copies made by
        # the library share the callback object of their source, so the
        # registry is ambiguous): the event is not judged. This is a limit of
        # the observation, never reported as a violation.
        counters['callback_receiver_unresolved'] += 1
        continue
      e = rec.known.get(id(node))
      if e is not None and e[0] is node and e[1] is not who:
        rec.known[id(node)] = (node, who)          # learnt (copy of a Dict)
        counters['callback_learnt'] += 1
      pl = {tuple(k.keys): (u.old_value, u.new_value) for k, u in payload.items()}
    else:
      node = who
      pl = None if payload is None else {
          tuple(k.keys): v for k, v in payload.items()}
    info = pre.get(node)
    if info is None:
      # Not in the tree before the call: the __init__ of a new object, or a
      # value being inserted that the library completes (e.g. defaults of a
      # typed dict filled in) and that tells its own callback so. The
      # property speaks about the nodes of the tree the call was made on.
      counters['events_of_new_values'] += 1
      continue
    seq.append((info, kind, pl))
  counters['events_recorded'] += len(seq)

  if suppressed:
    counters['suppressed_steps_checked'] += 1
    if seq:
      problems.append((
          'event-while-suppressed',
          f'{len(seq)} event(s) delivered, first to '
          f'{type(seq[0][0].node).__name__} at root{seq[0][0].ridx}{list(seq[0][0].keys)}',
          None))
    return problems

  by_recv = {}
  for pos, (info, kind, pl) in enumerate(seq):
    by_recv.setdefault(id(info.node), []).append((pos, kind, pl))

  # Expected payload per receiver.
  receivers = {}
  for cid, info in pre.info.items():
    sub = rec.subscription(info.node)
    if sub is None and cid not in by_recv:
      continue
    if post.get(info.node) is None and cid not in by_recv:
      continue
    receivers[cid] = (info, sub)
  below = post.get(below_only) if below_only is not None else None

  for cid, (info, sub) in receivers.items():
    pinfo = post.get(info.node)
    must, opt, loose_prefixes, loose_changed = {}, {}, [], False
    if pinfo is not None:
      for ccid, key, old, new, is_must in writes.entries:
        c = post.info.get(ccid)
        if c is None or c.ridx != pinfo.ridx or not _is_prefix(pinfo.keys, c.keys):
          continue
        rel = c.keys[len(pinfo.keys):] + (key,)
        (must if is_must else opt)[rel] = (old, new, ccid)
      for lcid in writes.loose:
        c = post.info.get(lcid)
        if c is not None and c.ridx == pinfo.ridx and _is_prefix(pinfo.keys, c.keys):
          loose_prefixes.append(c.keys[len(pinfo.keys):])
          loose_changed = loose_changed or lcid in writes.loose_changed
    must_event = bool(must) or loose_changed
    may_event = must_event or bool(opt) or bool(loose_prefixes)
    if below is not None and pinfo is not None and pinfo.ridx == below.ridx and \
        _is_prefix(pinfo.keys, below.keys) and pinfo.keys != below.keys:
      must_event = may_event = False       # strict ancestor, notify_parents=False
    got = by_recv.get(cid, [])
    where = f'{type(info.node).__name__} at root{info.ridx}{list(info.keys)}'
    counters['event_receiver_checks'] += 1
    if len(got) > 1:
      problems.append(('multi-event', f'{where} received {len(got)} events in one call', None))
    if not got and must_event and sub is not UNKNOWN:
      counters['expected_event_missing'] += 1
      problems.append(('missing-event',
                       f'{where} ({sub}) received no event; changed below it: '
                       f'{[list(k) for k in list(must)[:6]]}'
                       f'{" + list " + str(loose_prefixes) if loose_changed else ""}', None))
    if got and not may_event:
      problems.append(('unexpected-event',
                       f'{where} received an event but nothing was written below '
                       f'it (payload keys {[list(k) for _, _, p in got for k in (p or {})][:6]})', None))
      continue
    if got:
      counters['events_expected_and_delivered'] += 1
    # Payload (merged over the events when there are several).
    merged, conflict = {}, None
    for _, kind, pl in got:
      for k, v in (pl or {}).items():
        if k in merged and not (_val_ok(merged[k][0], v[0]) and _val_ok(merged[k][1], v[1])):
          conflict = k
        merged[k] = v
    if not got or got[0][1] == 'bound':
      continue
    if conflict is not None:
      problems.append(('payload-values', f'{where}: key {list(conflict)} reported '
                       'twice with different values', None))
    bad_keys, bad_vals = [], []
    present = set()
    for k, (old, new) in merged.items():
      kk = k
      if k and isinstance(k[-1], int) and k[-1] < 0:
        # A negative index names the same position before and after the call
        # only when the length of the list did not change.
        parent_rel = k[:-1]
        ppos = pinfo.keys + parent_rel
        lst = [c for c in post.info.values()
               if c.ridx == pinfo.ridx and c.keys == ppos]
        if lst and isinstance(lst[0].node, pg.List):
          pl_pre = pre.get(lst[0].node)
          if pl_pre is not None and len(pl_pre.members) == len(lst[0].members):
            kk = k[:-1] + (k[-1] + len(lst[0].members),)
      exp = must.get(kk) or opt.get(kk)
      counters['payload_entries_checked'] += 1
      if exp is None:
        if any(kk[:-1] == lp for lp in loose_prefixes):
          counters['payload_entries_loose'] += 1
          continue
        bad_keys.append(f'extra {list(k)}')
        continue
      present.add(kk)
      if not (_val_ok(old, exp[0]) and _val_ok(new, exp[1])):
        bad_vals.append(f'{list(k)}: reported ({_show(old)} -> {_show(new)}), '
                        f'true ({_show(exp[0])} -> {_show(exp[1])})')
    for k in must:
      if k not in present:
        bad_keys.append(f'absent {list(k)}')
    # A written dict key that itself contains key-path syntax ('a.b', 'k[1]'):
    # one class of input, whatever the operation and whichever way the
    # payload comes out wrong (split key, collision with a real path).
    syntax = any(isinstance(k[-1], str) and any(ch in k[-1] for ch in '.[]')
                 for k in list(must) + list(opt))
    if syntax and (bad_keys or bad_vals):
      problems.append(('payload-keys', f'{where}: {(bad_keys + bad_vals)[:6]}; '
                       f'expected {[list(k) for k in must][:8]}',
                       'dict-key-with-path-syntax'))
      continue
    if bad_keys:
      problems.append(('payload-keys', f'{where}: {bad_keys[:6]}; expected '
                       f'{[list(k) for k in must][:8]} (+optional '
                       f'{[list(k) for k in opt][:4]})', None))
    if bad_vals:
      problems.append(('payload-values', f'{where}: {bad_vals[:4]}', None))

  # Children before parents (first event of every receiver; a receiver that
  # is notified twice is reported as multi-event above).
  firsts, met = [], set()
  for info, _, _ in seq:
    if id(info.node) not in met:
      met.add(id(info.node))
      firsts.append(info)
  for i in range(len(firsts)):
    for j in range(i + 1, len(firsts)):
      a, b = post.get(firsts[i].node), post.get(firsts[j].node)
      if a is None or b is None or a.node is b.node:
        continue
      counters['order_pairs_checked'] += 1
      if a.ridx == b.ridx and _is_prefix(a.keys, b.keys) and a.keys != b.keys:
        problems.append((
            'parent-before-child',
            f'{type(a.node).__name__} at root{a.ridx}{list(a.keys)} was notified '
            f'before its descendant at {list(b.keys)}', None))
  return problems
