"""Persistence model for C05: path -> last value (files) and path -> records
(sequences) on one file system, checked through the public pg.io / pg.save /
pg.load / pg.open_jsonl API after every operation.

Mechanism keys are `<fs>/<operation>/<feature>` where the feature is decided
by the harness: a failing write+read is replayed on a fresh, plainly named
path of the same file system; if that fails too the mechanism is the operation
(followed by the class of the greedily minimised value, e.g. `std/save(str-surrogate)`,
when a single value of the operation fails the same way on a fresh path),
otherwise it is the class of the path ('prefix-name': the first component
after '/mem/' starts with a character of the prefix; 'bare-relative-name' /
'relative-name': the write spells the path relative to the working directory,
without / with a directory part) or the relation of the
write to the previous content ('overwrite-changes-text-binary'
when the write changes between text and binary
content, else 'overwrite-shorter', 'overwrite-longer',
'overwrite-same-length', 'append-existing', 'after-rm', 'first-write').

Histories also hold reader handles that stay open over later operations
(`pg.io.open(path, 'r'/'rb')` read in pieces, `pg.open_jsonl` /
`pg.io.open_sequence` readers iterated record by record, several per path).
What a handle returns is compared with the content the path had when the
handle was opened, from the handle's own position, as long as the path was not
written or removed since (afterwards the handle is 'stale': it may still be
read and closed, what it returns is not judged). A failure that needs an
unclosed reader on the path (the replay without one passes) gets the feature
'open-reader' when the failing operation only reads, and
'overwrite+open-reader' / 'append+open-reader' / 'first-write+open-reader'
when it is a write.
"""
import os

import pyglove as pg
from pgverif.gen import serial as S

MEM = '/mem/'
PREFIX_CHARS = set(MEM)


def text(rng):
  n = rng.choice([0, 1, 3, 12, 40, 200])
  alphabet = 'abc xyz\n\t{}[]",:\\0123456789'
  return ''.join(rng.choice(alphabet) for _ in range(n))


def line(rng):
  n = rng.choice([0, 1, 5, 30])
  return ''.join(rng.choice('abc xyz{}[]",:\\01\t') for _ in range(n))


def blob(rng):
  n = rng.choice([0, 1, 4, 33, 150])
  return bytes(rng.randrange(256) for _ in range(n))


class Op:
  """One operation: `run(path)` issues the library calls, `entry()` is the
  model entry the path must have afterwards (None: the path is gone)."""
  is_write = True
  last = ''

  def __init__(self, name, path, **kw):
    self.name, self.path = name, path
    self.__dict__.update(kw)

  def show(self):
    return f'{self.name}({self.path})'


class FileEntry:
  def __init__(self, kind, content, value=None, writer=''):
    self.kind, self.content, self.value, self.writer = kind, content, value, writer
    self.last = 'first-write'


# -- operation constructors ----------------------------------------------------

def save_json(path, d, indent=None, method=False):
  op = Op('save', path, d=d, indent=indent, method=method)
  def run(p):
    v = S.build(d)
    kw = {} if indent is None else {'indent': indent}
    if method and isinstance(v, pg.Symbolic):
      v.save(p, **kw)
    else:
      pg.save(v, p, **kw)
  cache = []
  def entry():
    # built once; the model's copy is never handed to the library
    if not cache:
      v = S.build(d)
      cache.append((pg.to_json_str(v, json_indent=indent), v))
    return FileEntry('json', cache[0][0], cache[0][1], 'save')
  op.run, op.entry = run, entry
  op.show = lambda: f'save({S.show(d)[:80]}, {path})'
  return op


def save_txt(path, content):
  op = Op('save-txt', path)
  op.run = lambda p: pg.save(content, p, file_format='txt')
  op.entry = lambda: FileEntry('txt', content, content, 'save-txt')
  op.show = lambda: f'save({content!r:.30}, {path}, file_format="txt")'
  return op


def writefile(path, content):
  op = Op('writefile', path)
  op.run = lambda p: pg.io.writefile(p, content)
  op.entry = lambda: FileEntry('txt', content, content, 'writefile')
  op.show = lambda: f'writefile({path}, {content!r:.30})'
  return op


def writefile_bytes(path, content):
  op = Op('writefile-bytes', path)
  op.run = lambda p: pg.io.writefile(p, content, mode='wb')
  op.entry = lambda: FileEntry('bytes', content, content, 'writefile-bytes')
  op.show = lambda: f'writefile({path}, {content!r:.30}, mode="wb")'
  return op


def rm(path):
  op = Op('rm', path)
  op.is_write = False
  op.run = lambda p: pg.io.rm(p)
  op.entry = lambda: None
  return op


def mkdirs(path):
  op = Op('mkdirs', path)
  op.is_write = False
  op.run = lambda p: pg.io.mkdirs(p)
  op.entry = lambda: None
  return op


def seq_write(path, recs, append, raw, api='open_jsonl', use_with=True):
  op = Op('raw-seq-' + ('a' if append else 'w') if raw else 'seq-' + ('a' if append else 'w'),
          path, recs=recs, append=append, raw=raw, api=api)
  mode = 'a' if append else 'w'
  def opener(p, m):
    if raw:
      return pg.io.open_sequence(p, m)
    if api == 'open_jsonl':
      return pg.open_jsonl(p, m)
    return pg.io.open_sequence(p, m, serializer=pg.to_json_str,
                               deserializer=pg.from_json_str)
  def run(p):
    if use_with:
      with opener(p, mode) as f:
        for r in recs:
          f.add(S.build(r))
    else:
      f = opener(p, mode)
      for r in recs:
        f.add(S.build(r))
      f.flush()
      f.close()
  cache = []
  def items():
    """[(value, line)] of the records for the model (built once)."""
    if not cache:
      for r in recs:
        v = S.build(r)
        cache.append((v, v if raw else pg.to_json_str(v)))
    return list(cache)
  op.run, op.opener, op.items = run, opener, items
  op.show = lambda: f"{op.name}({path}, {[S.show(r)[:30] for r in recs]})"
  return op


# -- reader handles ----------------------------------------------------------------

class Handle:
  """A reader that stays open. `content` is a str/bytes (file level) or a
  list of (value, line) records (sequence level); `pos` is the model position."""

  def __init__(self, path, level, api, f, content, raw=False):
    self.path, self.level, self.api, self.f = path, level, api, f
    self.content, self.raw = content, raw
    self.pos = 0
    self.it = None
    self.stale = False
    self.reads = 0

  def show(self):
    return f'{self.api}({self.path})@{self.pos}' + ('(stale)' if self.stale else '')


def gen_read(rng, h):
  """A read request for handle `h`: (how, n)."""
  if h.level == 'seq':
    left = max(0, len(h.content) - h.pos)
    return ('next', rng.choice([0, 1, 1, 2, left, left + 1]))
  left = max(0, len(h.content) - h.pos)
  how = rng.choice(['read-n', 'read-n', 'read-all', 'readline'])
  n = rng.choice([0, 1, 2, 5, 17, left // 2, max(0, left - 1), left, left + 3])
  return (how, n)


def open_reader(path, level, api, read):
  op = Op('open-reader', path, level=level, api=api, read=read)
  op.is_write = False
  op.show = lambda: f'open-reader({api}, {path}, {read})'
  return op


def read_more(handle, read):
  op = Op('read-more', handle.path, handle=handle, read=read)
  op.is_write = False
  op.show = lambda: f'read-more({handle.show()}, {read})'
  return op


def close_reader(handle):
  op = Op('close-reader', handle.path, handle=handle)
  op.is_write = False
  op.show = lambda: f'close-reader({handle.show()})'
  return op


READER_OPS = ('open-reader', 'read-more', 'close-reader')


class _End:
  def __repr__(self):
    return '<end of sequence>'


END = _End()


# -- the world -------------------------------------------------------------------

class SeqEntry:
  def __init__(self, raw, items=()):
    self.raw, self.items = raw, list(items)      # items: [(value, line)]
    self.last = 'first-write'

  def records(self):
    return [v for v, _ in self.items]

  def content(self):
    return ''.join(ln + '\n' for _, ln in self.items)


class World:
  """The model and the checks for one file system."""

  def __init__(self, fs, root, tag, values_same, relative=False):
    """`relative`: the working directory is `root` (standard file system);
    some paths are then spelled relative to it when they are written (the
    checks read them back by their absolute spelling)."""
    self.fs, self.tag, self.values_same = fs, tag, values_same
    self.spelling = {}
    self.files, self.seqs, self.dirs = {}, {}, set()
    self.removed = set()
    self.trace = []
    self.probes = 0
    self.reported_dirs = set()
    self.retired = set()
    self.handles = []
    if fs == 'std':
      r = root
      self.root = r
      self.base = r
      self.json_paths = [f'{r}/a.json', f'{r}/m.json', f'{r}/sub/b.json',
                         f'{r}/sub/deep/c.json', f'{r}/me/x.json', f'{r}/e/x.json']
      self.txt_paths = [f'{r}/n.txt', f'{r}/sub/n.txt']
      self.bin_paths = [f'{r}/sub/x.bin']
      self.seq_paths = [f'{r}/s.jsonl', f'{r}/sub/t.jsonl', f'{r}/sub/raw.lines',
                        f'{r}/q{tag}.mem']
      self.dirs.add(r)
      if relative:
        for lst, names in ((self.json_paths, [f'bare{tag}.json', f'rel{tag}/c.json',
                                              f'./dot{tag}.json']),
                           (self.txt_paths, [f'bare{tag}.txt']),
                           (self.seq_paths, [f'bare{tag}.jsonl', f'rel{tag}/s.jsonl'])):
          for name in names:
            full = os.path.normpath(os.path.join(r, name))
            lst.append(full)
            self.spelling[full] = name
    else:
      self.root = MEM
      b = f'/mem/c{tag}'
      self.base = b
      self.json_paths = [f'/mem/m{tag}.json', f'{b}/a.json', f'{b}/sub/m.json',
                         f'{b}/sub/deep/b.json', f'/mem/me{tag}/x.json', f'/mem/e{tag}/x.json',
                         f'/mem/m{tag}/x.json']
      self.txt_paths = [f'{b}/n.txt', f'/mem/e{tag}.txt']
      self.bin_paths = [f'{b}/sub/x.bin']
      self.seq_paths = [f'{b}/s.jsonl', f'/mem/m{tag}.jsonl', f'/mem/e{tag}/t.jsonl',
                        f'{b}/raw.lines', f'{b}/q.mem']
      self.dirs.add(MEM)

  # -- path facts -------------------------------------------------------------
  def pick(self, rng, paths):
    return rng.choice(paths) if paths else None

  def is_memseq(self, path):
    return path.endswith('.mem')

  def seq_is_raw(self, path):
    return path.endswith('.lines')

  def all_file_paths(self):
    return (self.json_paths + self.txt_paths + self.bin_paths +
            [p for p in self.seq_paths if not self.is_memseq(p)])

  def seq_files(self):
    return {p for p in self.seqs if not self.is_memseq(p)}

  def dir_universe(self):
    out = set()
    for p in self.all_file_paths() + self.seq_paths:
      d = os.path.dirname(p)
      while len(d) > len(self.root.rstrip('/')):
        out.add(d)
        d = os.path.dirname(d)
    return sorted(out)

  def path_class(self, path):
    if path in self.spelling:
      return ('relative-name' if os.path.dirname(self.spelling[path]) else
              'bare-relative-name')
    if self.fs == 'mem':
      rest = path[len(MEM):]
      if rest and rest[0] in PREFIX_CHARS:
        return 'prefix-name'
    return 'plain'

  def ensure_dir(self, path):
    d = os.path.dirname(path)
    if len(d) > len(self.root.rstrip('/')):
      pg.io.mkdirs(d)
      self.add_dirs(path)

  def sync_dirs(self, path):
    """Adopts the directories that exist above `path` (after a failed call)."""
    d = os.path.dirname(path)
    while len(d) > len(self.root.rstrip('/')):
      try:
        if pg.io.isdir(d):
          self.dirs.add(d)
      except Exception:  # pylint: disable=broad-except
        pass
      d = os.path.dirname(d)

  def add_dirs(self, path):
    d = os.path.dirname(path)
    while d and d not in self.dirs and len(d) >= len(self.root.rstrip('/')):
      self.dirs.add(d)
      d = os.path.dirname(d)

  def existing(self):
    return set(self.files) | self.seq_files()

  def listing(self, d):
    names = set()
    pre = d.rstrip('/') + '/'
    for p in list(self.existing()) + list(self.dirs):
      if p.startswith(pre) and p != d:
        names.add(p[len(pre):].split('/')[0])
    return names

  # -- applying an operation -----------------------------------------------------
  def apply(self, op, rng, c):
    """Executes `op`, updates the model, checks everything. Returns
    [(clause, mechanism, detail)]."""
    problems = []
    self.trace.append(op.show())
    path = op.path
    if op.name in READER_OPS:
      op.last, op.before, op.probe1, op.probe2, op.readers = '', None, None, None, 0
      problems = self.apply_reader(op, rng, c)
      return problems + self.check_all(op, rng, c)
    before = self.files.get(path) if path not in self.seqs else self.seqs.get(path)
    op.last = self.relation(op, before)
    op.before, op.probe1, op.probe2, op.probe3 = before, None, None, None
    # unclosed readers of the path: whatever they did, the operation means the same
    op.readers = len(self.handles_of(path))
    if op.name != 'mkdirs':
      for h in self.handles_of(path):
        h.stale = True
    if op.readers:
      c['persist_writes_with_open_reader' if op.is_write
        else 'persist_rm_with_open_reader'] += 1
    # model first (soundness rule 4)
    if op.name == 'mkdirs':
      expect_error = None
    elif op.name == 'rm':
      expect_error = None if path in self.existing() else FileNotFoundError
    else:
      expect_error = None
    if op.name in ('writefile', 'writefile-bytes'):
      self.ensure_dir(path)       # writefile does not create directories
    try:
      # (a write may spell its path relative to the working directory)
      op.run(self.spelling.get(path, path) if op.is_write else path)
      err = None
    except Exception as e:  # pylint: disable=broad-except
      err = e
    if expect_error is not None:
      c['persist_expected_errors'] += 1
      if err is None or not isinstance(err, expect_error):
        problems.append(('error-expected', self.mech(op, 'plain'),
                         f'{op.show()} should raise {expect_error.__name__}, got {err!r:.200}'))
      return problems + self.check_all(op, rng, c)
    if err is not None:
      self.sync_dirs(path)
      feature = self.feature(op, c, 'write-raises')
      problems.append(('write-raises', self.mech(op, feature),
                       f'{op.show()} raised {type(err).__name__}: {err!s:.300}'))
      # Whether a write that raised counts as "saved" is left open; what the
      # path returns afterwards must still be one of the two values.
      c['persist_failed_write_state_checks'] += 1
      bad = self.neither_old_nor_new(op, before)
      if bad:
        problems.append(('failed-write-clobbers', self.mech(op, feature),
                         f'{op.show()} raised {type(err).__name__}; afterwards the path holds '
                         f'neither the previous content nor the new one: {bad}'))
      self.heal(path)
      return problems + self.check_all(op, rng, c, skip=path)
    self.update_model(op)
    return problems + self.check_all(op, rng, c)

  def neither_old_nor_new(self, op, before):
    """After a write that raised: None when the path is as before the write or
    as the write would have left it (for a record file: the records before
    plus any number of the records of the batch), else a description."""
    path = op.path
    try:
      if op.name.endswith(('seq-a', 'seq-w')):
        old = list(before.items) if before is not None else None
        base = old if (op.append and old is not None) else []
        states = [] if old is None else [old]
        try:
          new = op.items()
        except Exception:  # pylint: disable=broad-except
          new = []
        states += [base + new[:i] for i in range(len(new) + 1)]
        if old is None and not self.is_memseq(path) and not pg.io.path_exists(path):
          return None
        found = None
        for items in states:
          found = self.check_seq(path, SeqEntry(op.raw, items), None)
          if not found:
            return None
        return found[0][1]
      if before is None:
        if not pg.io.path_exists(path):
          return None
        found = [('', 'the path exists now')]
      else:
        found = self.check_file(path, before, True, None)
        if not found:
          return None
      try:
        new = op.entry()
      except Exception:  # pylint: disable=broad-except
        return found[0][1]
      again = self.check_file(path, new, True, None)
      return (found[0][1] + '; ' + again[0][1]) if again else None
    except Exception as e:  # pylint: disable=broad-except
      return f'{type(e).__name__}: {e!s:.200}'

  def value_kind(self, op, clause):
    """The class of value (S.kind of the greedily minimised description) that
    makes `op` show `clause` on a fresh plainly named path; None when the
    values of the operation do not decide."""
    if op.name == 'save':
      descs = [op.d]
      make = lambda d: save_json(op.path, d, indent=op.indent, method=op.method)
    elif op.name in ('seq-a', 'seq-w'):
      descs = list(op.recs)
      make = lambda d: seq_write(op.path, [d], append=False, raw=False, api=op.api,
                                 use_with=True)
    else:
      return None
    def fails(d):
      try:
        got = self.replay_fails(make(d), None)
      except Exception:  # pylint: disable=broad-except
        return False
      return clause in got or '*' in got
    for d in descs:
      if fails(d):
        return S.kind(S.minimise(d, fails, budget=100))
    return None

  # -- reader handles ---------------------------------------------------------------
  def handles_of(self, path):
    return [h for h in self.handles if h.path == path]

  def readable_paths(self):
    """[(path, level)] of the paths a reader can be opened on."""
    out = []
    for p in self.files:
      out.append((p, 'file'))
    for p, e in self.seqs.items():
      out.append((p, 'seq'))
      if not self.is_memseq(p):
        out.append((p, 'file'))
    return sorted(out)

  def close_handles(self, path):
    for h in self.handles_of(path):
      try:
        h.f.close()
      except Exception:  # pylint: disable=broad-except
        pass
      self.handles.remove(h)

  def reader_mech(self, op, shared):
    fs = 'memseq' if self.is_memseq(op.path) else self.fs
    return f'{fs}/open-reader' if shared else f'{fs}/{self.path_class(op.path)}'

  def do_read(self, h, read):
    """Issues one read on the library handle; returns (got, expected):
    strings/bytes for the file level, for the sequence level lists of records
    with the marker END appended where the iteration ended."""
    how, n = read
    if h.level == 'file':
      c, p = h.content, h.pos
      if how == 'read-n':
        exp, got = c[p:p + n], h.f.read(n)
      elif how == 'read-all':
        exp, got = c[p:], h.f.read()
      else:
        j = c.find(b'\n' if isinstance(c, bytes) else '\n', p)
        exp, got = (c[p:j + 1] if j >= 0 else c[p:]), h.f.readline()
      h.pos += len(exp)
      return got, exp
    if h.it is None:
      h.it = iter(h.f)
    got, exp = [], []
    for _ in range(n):
      if h.pos < len(h.content):
        exp.append(h.content[h.pos][0])
        h.pos += 1
      else:
        exp.append(END)
      try:
        got.append(next(h.it))
      except StopIteration:
        got.append(END)
      if exp[-1] is END or got[-1] is END:
        break
    return got, exp

  def same_read(self, h, got, exp):
    if h.level == 'file':
      return type(got) is type(exp) and got == exp
    if len(got) != len(exp):
      return False
    for x, y in zip(exp, got):
      if x is END or y is END:
        if x is not y:
          return False
      elif self.values_same(x, y):
        return False
    return True

  def apply_reader(self, op, rng, c):
    """open-reader / read-more / close-reader. The model is not changed."""
    problems = []
    path = op.path
    if op.name == 'close-reader':
      h = op.handle
      c['persist_reader_closes'] += 1
      try:
        h.f.close()
      except Exception as err:  # pylint: disable=broad-except
        if not h.stale:
          problems.append(('reader-raises', self.reader_mech(op, len(self.handles_of(path)) > 1),
                           f'closing {h.show()} raised {type(err).__name__}: {err!s:.200}'))
      if h in self.handles:
        self.handles.remove(h)
      return problems
    if op.name == 'open-reader':
      others = len(self.handles_of(path))
      e = self.seqs.get(path) if path in self.seqs else self.files.get(path)
      c['persist_reader_opens'] += 1
      c[f'persist_reader_opens:{op.level}'] += 1
      if others:
        c['persist_reader_opens_interleaved'] += 1
      try:
        if op.level == 'file':
          content = e.content() if isinstance(e, SeqEntry) else e.content
          f = pg.io.open(path, 'rb' if isinstance(content, bytes) else 'r')
        else:
          content = list(e.items)
          if e.raw or op.api == 'open_sequence-raw':
            f = pg.io.open_sequence(path, 'r')
          elif op.api == 'open_jsonl':
            f = pg.open_jsonl(path, 'r')
          else:
            f = pg.io.open_sequence(path, 'r', serializer=pg.to_json_str,
                                    deserializer=pg.from_json_str)
      except Exception as err:  # pylint: disable=broad-except
        problems.append(('reader-raises', self.reader_mech(op, others > 0),
                         f'{op.show()} raised {type(err).__name__}: {err!s:.200}'))
        return problems
      h = Handle(path, op.level, op.api, f, content,
                 raw=isinstance(e, SeqEntry) and e.raw)
      self.handles.append(h)
      shared = others > 0
    else:
      h = op.handle
      shared = True      # other readers (at least the checks) came and went meanwhile
      c['persist_reader_continuations'] += 1
    if h.stale:
      # written or removed since it was opened: not judged
      c['persist_stale_reader_reads'] += 1
      try:
        self.do_read(h, op.read)
      except Exception:  # pylint: disable=broad-except
        c['persist_stale_reader_raised'] += 1
      return problems
    c['persist_reader_checks'] += 1
    try:
      got, exp = self.do_read(h, op.read)
      ok = self.same_read(h, got, exp)
      detail = f'{op.show()} returned {got!r:.160}, the path holds {exp!r:.160} there'
    except Exception as err:  # pylint: disable=broad-except
      ok = None
      detail = f'{op.show()} raised {type(err).__name__}: {err!s:.200}'
    h.reads += 1
    if h.pos:
      c['persist_readers_left_at_nonzero_position'] += 1
    if not ok:
      # (raising instead of returning the content is one way of not returning it)
      problems.append(('reader-differs', self.reader_mech(op, shared), detail))
      self.close_handles(path)        # re-synchronise: no reader is left on the path
    return problems

  def relation(self, op, before):
    if op.name in ('rm', 'mkdirs'):
      return ''
    if before is None:
      return 'after-rm' if op.path in self.removed else 'first-write'
    if op.name.endswith('seq-a'):
      return 'append-existing'
    if op.name.endswith('seq-w'):
      new = sum(len(ln) + 1 for _, ln in op.items())
      old = len(before.content())
    else:
      e = op.entry()
      if (e.kind == 'bytes') != (before.kind == 'bytes'):
        return 'overwrite-changes-text-binary'
      new, old = len(e.content), len(before.content)
    if new < old:
      return 'overwrite-shorter'
    return 'overwrite-longer' if new > old else 'overwrite-same-length'

  def update_model(self, op):
    path = op.path
    if op.name == 'mkdirs':
      self.add_dirs(path + '/x')
      return
    if op.name == 'rm':
      self.files.pop(path, None)
      self.seqs.pop(path, None)
      self.removed.add(path)
      return
    if op.name.endswith(('seq-a', 'seq-w')):
      e = self.seqs.get(path)
      if e is None or not op.append:
        e = self.seqs[path] = SeqEntry(op.raw)
      e.items = e.items + op.items()
      e.last = op.last
      e.writer = op.name
      self.add_dirs(path)       # open_sequence creates the directories
      return
    e = op.entry()
    e.last = op.last
    self.files[path] = e
    self.add_dirs(path)

  def heal(self, path):
    """Forget a path whose state is no longer known."""
    self.close_handles(path)
    for fn in (pg.io.rm,):
      try:
        fn(path)
      except Exception:  # pylint: disable=broad-except
        pass
    if self.is_memseq(path):
      try:
        pg.io.open_sequence(path, 'w').close()
      except Exception:  # pylint: disable=broad-except
        pass
    self.files.pop(path, None)
    self.seqs.pop(path, None)
    try:
      still = pg.io.path_exists(path) and not self.is_memseq(path)
    except Exception:  # pylint: disable=broad-except
      still = False
    if still:
      self.retire(path)           # cannot be removed: stop using it

  def retire(self, path):
    """Stops using (and checking) a path whose state is out of step with the
    model for a reason that removing it could spread to other paths."""
    self.close_handles(path)
    self.files.pop(path, None)
    self.seqs.pop(path, None)
    for lst in (self.json_paths, self.txt_paths, self.bin_paths, self.seq_paths):
      if path in lst:
        lst.remove(path)
    self.retired.add(path)

  def mech_op(self, op):
    return op.name[4:] if op.name.startswith('raw-') else op.name

  def mech(self, op, feature):
    """`fs/op` when the operation fails on any path, else `fs/feature`: the
    replay showed that the operation as such works, so the class of the path
    or the relation to the previous content is what matters."""
    fs = 'memseq' if self.is_memseq(op.path) else self.fs
    if feature == 'any-path':
      return f'{fs}/{self.mech_op(op)}'
    if feature.startswith('any-path('):
      return f'{fs}/{self.mech_op(op)}{feature[len("any-path"):]}'
    return f'{fs}/{feature}'

  # -- feature (differential replay on a fresh plain path) ---------------------------
  def feature(self, op, c, clause):
    """Why `clause` was observed after `op` (see the module docstring)."""
    if op.name in ('rm', 'mkdirs') or op.name in READER_OPS:
      return self.path_class(op.path)
    if op.probe1 is None:
      c['persist_probes'] += 1
      op.probe1 = self.replay_fails(op, None)
    if clause in op.probe1 or '*' in op.probe1:
      # fails on a fresh path too: is it a class of value that decides?
      if not hasattr(op, 'vkinds'):
        op.vkinds = {}
      if clause not in op.vkinds:
        op.vkinds[clause] = self.value_kind(op, clause)
      if op.vkinds[clause]:
        return 'any-path(' + op.vkinds[clause] + ')'
      return 'any-path'
    if op.before is not None:
      if op.probe2 is None:
        op.probe2 = self.replay_fails(op, op.before)
      if clause in op.probe2 or '*' in op.probe2:
        return op.last                    # needs the previous content: the relation decides
      if op.readers:
        # the same write over the same content works when nobody reads the
        # path: replay it with a reader that consumed the path and stays open
        if op.probe3 is None:
          op.probe3 = self.replay_fails(op, op.before, reader=True)
        if clause in op.probe3 or '*' in op.probe3:
          return op.last.split('-')[0] + '+open-reader'
    if self.path_class(op.path) != 'plain':
      return self.path_class(op.path)
    return op.last or 'plain'

  def replay_fails(self, op, before, reader=False):
    """Replays `op` on a fresh plainly named path (after re-creating the
    previous content when `before` is given; with `reader`, a reader that has
    consumed that content is open during the operation) and checks that one
    path. Returns the set of clauses observed there ('*': the replay raised)."""
    self.probes += 1
    ext = os.path.splitext(op.path)[1]
    fresh = f'{self.base}/probe{self.probes}/p{ext}'
    is_seq = op.name.endswith(('seq-a', 'seq-w'))
    leaked = None
    try:
      if before is not None:
        if self.is_memseq(fresh):
          with pg.io.open_sequence(fresh, 'w') as f:
            for ln in before.content().splitlines():
              f.add(ln)
        else:
          pg.io.mkdirs(os.path.dirname(fresh))
          content = before.content() if is_seq else before.content
          pg.io.writefile(fresh, content, mode='wb' if isinstance(content, bytes) else 'w')
      elif op.name in ('writefile', 'writefile-bytes'):
        pg.io.mkdirs(os.path.dirname(fresh))
      if reader and before is not None:
        if self.is_memseq(fresh):
          leaked = pg.io.open_sequence(fresh, 'r')
          list(iter(leaked))
        else:
          leaked = pg.io.open(
              fresh, 'rb' if isinstance(getattr(before, 'content', None), bytes) else 'r')
          leaked.read()
      op.run(fresh)
      if is_seq:
        e = SeqEntry(op.raw, (before.items if (before is not None and op.append) else [])
                     + op.items())
        bad = {cl for cl, _ in self.check_seq(fresh, e, None)}
      else:
        bad = {cl for cl, _ in self.check_file(fresh, op.entry(), True, None)}
    except Exception:  # pylint: disable=broad-except
      bad = {'*'}
    if leaked is not None:
      try:
        leaked.close()
      except Exception:  # pylint: disable=broad-except
        pass
    # the probe stays on the file system: keep the model in step
    try:
      pg.io.rm(fresh)
    except Exception:  # pylint: disable=broad-except
      pass
    self.sync_dirs(fresh)
    return bad

  # -- checks ---------------------------------------------------------------------------
  def check_file(self, path, e, full, c):
    """[(clause, detail)] for one file entry."""
    cnt = (lambda n: None) if c is None else (lambda n: c.update([n]))
    cnt('persist_exists_checks')
    try:
      ex = pg.io.path_exists(path)
    except Exception as err:  # pylint: disable=broad-except
      return [('lost', f'path_exists({path}) raised {type(err).__name__}: {err!s:.200}')]
    if not ex:
      return [('lost', f'path_exists({path}) is False after {e.writer}')]
    cnt('persist_content_checks')
    try:
      got = pg.io.readfile(path, mode='rb' if e.kind == 'bytes' else 'r')
    except FileNotFoundError as err:
      return [('lost', f'readfile({path}) raised FileNotFoundError although path_exists')]
    except Exception as err:  # pylint: disable=broad-except
      return [('content-differs', f'readfile({path}) raised {type(err).__name__}: {err!s:.200}')]
    if got != e.content:
      return [('content-differs', f'readfile({path}) = {got!r:.160}, last written '
               f'{e.content!r:.160}')]
    if not full:
      return []
    cnt('persist_load_checks')
    try:
      if e.kind == 'json':
        v = pg.load(path)
      elif e.kind == 'txt':
        v = pg.load(path, file_format='txt')
      else:
        v = pg.io.readfile(path, mode='rb', nonexist_ok=True)
    except Exception as err:  # pylint: disable=broad-except
      return [('load-differs', f'pg.load({path}) raised {type(err).__name__}: {err!s:.200} '
               f'(content is as written: {e.content!r:.120})')]
    diffs = self.values_same(e.value, v) if e.kind == 'json' else (
        [] if v == e.value else [('not-equal', f'{v!r:.100}')])
    if diffs:
      return [('load-differs', f'pg.load({path}) = {v!r:.160}, last saved {e.value!r:.160}: '
               f'{diffs[0][1]}')]
    return []

  def check_seq(self, path, e, c, full=True):
    cnt = (lambda n: None) if c is None else (lambda n: c.update([n]))
    if not self.is_memseq(path):
      cnt('persist_exists_checks')
      if not pg.io.path_exists(path):
        return [('lost', f'path_exists({path}) is False after a sequence write')]
      cnt('persist_content_checks')
      try:
        got = pg.io.readfile(path)
      except Exception as err:  # pylint: disable=broad-except
        return [('lost' if isinstance(err, FileNotFoundError) else 'content-differs',
                 f'readfile({path}) raised {type(err).__name__}: {err!s:.200}')]
      if got != e.content():
        return [('content-differs', f'readfile({path}) = {got!r:.160}, records written '
                 f'{e.content()!r:.160}')]
    if not full:
      return []
    cnt('persist_seq_checks')
    try:
      if e.raw:
        with pg.io.open_sequence(path, 'r') as f:
          got = list(iter(f))
          n = len(f) if self.is_memseq(path) else None
      else:
        with pg.open_jsonl(path, 'r') as f:
          got = list(iter(f))
          n = len(f) if self.is_memseq(path) else None
    except Exception as err:  # pylint: disable=broad-except
      return [('records-differ', f'iterating {path} raised {type(err).__name__}: {err!s:.200}')]
    exp = e.records()
    if len(exp) != len(got):
      return [('records-differ', f'{path}: read {len(got)} records {got!r:.160}, added '
               f'{len(exp)}: {exp!r:.160}')]
    for x, y in zip(exp, got):
      diffs = self.values_same(x, y)
      if diffs:
        return [('records-differ', f'{path}: read {got!r:.160}, added {exp!r:.160}: '
                 f'{diffs[0][1]}')]
    if n is not None and n != len(exp):
      return [('records-differ', f'len(sequence) = {n}, {len(exp)} records were added')]
    return []

  def check_all(self, op, rng, c, skip=None):
    problems = []
    touched = op.path
    paths = self.all_file_paths() + [p for p in self.seq_paths if self.is_memseq(p)]
    paths.sort(key=lambda p: p != touched)          # the touched path first
    busy = {h.path for h in self.handles}
    for path in paths:
      if path == skip:
        continue
      if path in busy and not (path == touched and op.name not in READER_OPS):
        # A history does not read every path after every step: a reader that
        # is open on the path is left undisturbed for a while.
        if rng.random() < 0.7:
          c['persist_checks_deferred(open reader)'] += 1
          continue
      e = self.seqs.get(path) if path in self.seqs else self.files.get(path)
      if e is None:
        if self.is_memseq(path):
          continue
        c['persist_absent_checks'] += 1
        bad = None
        try:
          if pg.io.path_exists(path):
            bad = f'path_exists({path}) is True'
          elif pg.io.readfile(path, nonexist_ok=True) is not None:
            bad = f'readfile({path}, nonexist_ok=True) is not None'
          elif rng.random() < 0.3:
            try:
              pg.load(path)
              bad = f'pg.load({path}) returned'
            except FileNotFoundError:
              pass
        except Exception as err:  # pylint: disable=broad-except
          bad = f'{type(err).__name__}: {err!s:.200}'
        if bad:
          clause = 'rm-ineffective' if (op.name == 'rm' and path == touched) else 'phantom-path'
          problems.append((clause, self.mech(op, self.classes(op, path)),
                           f'{path} was never written or was removed, but {bad}'))
          if path == touched:
            self.heal(path)
          else:
            self.retire(path)
        continue
      full = path == touched or rng.random() < 0.25
      found = (self.check_seq(path, e, c, full or self.is_memseq(path))
               if isinstance(e, SeqEntry) else self.check_file(path, e, full, c))
      if not found:
        continue
      if path in busy and not (path == touched and op.name not in READER_OPS):
        # Reading the path while a reader of it is open. Without the reader
        # (closed: re-synchronised) the same check decides whether it matters.
        self.close_handles(path)
        again = (self.check_seq(path, e, None, True) if isinstance(e, SeqEntry)
                 else self.check_file(path, e, True, None))
        if not again:
          fs = 'memseq' if self.is_memseq(path) else self.fs
          for clause, detail in found:
            problems.append((clause, f'{fs}/open-reader',
                             f'{detail}\n(unclosed readers of the path: the same '
                             f'check passes once they are closed)'))
          continue
      if path == touched and op.name in READER_OPS:
        for clause, detail in found:
          problems.append((clause, self.mech(op, self.path_class(path)), detail))
      elif path == touched:
        for clause, detail in found:
          problems.append((clause, self.mech(op, self.feature(op, c, clause)), detail))
      else:
        for clause, detail in found:
          problems.append(('untouched-path-changed', self.mech(op, self.classes(op, path)),
                           f'after {op.show()}: {clause}: {detail}'))
      if path == touched:
        self.heal(path)
      else:
        self.retire(path)
    # directories
    for d in [self.root] + self.dir_universe():
      if d in self.reported_dirs:
        continue
      c['persist_listdir_checks'] += 1
      bad, names = None, set()
      try:
        isd = pg.io.isdir(d)
        if isd != (d in self.dirs):
          bad = f'isdir({d}) is {isd}, model says {d in self.dirs}'
        elif isd:
          got = set(pg.io.listdir(d))
          exp = self.listing(d)
          if d == MEM:
            got = {n for n in got if self.tag in n}
            exp = {n for n in exp if self.tag in n}
          if self.retired:
            # retired paths are out of step with the model by definition
            unknown = {n for n in got | exp
                       if any(p.startswith(os.path.join(d, n)) for p in self.retired)}
            got, exp = got - unknown, exp - unknown
          if got != exp:
            bad = f'listdir({d}) = {sorted(got)}, expected {sorted(exp)}'
            names = got ^ exp
          elif rng.random() < 0.3:
            full = set(pg.io.listdir(d, fullpath=True))
            if d != MEM and full != {os.path.join(d, n) for n in exp}:
              bad = f'listdir({d}, fullpath=True) = {sorted(full)}'
      except Exception as err:  # pylint: disable=broad-except
        bad = f'listing {d} raised {type(err).__name__}: {err!s:.200}'
      if bad:
        cls = 'plain'
        if self.path_class(d.rstrip('/') + '/') == 'prefix-name' or any(
            self.path_class(os.path.join(d, n)) == 'prefix-name' for n in names):
          cls = 'prefix-name'
        problems.append(('listdir-differs', f'{self.fs}/{cls}', bad))
        self.reported_dirs.add(d)
    return problems

  def classes(self, op, other):
    if 'prefix-name' in (self.path_class(op.path), self.path_class(other)):
      return 'prefix-name'
    return 'plain'

  def cleanup(self):
    for h in list(self.handles):
      self.close_handles(h.path)
    for p in list(self.all_file_paths()):
      try:
        pg.io.rm(p)
      except Exception:  # pylint: disable=broad-except
        pass
