"""Reference models: built-in list/dict driven in lock-step (C02).

The model implements Python semantics plus only the documented extensions of
the symbolic containers:
  * rebind/assignment of MISSING_VALUE deletes the key / element,
  * rebind of an index past the end appends,
  * pg.Insertion inserts,
  * plain containers become symbolic (invisible after to_plain()).
"""
import copy
import math
import operator

import pyglove as pg

MISSING = pg.MISSING_VALUE


class Ins:           # model-side insertion marker
  def __init__(self, v):
    self.v = v


def build_plain(desc, model_forest):
  k = desc[0]
  if k == 'v':
    return copy.deepcopy(desc[1])
  if k in ('D', 'd'):
    return {kk: build_plain(vv, model_forest) for kk, vv in desc[1]}
  if k in ('L', 'l'):
    return [build_plain(vv, model_forest) for vv in desc[1]]
  if k == 't':
    return tuple(build_plain(vv, model_forest) for vv in desc[1])
  if k == 'node':
    n = model_forest[desc[1]]
    for key in desc[2]:
      n = n[key]
    return copy.deepcopy(n)
  if k == 'missing':
    return MISSING
  if k == 'ins':
    return Ins(build_plain(desc[1], model_forest))
  raise ValueError(desc)


def to_plain(v):
  """Deep conversion of symbolic containers to built-in ones (symbolic form)."""
  if isinstance(v, pg.List):
    return [to_plain(x) for x in v.sym_values()]
  if isinstance(v, pg.Dict):
    return {k: to_plain(x) for k, x in v.sym_items()}
  if isinstance(v, list):
    return [to_plain(x) for x in v]
  if isinstance(v, dict):
    return {k: to_plain(x) for k, x in v.items()}
  if isinstance(v, tuple):
    return tuple(to_plain(x) for x in v)
  return v


def same(a, b):
  """Deep equality incl. dict key order, type-exact for bool/int/float."""
  if isinstance(a, dict) and isinstance(b, dict):
    return (list(a.keys()) == list(b.keys()) and
            all(type(x) is type(y) for x, y in zip(a.keys(), b.keys())) and
            all(same(a[k], b[k]) for k in a))
  if isinstance(a, (list, tuple)) and isinstance(b, (list, tuple)):
    return (isinstance(a, tuple) == isinstance(b, tuple) and len(a) == len(b)
            and all(same(x, y) for x, y in zip(a, b)))
  if isinstance(a, float) and isinstance(b, float) and math.isnan(a) and math.isnan(b):
    return True
  if type(a) is not type(b):
    return False
  return a == b


def sortkey(v):
  return repr(to_plain(v))


def mkslice(a):
  return slice(a['a'], a['b'], a['c'])


# --- model operations: name -> fn(model_node, args, BP) -> result ------------

def _l_remove(m, a, BP):
  if 'pos' in a:
    if a['pos'] >= len(m):
      raise ValueError('harness: position vanished')
    return m.remove(m[a['pos']])
  return m.remove(BP(a['v']))


def _l_sort(m, a, BP):
  return m.sort(key=sortkey if a['key'] else None, reverse=a['reverse'])


def _l_imul(m, a, BP):
  # A tree cannot hold one node several times: repeated members are copies.
  m[:] = [copy.deepcopy(x) for _ in range(max(a['n'], 0)) for x in m]
  return m


def _l_iadd(m, a, BP):
  m += [BP(v) for v in a['vs']]
  return m


def _d_update(m, a, BP):
  items = [(k, BP(v)) for k, v in a['items']]
  if a['form'] == 'dict':
    return m.update(dict(items))
  if a['form'] == 'pairs':
    return m.update(items)
  if a['form'] == 'kwargs':
    return m.update(**dict(items))
  return m.update(dict(items[:1]), **dict(items[1:]))


def _d_ior(m, a, BP):
  m |= {k: BP(v) for k, v in a['items']}
  return m


def _setitem_missing_aware(m, k, v):
  if v is MISSING:
    # documented extension: assigning the missing marker deletes the key
    if isinstance(m, dict):
      if k in m:
        del m[k]
      return
  m[k] = v


def _rebind(m, a, BP):
  """Model of rebind: a batch of (relative path -> value) writes."""
  ups = [(list(rel), BP(v)) for rel, v in a['updates']]
  # group by parent container
  by_parent = {}
  order = []
  for rel, v in ups:
    parent = m
    for key in rel[:-1]:
      parent = parent[key]          # KeyError/IndexError: path does not exist
    pid = id(parent)
    if pid not in by_parent:
      by_parent[pid] = (parent, [])
      order.append(pid)
    by_parent[pid][1].append((rel[-1], v))
  for pid in order:
    parent, writes = by_parent[pid]
    if isinstance(parent, dict):
      for k, v in writes:
        if isinstance(v, Ins):
          v = v.v                   # Insertion is meaningful for lists only
        if v is MISSING:
          parent.pop(k, None)
        else:
          parent[k] = v
    elif isinstance(parent, list):
      n = len(parent)
      repl = {k: v for k, v in writes if isinstance(k, int) and 0 <= k < n
              and not isinstance(v, Ins)}
      ins = {k: v.v for k, v in writes if isinstance(k, int) and 0 <= k < n
             and isinstance(v, Ins)}
      tail = [(k, v.v if isinstance(v, Ins) else v) for k, v in writes
              if isinstance(k, int) and k >= n]
      bad = [k for k, _ in writes if not isinstance(k, int) or k < 0]
      if bad:
        raise KeyError(bad[0])
      out = []
      for i, x in enumerate(parent):
        if i in ins:
          out.append(ins[i])
        if i in repl:
          if repl[i] is not MISSING:
            out.append(repl[i])
        else:
          out.append(x)
      for k, v in sorted(tail, key=lambda kv: kv[0], reverse=True):
        if v is not MISSING:
          out.append(v)
      parent[:] = out
    else:
      raise KeyError('not a container')
  return None


def _rebind_fn(m, a, BP):
  new = BP(a['v'])
  def sel(v):
    if isinstance(v, bool):
      return False
    if a['match'] == 'int':
      return isinstance(v, int)
    if a['match'] == 'str':
      return isinstance(v, str)
    return isinstance(v, int) and v > 3
  def walk(c):
    items = list(c.items()) if isinstance(c, dict) else list(enumerate(c))
    for k, v in items:
      if sel(v):
        c[k] = copy.deepcopy(new)
      elif isinstance(v, (dict, list)):
        walk(v)
  walk(m)
  return None


def _d_setitem(m, a, BP):
  v = BP(a['v'])
  if v is MISSING:
    m.pop(a['k'], None)
  else:
    m[a['k']] = v


MODEL_OPS = {
    'List.__setitem__[int]': lambda m, a, BP: operator.setitem(m, a['i'], BP(a['v'])),
    'List.__setitem__[slice]': lambda m, a, BP: operator.setitem(m, mkslice(a), [BP(v) for v in a['vs']]),
    'List.__delitem__[int]': lambda m, a, BP: operator.delitem(m, a['i']),
    'List.__delitem__[slice]': lambda m, a, BP: operator.delitem(m, mkslice(a)),
    'List.append': lambda m, a, BP: m.append(BP(a['v'])),
    'List.insert': lambda m, a, BP: m.insert(a['i'], BP(a['v'])),
    'List.extend': lambda m, a, BP: m.extend([BP(v) for v in a['vs']]),
    'List.pop': lambda m, a, BP: m.pop(*([a['i']] if 'i' in a else [])),
    'List.remove': _l_remove,
    'List.clear': lambda m, a, BP: m.clear(),
    'List.sort': _l_sort,
    'List.reverse': lambda m, a, BP: m.reverse(),
    'List.__iadd__': _l_iadd,
    'List.__imul__': _l_imul,
    'List.*=': _l_imul,
    'List.copy': lambda m, a, BP: m.copy(),
    'List.__add__': lambda m, a, BP: m + [BP(v) for v in a['vs']],
    'List.__mul__': lambda m, a, BP: [copy.deepcopy(x) for _ in range(max(a['n'], 0)) for x in m],
    'Dict.__setitem__': _d_setitem,
    'Dict.__setattr__': _d_setitem,
    'Dict.__delitem__': lambda m, a, BP: operator.delitem(m, a['k']),
    'Dict.__delattr__': lambda m, a, BP: operator.delitem(m, a['k']),
    'Dict.pop': lambda m, a, BP: (m.pop(a['k'], BP(a['default'])) if 'default' in a
                                   else m.pop(a['k'])),
    'Dict.popitem': lambda m, a, BP: m.popitem(),
    'Dict.clear': lambda m, a, BP: m.clear(),
    'Dict.update': _d_update,
    'Dict.setdefault': lambda m, a, BP: (m.setdefault(a['k'], BP(a['v'])) if 'v' in a
                                          else m.setdefault(a['k'])),
    'Dict.__ior__': _d_ior,
    'Dict.copy': lambda m, a, BP: m.copy(),
    'Dict.__or__': lambda m, a, BP: m | {k: BP(v) for k, v in a['items']},
    'rebind': _rebind,
    'rebind[fn]': _rebind_fn,
}

# Operations whose result is the (mutated) target itself.
RETURNS_SELF = {'List.__iadd__', 'List.__imul__', 'List.*=', 'Dict.__ior__', 'rebind',
                'rebind[fn]'}
# Dict.__delattr__ on a missing key is an AttributeError-or-KeyError question
# the property does not settle (attribute protocol vs mapping protocol).
ERROR_CLASSES = (IndexError, KeyError, TypeError, ValueError)


def error_class(e):
  for c in ERROR_CLASSES:
    if isinstance(e, c):
      return c.__name__
  return type(e).__name__
