"""Deterministic thread scheduler on sys.monitoring + cooperative locks (C16, C17).

Usage
-----
::

    from pgverif.monitors import sched

    s = sched.Scheduler(seed, targets=['pyglove/core/tuning/', 'geno/random.py'],
                        p_switch=0.1, change_points=2, horizon=3000)
    run = s.run([worker0, worker1, worker2])     # zero-argument callables
    run.outcome        # 'ok' | 'watchdog' | 'deadlock'  (anything but 'ok' => INCONCLUSIVE)
    run.results[i]     # return value of callable i     run.errors[i]: its exception or None
    run.trace          # [(from_worker, to_worker, kind, location), ...]  the interleaving
    run.trace_hash     # hex digest of the trace: count distinct interleavings with a set
    run.points, run.switches, run.blocks, run.stalls

What it does: every callable runs on its own real thread, but only the thread
that holds the *token* executes; all others are parked.  `sys.monitoring` LINE
events are enabled (from a PY_START callback that returns DISABLE for every
other code object) only in code objects whose file name contains one of
`targets` (substring match, or a predicate `f(filename) -> bool`).  At each
such LINE event the running thread consults `random.Random(seed)`:

* with probability `p_switch` the token goes to a uniformly chosen other
  runnable worker (kind 'p');
* at `change_points` step numbers drawn from `range(1, horizon)` the running
  worker drops to the lowest priority and the highest-priority runnable worker
  continues (PCT, kind 'c'); `p_switch=0` gives plain PCT, `change_points=0`
  plain random pre-emption.  Pick `horizon` near the number of LINE events of a
  session (`run.points` tells you);
* a worker that blocks on a held lock / waits on a condition (kind 'b'), or
  finishes (kind 'f'), hands the token to the highest-priority runnable worker.

A switch therefore only happens between two statements of target code (where
the interpreter itself could switch) or inside a `threading` primitive.  The
schedule is a function of the seed and of the (deterministic) code under test:
running the same seed again gives the same trace.

Locks: while `run()` is active `threading.Lock`, `threading.RLock` and
`threading.Condition` are replaced *as factories on the threading module* by
cooperative versions (so `Event`, `Semaphore`, `Barrier`, `queue.Queue` objects
built during the session are cooperative too).  A worker that finds a lock held
is descheduled instead of blocking the process; threads that are not workers
of the session (the main thread, free threads) get the ordinary blocking
behaviour from the same objects.  Nothing of the code under test is read or
replaced; objects must be *constructed during the session* (inside the
callables) to get cooperative locks - a real lock created earlier and held by a
descheduled worker stalls the session until the watchdog fires.

From inside a callable (closure over the scheduler):

* `s.stamp()`            - next value of a global logical clock (exact order in
                           token mode; use before/after stamps around calls to
                           bracket them in free mode);
* `s.worker_index()`     - index of the calling worker, None for other threads;
* `s.point('tag')`       - an explicit scheduling point in harness code;
* `s.enable_switching()` - with `solo_first=True` worker `first` (default 0)
                           runs alone (no switching) until it calls this or
                           finishes: a "staggered" start.

`policy=` (token mode, optional): an object with `decide(sched, idx, loc)` that
is asked at every scheduling point while switching is enabled, before the
seeded random / PCT rule: it returns `NotImplemented` (the default rule
decides), `None` (stay) or the index of the worker to run next (kind 'w' in the
trace; ignored if that worker cannot run).  `WindowPolicy` below pre-empts
densely (lock-step, random strides, coin flips, or an enumerated list of
pre-emption depths) inside windows that the harness opens with `arm()` and
closes with `disarm()` - e.g. from the moment all workers were released from a
rendezvous until each has returned from the call that follows it - and leaves
the rest of the session to the default rule.

`mode='free'` is the cross-check: same callables, same target LINE events, but
real threads without a token and real locks; at each LINE event the thread
does `time.sleep(free_sleep)` with probability `p_switch` (and the interpreter
switch interval is lowered for the session).  Not deterministic; `run.trace`
is empty, `run.points` counts LINE events.

Watchdog: `watchdog_s` wall seconds per session; when it fires (or when every
unfinished worker is blocked: 'deadlock') all workers are unwound with
`SchedulerAbort` (a BaseException) and `run.outcome` says so.  Treat that as
inconclusive, never as a violation.  Teardown always restores the factories,
clears the local events, unregisters the callbacks and frees the tool id, so
any number of sessions can run in one process (one at a time).

Self-test / demo: `/venv/bin/python -m pgverif.monitors.sched`.
"""
import _thread
import collections
import hashlib
import itertools
import random
import sys
import threading
import time
import traceback

_mon = sys.monitoring
_alloc = _thread.allocate_lock
_get_ident = _thread.get_ident
_THIS_FILE = __file__

_RealLock = threading.Lock
_RealRLock = threading.RLock
_RealCondition = threading.Condition

_SESSION_GUARD = _alloc()      # one session at a time per process
_ACTIVE = None                 # the running Scheduler (token mode), else None


def install_process_wide():
  """Makes `threading.Lock/RLock/Condition` cooperative for the whole process.

  Call it BEFORE importing the code under test, so that locks which that code
  creates at import time (module-level locks) are cooperative as well; a real
  lock held by a descheduled worker would stall the session. Outside a token
  session (and for threads that are not workers) the cooperative primitives
  block exactly like the real ones.
  """
  threading.Lock = CoopLock
  threading.RLock = CoopRLock
  threading.Condition = CoopCondition


class SchedulerAbort(BaseException):
  """Raised inside workers to unwind a session that is being abandoned."""


class SchedulerError(Exception):
  """Misuse of the scheduler (harness error)."""


# ---------------------------------------------------------------------------
# Cooperative primitives (installed as factories on the threading module).
# ---------------------------------------------------------------------------


def _token_worker():
  """The worker of the active session that is the calling thread, if it runs under the token."""
  s = _ACTIVE
  if s is None:
    return None, None
  w = s._by_ident.get(_get_ident())
  if w is None or s._current is not w or s._abort:
    return s, None
  return s, w


class CoopLock:
  """Substitute for threading.Lock(): never blocks a scheduled worker."""

  def __init__(self):
    self._real = _alloc()

  def acquire(self, blocking=True, timeout=-1):
    if self._real.acquire(False):
      return True
    if not blocking:
      return False
    s, w = _token_worker()
    if w is None:
      return _blocking_acquire(s, self._real, timeout)
    timed = timeout is not None and timeout >= 0
    while not self._real.acquire(False):
      if s._block(w, self, timed) == 'timeout':
        return self._real.acquire(False)
    return True

  def release(self):
    self._real.release()
    s = _ACTIVE
    if s is not None:
      s._unblock(self)

  def locked(self):
    return self._real.locked()

  def _at_fork_reinit(self):        # used by stdlib modules (logging, futures)
    self._real._at_fork_reinit()

  __enter__ = acquire

  def __exit__(self, *exc):
    self.release()

  def __repr__(self):
    return f'<CoopLock {"locked" if self._real.locked() else "unlocked"} at {id(self):#x}>'


class CoopRLock:
  """Substitute for threading.RLock()."""

  def __init__(self):
    self._block = CoopLock()
    self._owner = None
    self._count = 0

  def acquire(self, blocking=True, timeout=-1):
    me = _get_ident()
    if self._owner == me:
      self._count += 1
      return True
    rc = self._block.acquire(blocking, timeout)
    if rc:
      self._owner = me
      self._count = 1
    return rc

  __enter__ = acquire

  def release(self):
    if self._owner != _get_ident():
      raise RuntimeError('cannot release un-acquired lock')
    self._count -= 1
    if not self._count:
      self._owner = None
      self._block.release()

  def __exit__(self, *exc):
    self.release()

  # Protocol used by Condition (stdlib and cooperative).
  def _release_save(self):
    if self._count == 0:
      raise RuntimeError('cannot release un-acquired lock')
    state = (self._count, self._owner)
    self._count = 0
    self._owner = None
    self._block.release()
    return state

  def _acquire_restore(self, state):
    self._block.acquire()
    self._count, self._owner = state

  def _is_owned(self):
    return self._owner == _get_ident()

  def _at_fork_reinit(self):
    self._block._at_fork_reinit()
    self._owner = None
    self._count = 0

  def __repr__(self):
    return f'<CoopRLock owner={self._owner} count={self._count} at {id(self):#x}>'


class _Waiter:
  __slots__ = ('flag', 'worker', 'raw')

  def __init__(self, worker):
    self.flag = False
    self.worker = worker
    self.raw = None
    if worker is None:
      self.raw = _alloc()
      self.raw.acquire()


class CoopCondition:
  """Substitute for threading.Condition()."""

  def __init__(self, lock=None):
    if lock is None:
      lock = CoopRLock()
    self._lock = lock
    self.acquire = lock.acquire
    self.release = lock.release
    self._waiters = collections.deque()

  def __enter__(self):
    return self._lock.__enter__()

  def __exit__(self, *args):
    return self._lock.__exit__(*args)

  def _release_save(self):
    f = getattr(self._lock, '_release_save', None)
    if f is not None:
      return f()
    self._lock.release()
    return None

  def _acquire_restore(self, state):
    f = getattr(self._lock, '_acquire_restore', None)
    if f is not None:
      return f(state)
    self._lock.acquire()
    return None

  def _is_owned(self):
    f = getattr(self._lock, '_is_owned', None)
    if f is not None:
      return f()
    if self._lock.acquire(False):
      self._lock.release()
      return False
    return True

  def wait(self, timeout=None):
    if not self._is_owned():
      raise RuntimeError('cannot wait on un-acquired lock')
    s, w = _token_worker()
    waiter = _Waiter(w)
    self._waiters.append(waiter)
    saved = self._release_save()
    try:
      if w is None:
        if timeout is None:
          _blocking_acquire(s, waiter.raw, -1)
          got = True
        else:
          got = _blocking_acquire(s, waiter.raw, max(timeout, 0))
      else:
        while not waiter.flag:
          if s._block(w, waiter, timeout is not None) == 'timeout':
            break
        got = waiter.flag
      if not got:
        try:
          self._waiters.remove(waiter)
        except ValueError:
          got = True          # notified between the timeout and the removal
      return got
    finally:
      self._acquire_restore(saved)

  def wait_for(self, predicate, timeout=None):
    endtime = None
    waittime = timeout
    result = predicate()
    while not result:
      if waittime is not None:
        if endtime is None:
          endtime = time.monotonic() + waittime
        else:
          waittime = endtime - time.monotonic()
          if waittime <= 0:
            break
      self.wait(waittime)
      result = predicate()
    return result

  def notify(self, n=1):
    if not self._is_owned():
      raise RuntimeError('cannot notify on un-acquired lock')
    s = _ACTIVE
    while n > 0 and self._waiters:
      try:
        waiter = self._waiters.popleft()
      except IndexError:
        break
      n -= 1
      waiter.flag = True
      if waiter.raw is not None:
        try:
          waiter.raw.release()
        except RuntimeError:
          pass
      elif s is not None:
        s._unblock(waiter)

  def notify_all(self):
    self.notify(len(self._waiters))

  notifyAll = notify_all


def _blocking_acquire(s, raw, timeout):
  """Real blocking acquire for threads that are not scheduled by a token.

  Polls, so that a thread of an aborted session can be unwound.
  """
  if s is None or _get_ident() not in s._by_ident:
    return raw.acquire(True, -1 if timeout is None else timeout)
  deadline = None if timeout is None or timeout < 0 else time.monotonic() + timeout
  while True:
    if raw.acquire(True, 0.05):
      return True
    if s._abort:
      raise SchedulerAbort()
    if deadline is not None and time.monotonic() >= deadline:
      return False


# ---------------------------------------------------------------------------
# The scheduler.
# ---------------------------------------------------------------------------


class _Worker:
  __slots__ = ('idx', 'fn', 'ident', 'gate', 'done', 'blocked_on', 'timed',
               'timeout_fired', 'prio', 'result', 'error', 'thread', 'rng',
               'points')

  def __init__(self, idx, fn):
    self.idx, self.fn = idx, fn
    self.ident = None
    self.gate = _alloc()
    self.gate.acquire()
    self.done = False
    self.blocked_on = None
    self.timed = False
    self.timeout_fired = False
    self.prio = 0
    self.result = None
    self.error = None
    self.thread = None
    self.rng = None
    self.points = 0


class Run:
  """Result of Scheduler.run()."""

  def __init__(self):
    self.outcome = 'ok'
    self.results = []
    self.errors = []
    self.tracebacks = []
    self.trace = []
    self.trace_hash = ''
    self.points = 0
    self.switches = 0
    self.blocks = 0
    self.stalls = 0
    self.leaked = 0
    self.elapsed = 0.0
    self.mode = 'token'

  def __repr__(self):
    return (f'Run(outcome={self.outcome!r}, switches={self.switches}, points={self.points}, '
            f'blocks={self.blocks}, hash={self.trace_hash})')


class Scheduler:
  """See the module docstring."""

  def __init__(self, seed, targets=(), p_switch=0.1, change_points=0, horizon=2000,
               mode='token', watchdog_s=30.0, solo_first=False, first=None,
               patch_locks=True, free_sleep=0.0, switch_interval=1e-5,
               deadlock_s=2.0, policy=None):
    if mode not in ('token', 'free'):
      raise SchedulerError(f'unknown mode {mode!r}')
    self.seed = seed
    self.mode = mode
    self.p_switch = float(p_switch)
    self.watchdog_s = watchdog_s
    self.deadlock_s = deadlock_s
    self.solo_first = solo_first
    self.first = first
    self.patch_locks = patch_locks and mode == 'token'
    self.free_sleep = free_sleep
    self.switch_interval = switch_interval
    self._policy = policy if mode == 'token' else None
    self._targets = [t for t in targets if isinstance(t, str)]
    self._target_preds = [t for t in targets if not isinstance(t, str)]
    self._rng = random.Random(f'sched/{seed}')
    n_cp = int(change_points)
    self._change_points = set(
        self._rng.randrange(1, max(2, int(horizon))) for _ in range(n_cp))
    self._low_prio = 0
    self._file_cache = {}
    self._codes = []
    self._workers = []
    self._by_ident = {}
    self._current = None
    self._abort = None
    self._switching = True
    self._clock = itertools.count(1)
    self._tool = None
    self._all_done = _alloc()
    self._trace = []
    self._points = 0
    self._blocks = 0
    self._stalls = 0
    self._ndone = 0
    self._done_mutex = _alloc()
    self._used = False
    self._free_gate_open = False

  # -- public helpers usable from the callables -------------------------------
  def stamp(self):
    return next(self._clock)

  def worker_index(self):
    w = self._by_ident.get(_get_ident())
    return None if w is None else w.idx

  def enable_switching(self):
    """Ends the solo phase of a `solo_first` session (idempotent)."""
    if self._switching:
      return
    self._switching = True
    if self.mode == 'free':
      self._open_free_gates()

  def point(self, tag='point'):
    """Explicit scheduling point (harness code)."""
    w = self._by_ident.get(_get_ident())
    if w is None:
      return
    if self.mode == 'free':
      self._free_point(w)
    elif self._current is w:
      self._point(w, (str(tag), 0))

  def runnable_indices(self, exclude=None):
    """Indices of the workers that could run now (for a `policy`)."""
    return [x.idx for x in self._workers
            if not x.done and x.blocked_on is None and x.idx != exclude]

  # -- monitoring callbacks --------------------------------------------------
  def _is_target(self, filename):
    r = self._file_cache.get(filename)
    if r is None:
      r = False
      if filename != _THIS_FILE:
        fn = filename.replace('\\', '/')
        r = any(t in fn for t in self._targets) or any(
            p(fn) for p in self._target_preds)
      self._file_cache[filename] = r
    return r

  def _on_start(self, code, offset):
    try:
      if self._is_target(code.co_filename):
        _mon.set_local_events(self._tool, code, _mon.events.LINE)
        self._codes.append(code)
    except Exception:  # pylint: disable=broad-except
      pass
    return _mon.DISABLE

  def _on_line_token(self, code, lineno):
    w = self._by_ident.get(_get_ident())
    if w is None or w is not self._current:
      return
    self._point(w, (code.co_name, lineno))

  def _on_line_free(self, code, lineno):
    w = self._by_ident.get(_get_ident())
    if w is not None:
      self._free_point(w)

  def _free_point(self, w):
    w.points += 1
    if self._abort:
      raise SchedulerAbort()
    if self._switching and w.rng.random() < self.p_switch:
      time.sleep(self.free_sleep)

  # -- token scheduling -------------------------------------------------------
  def _runnable(self, exclude=None):
    return [x for x in self._workers
            if not x.done and x.blocked_on is None and x is not exclude]

  def _point(self, w, loc):
    if self._abort:
      raise SchedulerAbort()
    self._points += 1
    if not self._switching:
      return
    pol = self._policy
    if pol is not None:
      d = pol.decide(self, w.idx, loc)
      if d is not NotImplemented:
        if d is not None and d != w.idx:
          nxt = self._workers[d]
          if not nxt.done and nxt.blocked_on is None:
            self._switch(w, nxt, 'w', loc)
        return
    k = self._points
    if k in self._change_points:
      self._low_prio -= 1
      w.prio = self._low_prio
      others = self._runnable(w)
      if others:
        self._switch(w, max(others, key=lambda x: x.prio), 'c', loc)
      return
    if self.p_switch and self._rng.random() < self.p_switch:
      others = self._runnable(w)
      if others:
        nxt = others[self._rng.randrange(len(others))] if len(others) > 1 else others[0]
        self._switch(w, nxt, 'p', loc)

  def _switch(self, me, nxt, kind, loc):
    self._trace.append((me.idx, nxt.idx, kind, loc))
    self._current = nxt
    nxt.gate.release()
    me.gate.acquire()
    if self._abort:
      raise SchedulerAbort()

  def _unblock(self, obj):
    for x in self._workers:
      if x.blocked_on is obj:
        x.blocked_on = None

  def _block(self, w, obj, timed):
    """Deschedules `w` until `obj` is released/notified; returns 'timeout' or None."""
    if self._abort:
      raise SchedulerAbort()
    self._blocks += 1
    w.blocked_on, w.timed, w.timeout_fired = obj, timed, False
    nxt = self._pick_next(w)
    if nxt is None or nxt is w:
      if nxt is w and w.timeout_fired:
        return 'timeout'
      # Nobody else can run: either a thread outside the session holds the
      # object (wait for it in real time) or the session is deadlocked.
      w.blocked_on = None
      self._stalls += 1
      t0 = time.monotonic()
      while True:
        time.sleep(0.0005)
        if self._abort:
          raise SchedulerAbort()
        if self._probe(obj):
          return None
        if time.monotonic() - t0 > self.deadlock_s:
          self._abort = self._abort or 'deadlock'
          self._wake_all()
          raise SchedulerAbort()
    self._switch(w, nxt, 'b', ('block', 0))
    if w.timeout_fired:
      w.timeout_fired = False
      return 'timeout'
    return None

  @staticmethod
  def _probe(obj):
    if isinstance(obj, CoopLock):
      return not obj._real.locked()
    return bool(getattr(obj, 'flag', True))

  def _pick_next(self, me):
    """Highest-priority runnable worker other than `me`; fires a timeout if none."""
    others = self._runnable(me)
    if others:
      return max(others, key=lambda x: x.prio)
    timed = [x for x in self._workers
             if not x.done and x.blocked_on is not None and x.timed]
    if timed:
      x = max(timed, key=lambda y: y.prio)
      x.blocked_on, x.timeout_fired = None, True
      return x
    return None

  def _finish(self, w):
    with self._done_mutex:
      w.done = True
      self._ndone += 1
      last = self._ndone == len(self._workers)
    if last:
      self._release(self._all_done)
      return
    if self.mode == 'free':
      if not self._switching:
        self.enable_switching()
      return
    if self._abort or self._current is not w:
      return
    if not self._switching:
      self._switching = True
    nxt = self._pick_next(w)
    if nxt is None:
      # Everybody left is blocked on something a finished/foreign thread
      # holds: let the highest-priority one poll (it detects the deadlock).
      rest = [x for x in self._workers if not x.done]
      nxt = max(rest, key=lambda x: x.prio)
      nxt.blocked_on = None
    self._trace.append((w.idx, nxt.idx, 'f', ('finish', 0)))
    self._current = nxt
    nxt.gate.release()

  @staticmethod
  def _release(raw):
    try:
      raw.release()
    except RuntimeError:
      pass

  def _wake_all(self):
    for x in self._workers:
      self._release(x.gate)

  def _open_free_gates(self):
    if not self._free_gate_open:
      self._free_gate_open = True
      self._wake_all()

  # -- thread body ------------------------------------------------------------
  def _body(self, w, registered):
    w.ident = _get_ident()
    self._by_ident[w.ident] = w
    registered.release()
    w.gate.acquire()
    try:
      if self._abort:
        raise SchedulerAbort()
      w.result = w.fn()
    except SchedulerAbort:
      w.error = SchedulerAbort()
    except BaseException as e:  # pylint: disable=broad-except
      w.error = e
    finally:
      try:
        self._finish(w)
      except BaseException:  # pylint: disable=broad-except
        self._abort = self._abort or 'scheduler-error'
        self._wake_all()
        self._release(self._all_done)

  # -- session ------------------------------------------------------------------
  def run(self, callables):
    global _ACTIVE
    if not callables:
      raise SchedulerError('no callables')
    if self._used:
      raise SchedulerError('a Scheduler runs one session; make a new one')
    self._used = True
    if not _SESSION_GUARD.acquire(False):
      raise SchedulerError('another scheduler session is running in this process')
    run = Run()
    run.mode = self.mode
    t0 = time.monotonic()
    old_interval = sys.getswitchinterval()
    installed_mon = patched = False
    try:
      self._workers = [_Worker(i, fn) for i, fn in enumerate(callables)]
      n = len(self._workers)
      prios = list(range(1, n + 1))
      self._rng.shuffle(prios)
      for w, p in zip(self._workers, prios):
        w.prio = p
        w.rng = random.Random(f'sched/{self.seed}/{w.idx}')
      first = self.first
      if first is None:
        first = 0 if self.solo_first else max(self._workers, key=lambda x: x.prio).idx
      self._switching = not self.solo_first
      self._all_done.acquire()
      # Threads are created and started with the real primitives in place.
      for w in self._workers:
        registered = _alloc()
        registered.acquire()
        w.thread = threading.Thread(target=self._body, args=(w, registered),
                                    name=f'sched-worker-{w.idx}', daemon=True)
        w.thread.start()
        registered.acquire()
      self._install_monitoring()
      installed_mon = True
      prev_factories = (threading.Lock, threading.RLock, threading.Condition)
      if self.patch_locks:
        threading.Lock = CoopLock
        threading.RLock = CoopRLock
        threading.Condition = CoopCondition
        patched = True
      if self.mode == 'token':
        _ACTIVE = self
        self._current = self._workers[first]
        self._workers[first].gate.release()
      else:
        sys.setswitchinterval(self.switch_interval)
        if self.solo_first:
          self._workers[first].gate.release()
        else:
          self._open_free_gates()
      finished = self._all_done.acquire(True, self.watchdog_s)
      if not finished:
        self._abort = self._abort or 'watchdog'
        self._wake_all()
        self._all_done.acquire(True, 3.0)
    finally:
      if self._abort is None and self._ndone < len(self._workers):
        self._abort = 'interrupted'      # e.g. the per-case alarm of the runner
        self._wake_all()
      _ACTIVE = None
      if patched:
        threading.Lock, threading.RLock, threading.Condition = prev_factories
      if installed_mon:
        self._remove_monitoring()
      sys.setswitchinterval(old_interval)
      for w in self._workers:
        if w.thread is not None:
          w.thread.join(0.5 if self._abort else 5.0)
          if w.thread.is_alive():
            run.leaked += 1
      _SESSION_GUARD.release()
    run.outcome = self._abort or 'ok'
    run.results = [w.result for w in self._workers]
    run.errors = [w.error for w in self._workers]
    run.tracebacks = [
        ''.join(traceback.format_exception(w.error))[-3000:]
        if w.error is not None and not isinstance(w.error, SchedulerAbort) else None
        for w in self._workers]
    run.trace = self._trace
    run.trace_hash = hashlib.blake2b(
        repr(self._trace).encode(), digest_size=8).hexdigest()
    run.points = self._points + sum(w.points for w in self._workers)
    run.switches = len(self._trace)
    run.blocks = self._blocks
    run.stalls = self._stalls
    run.elapsed = time.monotonic() - t0
    return run

  def _install_monitoring(self):
    tool = None
    for tid in (3, 4, _mon.PROFILER_ID, _mon.COVERAGE_ID):
      if _mon.get_tool(tid) is None:
        tool = tid
        break
    if tool is None:
      raise SchedulerError('no free sys.monitoring tool id')
    _mon.use_tool_id(tool, 'pgverif-sched')
    self._tool = tool
    _mon.register_callback(tool, _mon.events.PY_START, self._on_start)
    _mon.register_callback(
        tool, _mon.events.LINE,
        self._on_line_token if self.mode == 'token' else self._on_line_free)
    # Code objects DISABLEd by an earlier session must be offered again.
    _mon.restart_events()
    _mon.set_events(tool, _mon.events.PY_START)

  def _remove_monitoring(self):
    tool = self._tool
    if tool is None:
      return
    try:
      _mon.set_events(tool, 0)
      for code in self._codes:
        try:
          _mon.set_local_events(tool, code, 0)
        except Exception:  # pylint: disable=broad-except
          pass
      _mon.register_callback(tool, _mon.events.PY_START, None)
      _mon.register_callback(tool, _mon.events.LINE, None)
    finally:
      _mon.free_tool_id(tool)
      self._tool = None
      self._codes = []


# ---------------------------------------------------------------------------
# Window policy: dense pre-emption where the harness says the first-use /
# simultaneous-arrival windows are.
# ---------------------------------------------------------------------------


class WindowPolicy:
  """Pre-empts densely while a window is open; see the module docstring.

  kind:
    'lockstep'  round robin over the runnable workers, `stride` statements each;
    'stutter'   round robin, a fresh random number 1..`stride_max` of statements
                per turn (the relative offset of the workers does a random walk);
    'dense'     after every statement, with probability `p`, a random other
                runnable worker continues;
    'preempt'   `quotas` = (q1, q2, ...): the running worker is pre-empted after
                q1 statements, the next one after q2, ...; afterwards workers
                run until they block or finish (enumerable depth-d schedules).
  A window ends with `disarm()` or after `cap` scheduling points.  `windows`
  collects, per window, the list of (from, to, location) of the policy's own
  switches - the explored interleaving of that window.
  """

  KINDS = ('lockstep', 'stutter', 'dense', 'preempt')

  def __init__(self, seed, kind, stride=1, stride_max=3, p=0.5, quotas=(), cap=600):
    if kind not in self.KINDS:
      raise SchedulerError(f'unknown window policy {kind!r}')
    self.kind = kind
    self.stride = max(1, int(stride))
    self.stride_max = max(1, int(stride_max))
    self.p = float(p)
    self.quotas = tuple(int(q) for q in quotas)
    self.cap = cap
    self._rng = random.Random(f'window/{seed}')
    self.active = False
    self.windows = []
    self._events = 0
    self._cur = None
    self._since = 0
    self._quota = 1
    self._turn = 0

  def arm(self, tag='window'):
    if self.active:
      return
    self.active = True
    self.windows.append([tag])
    self._events = 0
    self._cur = None
    self._since = 0
    self._turn = 0
    self._quota = self._next_quota()

  def disarm(self):
    self.active = False

  def _next_quota(self):
    if self.kind == 'lockstep':
      return self.stride
    if self.kind == 'stutter':
      return self._rng.randint(1, self.stride_max)
    if self.kind == 'preempt':
      k = self._turn
      return self.quotas[k] if k < len(self.quotas) else None
    return 1

  def decide(self, sched, idx, loc):
    if not self.active:
      return NotImplemented
    self._events += 1
    if self._events > self.cap:
      self.active = False
      return NotImplemented
    if idx != self._cur:          # the token moved by a block / finish
      self._cur, self._since = idx, 0
    self._since += 1
    if self.kind == 'dense':
      if self._rng.random() >= self.p:
        return None
      others = sched.runnable_indices(idx)
      if not others:
        return None
      nxt = others[self._rng.randrange(len(others))]
    else:
      if self._quota is None or self._since < self._quota:
        return None
      others = sched.runnable_indices(idx)
      if not others:
        self._since = 0
        return None
      later = [o for o in others if o > idx]
      nxt = min(later) if later else min(others)
      self._turn += 1
      self._quota = self._next_quota()
    self.windows[-1].append((idx, nxt, loc))
    self._cur, self._since = nxt, 0
    return nxt

  def window_hashes(self):
    """One digest per window that saw at least one policy switch."""
    return [hashlib.blake2b(repr(w).encode(), digest_size=8).hexdigest()
            for w in self.windows if len(w) > 1]


# ---------------------------------------------------------------------------
# Self-test: a lost update that only some schedules show, found and replayed.
# ---------------------------------------------------------------------------

_DEMO_SRC = '''
import threading
class Counter:
  def __init__(self):
    self.n = 0
    self.m = 0
    self.lock = threading.Lock()
  def racy(self):
    t = self.n
    t = t + 1
    self.n = t
  def safe(self):
    with self.lock:
      t = self.m
      t = t + 1
      self.m = t
'''


def selftest(nseeds=200, verbose=True):
  """Checks the scheduler on a toy lost-update race. Returns a dict of counts."""
  ns = {}
  exec(compile(_DEMO_SRC, '<sched-selftest>', 'exec'), ns)  # pylint: disable=exec-used
  out = collections.Counter()
  hashes = set()
  first_bad = None

  def session(seed, mode='token', rounds=3):
    box = {}
    s = Scheduler(seed, targets=['<sched-selftest>'], p_switch=0.15,
                  change_points=seed % 3, horizon=120, watchdog_s=10,
                  solo_first=True, mode=mode)

    def first():
      box['c'] = ns['Counter']()        # the lock is built inside the session
      s.enable_switching()
      other()

    def other():
      c = box['c']
      for _ in range(rounds):
        c.racy()
        c.safe()

    return s.run([first, other, other]), box['c']

  for seed in range(nseeds):
    r, c = session(seed)
    out['sessions'] += 1
    out['outcome:' + r.outcome] += 1
    out['switches'] += r.switches
    hashes.add(r.trace_hash)
    if c.m != 9:
      out['LOCKED-COUNTER-WRONG'] += 1
    if c.n != 9:
      out['lost_updates_found'] += 1
      if first_bad is None:
        first_bad = (seed, r.trace_hash, c.n)
  out['distinct_traces'] = len(hashes)
  if first_bad is not None:
    seed, h, n = first_bad
    r, c = session(seed)
    out['replay_same_trace'] = int(r.trace_hash == h and c.n == n)
  # Free-running cross-check and teardown check.
  r, c = session(0, mode='free', rounds=50)
  out['free_outcome_ok'] = int(r.outcome == 'ok' and c.m == 150)
  out['free_points'] = r.points
  out['teardown_clean'] = int(
      threading.Lock is _RealLock and threading.RLock is _RealRLock
      and threading.Condition is _RealCondition
      and all(_mon.get_tool(t) != 'pgverif-sched' for t in range(6)))
  if verbose:
    for k in sorted(out):
      print(f'{k}: {out[k]}')
  return out


if __name__ == '__main__':
  res = selftest()
  ok = (res['lost_updates_found'] > 0 and not res['LOCKED-COUNTER-WRONG']
        and res.get('replay_same_trace') == 1 and res['teardown_clean'] == 1
        and res['outcome:ok'] == res['sessions'] and res['free_outcome_ok'] == 1)
  print('selftest', 'OK' if ok else 'FAILED')
  sys.exit(0 if ok else 1)
