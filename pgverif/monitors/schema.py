"""Schema-invariant monitor (C03; reused by C05, C07).

For every typed symbolic node (pg.Object, or pg.Dict/pg.List with a value
spec) the stored members are re-validated against the declared field specs,
using only public API: value_spec, allow_partial, sym_attr_field(), sym_items(),
ValueSpec.apply() and the public parameters of the specs.
"""
import copy

import pyglove as pg
from pgverif.monitors import tree as TM

T = pg.typing
MISSING = pg.MISSING_VALUE


def detach(v):
  """A plain, detached copy of a stored value that forces re-validation:
  symbolic containers become built-in ones, objects are deep-cloned."""
  if isinstance(v, pg.List):
    return [detach(x) for x in v.sym_values()]
  if isinstance(v, pg.Dict):
    return {k: detach(x) for k, x in v.sym_items()}
  if isinstance(v, pg.Symbolic):
    # Objects are opaque to their parent's spec (their own members are visited
    # as typed nodes of their own); copy them without re-validation of
    # partiality.
    with pg.allow_partial(True):
      return v.clone(deep=True)
  if isinstance(v, (list, tuple)):
    return type(v)(detach(x) for x in v)
  if isinstance(v, dict):
    return {k: detach(x) for k, x in v.items()}
  try:
    return copy.deepcopy(v)
  except Exception:  # pylint: disable=broad-except
    return v


def contains_ref(v):
  """pg.Ref members: equality of containers across plain/symbolic form is not
  part of the schema claim (a reference is a deliberate exception)."""
  if isinstance(v, pg.Ref):
    return True
  if isinstance(v, pg.Symbolic):
    return any(contains_ref(x) for x in v.sym_values())
  if isinstance(v, (list, tuple)):
    return any(contains_ref(x) for x in v)
  if isinstance(v, dict):
    return any(contains_ref(x) for x in v.values())
  return False


def is_missing(v):
  return isinstance(v, type(MISSING)) or v is MISSING or MISSING == v


def schema_of(node):
  """(schema or None, list spec or None) for a typed node."""
  if isinstance(node, pg.Object):
    return type(node).__schema__, None
  vs = node.value_spec
  if vs is None:
    return None, None
  if isinstance(node, pg.Dict):
    return vs.schema, None
  return None, vs


def typed_nodes(forest):
  for ridx, root in enumerate(forest):
    if isinstance(root, pg.Symbolic):
      for n, keys in TM.nodes_of(root):
        if isinstance(n, pg.Ref):
          continue
        if isinstance(n, pg.Object) or n.value_spec is not None:
          yield ridx, keys, n


def effective_partial(node):
  """A node is (explicitly) partial when it or one of its ancestors is."""
  n, hops = node, 0
  while n is not None and hops < 200:
    if n.allow_partial:
      return True
    n, hops = n.sym_parent, hops + 1
  return False


def reference_reject(spec, value):
  """Independent of ValueSpec.apply: the clauses of primitive specs that can be
  decided from public parameters alone (so that a defect inside `apply` itself
  cannot hide behind the acceptance oracle). Returns a clause name or None.
  Only exact rules; anything else is left to `apply`."""
  if spec.frozen or isinstance(spec, (T.Any, T.Union)):
    return None
  if value is None:
    return None if spec.is_noneable else 'not-noneable'
  if getattr(spec, 'transform', None) is not None:
    return None
  if isinstance(spec, (T.Int, T.Float)):
    if isinstance(value, bool) or not isinstance(value, (int, float)):
      return None
    if value != value:
      return None
    if spec.min_value is not None and value < spec.min_value:
      return 'min_value'
    if spec.max_value is not None and value > spec.max_value:
      return 'max_value'
    return None
  if isinstance(spec, T.Enum):
    try:
      return None if value in spec.values else 'enum-membership'
    except Exception:  # pylint: disable=broad-except
      return None
  if isinstance(spec, T.Bool):
    return None if isinstance(value, bool) else 'bool-type'
  if isinstance(spec, T.Str):
    return None if isinstance(value, str) else 'str-type'
  return None


def check_member(node, key, value, field, problems, where, tolerate_partial=False):
  spec = field.value
  partial = tolerate_partial or effective_partial(node)
  if is_missing(value):
    if not partial and not spec.has_default:
      problems.append(('missing-required', f'{where}[{key!r}] is missing and the '
                       f'{type(node).__name__} is not partial'))
    return
  if spec.frozen and spec.has_default and not pg.eq(value, spec.default):
    problems.append(('frozen-changed', f'{where}[{key!r}]={value!r:.80} but the field '
                     f'is frozen to {spec.default!r:.80}'))
    return
  ref = reference_reject(spec, value)
  if ref:
    problems.append(('member-out-of-domain',
                     f'{where}[{key!r}]={value!r:.80} violates {ref} of {spec!r:.120} '
                     '(reference rule over the public spec parameters)'))
    return
  try:
    r = spec.apply(detach(value), allow_partial=partial)
  except (TypeError, ValueError, KeyError) as e:
    problems.append(('member-rejected',
                     f'{where}[{key!r}]={value!r:.120} is rejected by {spec!r:.120}: '
                     f'{type(e).__name__}: {e!s:.160}'))
    return
  if not contains_ref(value) and not pg.eq(r, value):
    problems.append(('not-fixpoint',
                     f'{where}[{key!r}]={value!r:.120} maps to {r!r:.120} under {spec!r:.100}'))


def schema_ok(forest, counters=None, tolerate_partial=False):
  """Returns [(clause, detail)] over all typed nodes of the forest.

  tolerate_partial: the history contained a write inside pg.allow_partial(True),
  i.e. values were explicitly made partial irrespective of their own flag."""
  problems = []
  for ridx, keys, node in typed_nodes(forest):
    if counters is not None:
      counters['schema_ok_nodes'] += 1
    where = f'root{ridx}{keys}<{type(node).__name__}>'
    schema, lspec = schema_of(node)
    items = list(node.sym_items())
    if lspec is not None:
      n = len(items)
      lo = lspec.min_size or 0
      hi = lspec.max_size
      if n < lo or (hi is not None and n > hi):
        problems.append(('size-bounds', f'{where}: length {n} outside [{lo}, {hi}]'))
      for k, v in items:
        if counters is not None:
          counters['schema_ok_members'] += 1
        check_member(node, k, v, lspec.element, problems, where, tolerate_partial)
      continue
    if schema is None:
      continue
    present = set()
    for k, v in items:
      if counters is not None:
        counters['schema_ok_members'] += 1
      present.add(k)
      field = node.sym_attr_field(k)
      if field is None:
        problems.append(('undeclared-key', f'{where}: key {k!r} is not declared'))
        continue
      check_member(node, k, v, field, problems, where, tolerate_partial)
    for kspec, field in schema.fields.items():
      if isinstance(kspec, T.ConstStrKey) and str(kspec) not in present:
        if not (tolerate_partial or effective_partial(node)) and not field.value.has_default:
          problems.append(('missing-required',
                           f'{where}: required key {str(kspec)!r} is absent'))
  return problems


# -- class-level state ---------------------------------------------------------

def defaults_snapshot(classes):
  """{class name: {field path: repr of the default}} for the schemas of
  `classes`, nested Dict specs included. The defaults of a class are part of
  its schema: no operation on a value may change them."""
  out = {}
  def walk(prefix, spec, acc, depth=0):
    if depth > 6:
      return
    if spec.has_default:
      try:
        acc[prefix] = repr(spec.default)[:400]
      except Exception as e:  # pylint: disable=broad-except
        acc[prefix] = f'<repr failed {type(e).__name__}>'
    if isinstance(spec, T.Dict) and spec.schema is not None:
      for k, f in spec.schema.fields.items():
        walk(f'{prefix}.{k}', f.value, acc, depth + 1)
    elif isinstance(spec, T.List):
      walk(f'{prefix}[]', spec.element.value, acc, depth + 1)
  for cls in classes:
    acc = {}
    for k, f in cls.__schema__.fields.items():
      walk(str(k), f.value, acc)
    out[cls.__name__] = acc
  return out


def defaults_changed(before, after):
  """[(class name, field path, before, after)]."""
  out = []
  for cname, acc in before.items():
    for path, r in acc.items():
      now = after.get(cname, {}).get(path)
      if now != r:
        out.append((cname, path, r, now))
  return out


def safe_repr(v, n=120):
  """repr that cannot raise (a value in a state its schema rejects may not be
  printable)."""
  try:
    return repr(v)[:n]
  except Exception as e:  # pylint: disable=broad-except
    return f'<{type(v).__name__}: repr raised {type(e).__name__}>'


def first_missing(v, prefix='', depth=0):
  """Path of the first stored MISSING_VALUE at or below a symbolic value (what
  makes it partial), found by walking the members; None when complete."""
  if not isinstance(v, pg.Symbolic) or isinstance(v, pg.Ref) or depth > 50:
    return None
  for k, x in v.sym_items():
    if is_missing(x):
      return f'{prefix}{k}'
    got = first_missing(x, f'{prefix}{k}.', depth + 1)
    if got is not None:
      return got
  return None


def check_member_safe(node, key, value, field, problems, where, tolerate_partial=False,
                      use_flags=True, object_flags=False):
  """object_flags=True: a pg.Object member whose OWN allow_partial flag is set may
  be partial inside a holder that is not (the library never aligns the flag of
  an object with its holder's; the object was created partial-allowed)."""
  spec = field.value
  partial = tolerate_partial or (use_flags and effective_partial(node))
  if is_missing(value):
    if not partial and not spec.has_default:
      problems.append(('missing-required', f'{where}[{key!r}] is missing and the '
                       f'{type(node).__name__} is not partial'))
    return
  if spec.frozen and spec.has_default and not pg.eq(value, spec.default):
    problems.append(('frozen-changed', f'{where}[{key!r}]={safe_repr(value, 80)} but the field '
                     f'is frozen to {spec.default!r:.80}'))
    return
  ref = reference_reject(spec, value)
  if ref:
    problems.append(('member-out-of-domain',
                     f'{where}[{key!r}]={safe_repr(value, 80)} violates {ref} of {spec!r:.120} '
                     '(reference rule over the public spec parameters)'))
    return
  if (isinstance(spec, T.Object) and isinstance(value, pg.Object) and
      isinstance(spec.cls, type) and getattr(spec, 'transform', None) is None):
    # Reference rule for an object stored under an Object spec (no clone, and
    # independent of `is_partial` as computed by the library): right class, and
    # complete unless the holder was explicitly made partial. The members of
    # the object are visited as a typed node of their own.
    if not isinstance(value, spec.cls):
      problems.append(('member-rejected', f'{where}[{key!r}]={safe_repr(value, 120)} is not '
                       f'an instance of {spec.cls.__name__}'))
    elif not partial and not (object_flags and use_flags and value.allow_partial):
      gap = first_missing(value)
      if gap is not None:
        problems.append(('member-rejected',
                         f'{where}[{key!r}]={safe_repr(value, 120)} is partial (member '
                         f'{gap} is missing) but the {type(node).__name__} that holds it '
                         'was not made partial'))
    return
  try:
    r = spec.apply(detach(value), allow_partial=partial)
  except (TypeError, ValueError, KeyError) as e:
    problems.append(('member-rejected',
                     f'{where}[{key!r}]={safe_repr(value, 120)} is rejected by {spec!r:.120}: '
                     f'{type(e).__name__}: {e!s:.160}'))
    return
  if not contains_ref(value) and not pg.eq(r, value):
    problems.append(('not-fixpoint',
                     f'{where}[{key!r}]={safe_repr(value, 120)} maps to {safe_repr(r, 120)} under {spec!r:.100}'))



# -- per-node partial tolerance (C03) --------------------------------------------

def edge_constrains(container, key):
  """True when the declared spec of location `key` of `container` constrains the
  completeness of a symbolic value stored there (Object/Dict/List/Tuple specs).
  Any, Union and undeclared/schema-less locations accept a partial value as is."""
  try:
    field = container.sym_attr_field(key)
  except Exception:  # pylint: disable=broad-except
    field = None
  if field is None:
    return False
  if isinstance(field.value, T.Dict) and field.value.schema is None:
    return False                 # any keys, any values
  return isinstance(field.value, (T.Object, T.Dict, T.List, T.Tuple))


def reached_unconstrained(root, keys):
  """True when the path root -> keys crosses a location that does not constrain
  completeness (a partial value may legitimately live below it)."""
  n = root
  for k in keys:
    if not isinstance(n, pg.Symbolic) or isinstance(n, pg.Ref):
      return True
    if not edge_constrains(n, k):
      return True
    try:
      n = n.sym_getattr(k)
    except Exception:  # pylint: disable=broad-except
      return True
  return False


def schema_ok_nodes(forest, counters=None, tolerate=None, use_flags=True, object_flags=False):
  """schema_ok with a per-node tolerance: tolerate(ridx, keys, node) -> bool says
  whether `node` was explicitly made partial (beyond its allow_partial flags;
  use_flags=False: the allow_partial flags of the node and its ancestors are
  not consulted at all)."""
  problems = []
  for ridx, keys, node in typed_nodes(forest):
    if counters is not None:
      counters['schema_ok_nodes'] += 1
    tol = bool(tolerate(ridx, keys, node)) if tolerate is not None else False
    where = f'root{ridx}{keys}<{type(node).__name__}>'
    schema, lspec = schema_of(node)
    items = list(node.sym_items())
    if lspec is not None:
      n = len(items)
      lo = lspec.min_size or 0
      hi = lspec.max_size
      if n < lo or (hi is not None and n > hi):
        problems.append(('size-bounds', f'{where}: length {n} outside [{lo}, {hi}]'))
      for k, v in items:
        if counters is not None:
          counters['schema_ok_members'] += 1
        check_member_safe(node, k, v, lspec.element, problems, where, tol, use_flags,
                          object_flags)
      continue
    if schema is None:
      continue
    present = set()
    for k, v in items:
      if counters is not None:
        counters['schema_ok_members'] += 1
      present.add(k)
      field = None
      try:
        field = schema.get_field(k)     # independent of the truthiness of `schema`
      except Exception:  # pylint: disable=broad-except
        field = node.sym_attr_field(k)
      if field is None:
        problems.append(('undeclared-key', f'{where}: key {k!r} is not declared'))
        continue
      check_member_safe(node, k, v, field, problems, where, tol, use_flags, object_flags)
    for kspec, field in schema.fields.items():
      if isinstance(kspec, T.ConstStrKey) and kspec.text not in present:
        if not (tol or (use_flags and effective_partial(node))) and not field.value.has_default:
          problems.append(('missing-required',
                           f'{where}: required key {kspec.text!r} is absent'))
  return problems
