"""Table of PyGlove's scoped-setting context managers, with a reference model (C17).

Every entry of `MANAGERS` describes one context manager the library offers for
scoped behaviour:

  name      stable name used in mechanism keys
  scope     'thread'  - documented per-thread (checked for thread isolation)
            'process' - documented process-wide (`apply_wrappers` "is NOT
                        thread-safe", `dynamic_evaluate(per_thread=False)`
                        "applied on current process", on-demand deserialization
                        types live in the class-level registry); used by one
                        thread only and not checked for isolation
  rule      the documented nesting rule the model implements:
              replace          innermost value wins          (flags.py docstrings)
              merge            kwargs of the outer scope updated by the inner
              outermost-wins   `pg.coding.permission`
              cascade          `pg.contextual_override(cascade=...)`
              outer-precedence+transitive   `pg.detour`
              stack            `pg.timeit` (child registered with the parent)
              catch            `pg.catch_errors` (no setting; an exception level)
  gen       argument generator  (rng, env, state) -> JSON-able args
  make      (args, env) -> the library's context manager
  push      (state, args, env) -> model state inside the block (pure)
  yielded   expected canonical value bound by `with ... as y` (or DONTCARE)
  enter     'no' | 'may' | 'must' : whether entering raises (documented
            argument validation = 'must'; undocumented combination = 'may')

`USES` lists, per manager, the documented public uses of the object bound by
`with ... as y` that a program may make anywhere inside the block (methods and
properties of `TimeIt`, reading the yielded mapping / collection / error
context).  None of them is documented to change a scoped setting, so the model
state is the same before and after a use.

`EVENTS` lists things a program does inside a block that make user code the
library dispatches to raise (detour destination, callbacks, view / format
methods, functor bodies, evaluated code, ...); the exception is caught inside
the block, and no scoped setting is documented to change by it.

`OBSERVERS` are the observation points: for every setting a public getter AND
a behavioural probe, each with `expect(state, env)` computed from the model
state of *all* settings (e.g. a write probe is rejected under
`pg.as_sealed(True)` whatever the notification flag says).  `DONTCARE` marks
combinations on which the documentation is silent.

Not context managers, hence not in the table: `pg.allow_empty_field_description`,
`pg.allow_repeated_class_registration`, `set_origin_stacktrace_limit`,
`set_load_handler`/`set_save_handler` (plain process-wide setters).  Internal
scopes without public entry (`View._track_rendering`,
`Functor._apply_call_time_overrides_to_members`, `HtmlControl.track_scripts`)
are outside the property text.  `DynamicEvaluationContext.apply` ("dynamic
evaluation" of the property text: the decisions of a search space are in
effect inside the block) is in the table; `collect` only builds the probe
contexts.

A manager may have a *validating exit* (`exit_raises`): leaving the block
normally raises an error of the library's own (`apply` with decisions the body
did not consume).  That is one more way of "leaving the block by exception":
the restore law is judged for it like for any other exit.
"""
import copy
import threading

import pyglove as pg

DONTCARE = '<dont-care>'
NOSCOPE = '<no-scope>'
ABSENT = '<absent>'


# ---------------------------------------------------------------------------
# Exceptions raised by generated programs.
# ---------------------------------------------------------------------------
class E1(Exception):
  pass


class E2(Exception):
  pass


class E3(BaseException):
  """Not an `Exception`: only `finally`/`__exit__` based restoration sees it."""


EXC = {'E1': E1, 'E2': E2, 'E3': E3}


# ---------------------------------------------------------------------------
# Probe classes and functions (shared by all threads; the settings are not).
# ---------------------------------------------------------------------------
RAISE = 'c17-raise'            # constructor argument: the constructor raises E1
SELF_RAISE = 'c17-self-raise'  # a function destination creates `cls(RAISE)` itself


def _ctor_arg(owner, v):
  if isinstance(v, str) and v in (RAISE, SELF_RAISE):
    raise E1(f'raised by {owner}')
  return v


class K1:
  def __init__(self, v=0):
    self.v = _ctor_arg('K1.__init__', v)


class K1S(K1):
  """A subclass (never a detour source or destination itself) whose own
  `__new__` follows the `super().__new__` convention."""

  def __new__(cls, *args, **kwargs):
    return super().__new__(cls)


class K2:
  def __init__(self, v=0):
    self.v = _ctor_arg('K2.__init__', v)


class K3:
  def __init__(self, v=0):
    self.v = _ctor_arg('K3.__init__', v)


def kfn(cls, v=0):
  """Function destination of a detour ("cls is the original class before detour")."""
  if isinstance(v, str) and v == SELF_RAISE:
    return cls(RAISE)          # the constructor of the original class raises
  _ctor_arg('kfn', v)
  return ('kfn', cls.__name__)


class U:
  def __init__(self, a=1):
    self.a = _ctor_arg('U.__init__', a)


class V:
  def __init__(self, a=1):
    self.a = _ctor_arg('V.__init__', a)


UW = pg.wrap(U)
VW = pg.wrap(V)


class _FrozenMeta(type):
  def __setattr__(cls, name, value):
    raise TypeError(f'class {cls.__name__} does not accept attributes')


class IM2(metaclass=_FrozenMeta):
  """A class that rejects `__new__` (like a builtin / extension type does)."""

  def __init__(self, v=0):
    self.v = v


DETOUR_POOL = {'K1': K1, 'K2': K2, 'K3': K3, 'kfn': kfn, 'U': U, 'V': V,
               'UW': UW, 'VW': VW,
               # sources that are classes (valid by the documented argument
               # check) but cannot be patched: entering fails half-way
               'IM1': frozenset, 'IM2': IM2, 'K1S': K1S}
UNPATCHABLE = ('IM1', 'IM2')
WRAPPERS = {'UW': ('U', UW), 'VW': ('V', VW)}


class PA(pg.Object):
  x: int
  y: int


class CO(pg.ContextualObject):
  x: int = 0
  t: int = 0          # (a plain field: rebound by the event 'rebind')
  y: int = pg.contextual_attribute()
  z: int = pg.contextual_attribute(default=-1)
  w: int = pg.contextual_attribute(default=-2)


class LT1(pg.Object):
  auto_register = False
  x: int = 1


class LT2(pg.Object):
  auto_register = False
  x: int = 1


LTYPES = {'LT1': LT1, 'LT2': LT2}
SPEC = pg.typing.Dict([('x', pg.typing.Int())])


@pg.symbolize
def c17_foo(x, y):
  return x + y


@pg.symbolize
def c17_raiser(x):
  raise E1('raised by the body of a functor')


class OnBoundRaiser(pg.Object):
  """`_on_bound` (user code run by construction and by every rebind) raises."""
  x: int = 0

  def _on_bound(self):
    super()._on_bound()
    if self.x == 13:
      raise E1('raised by _on_bound')


class OnChangeRaiser(pg.Object):
  x: int = 0

  def _on_change(self, field_updates):
    raise E1('raised by _on_change')


@pg.typing.enable_preset_args()
def pf(x, y=pg.typing.PresetArgValue(default=1),
       z=pg.typing.PresetArgValue(default=5)):
  _ctor_arg('pf', x)
  return (x, y, z)


@pg.typing.enable_preset_args(preset_name='other')
def pf2(x, y=pg.typing.PresetArgValue(default=1)):
  return (x, y)


class FmtProbe(pg.Formattable):
  """Shows the keyword arguments `__str__`/`__repr__` hand to `format`."""

  def format(self, **kwargs):
    return repr(sorted((k, v) for k, v in kwargs.items()
                       if k in FMT_KEYS))


class FmtRaiser(pg.Formattable):

  def format(self, **kwargs):
    raise E1('raised by format')


FMT_KEYS = ('compact', 'verbose', 'python_format', 'hide_default_values', 'c17_tag')
FMT_VALUES = {'compact': [True, False], 'verbose': [True, False],
              'python_format': [True, False], 'hide_default_values': [True, False],
              'c17_tag': [1, 2]}
STR_BASE = dict(compact=False, verbose=True)
REPR_BASE = dict(compact=True)


class ProbeView(pg.views.View):
  """Shows the options `pg.view` hands to a view."""
  VIEW_ID = 'c17-probe-view'

  class Extension(pg.views.View.Extension):
    pass

  def render(self, value, *, name=None, root_path=None, **kwargs):
    _ctor_arg('ProbeView.render', value)
    return pg.Html(repr(_canon_kw(kwargs)))


class HtmlRaiser(pg.views.HtmlTreeView.Extension):
  """An object whose part of the HTML tree view raises."""

  def _html_tree_view_content(self, **kwargs):
    raise E1('raised by _html_tree_view_content')


VIEW_VALUES = {'enable_summary_tooltip': [True, False],
               'collapse_level': [0, 2, None],
               'enable_key_tooltip': [True, False]}
# Options of the views whose values are dicts: `pg.view_options` is documented
# to deep-merge them ("Deep merge the two dict"; utils.merge: "Later value will
# be treated as updates if it's a dict ... The merge process will keep input
# values intact").
VIEW_DICT_OPTIONS = ('extra_flags', 'child_config')


def _de_raise_if_asked(hv):
  cands = getattr(hv, 'candidates', None)
  if cands and isinstance(cands[0], str) and cands[0] == RAISE:
    raise E1('raised by the dynamic evaluation function')


def _de_f1(hv):
  _de_raise_if_asked(hv)
  return ('c17-de', 'f1')


def _de_f2(hv):
  _de_raise_if_asked(hv)
  return ('c17-de', 'f2')


def _de_probe(hv):
  return ('c17-de', 'probe')


DE_FN = {'f1': _de_f1, 'f2': _de_f2, None: None}
DE_TAG = {_de_f1: 'f1', _de_f2: 'f2', _de_probe: 'probe', None: None}
P = pg.coding.CodePermission
PERMS = [0, P.ASSIGN.value, P.CALL.value, P.BASIC.value, P.LOOP.value,
         (P.CALL | P.CONDITION).value, P.ALL.value]
CTX_NAMES = ('va', 'vb', 'vc')
OV_NAMES = ('x', 'y', 'z', 'w')
TLV_KEYS = ('c17_tlv_a', 'c17_tlv_b')
TLA_KEY = 'c17_tla'

_get_de_fn = getattr(pg.hyper.base, 'get_dynamic_evaluate_fn', None)
_tl = pg.utils.thread_local


# ---------------------------------------------------------------------------
# Per-thread environment: the probe objects a thread observes through.
# ---------------------------------------------------------------------------
class Env:
  """Probe objects confined to one thread (built in the default state)."""

  def __init__(self, tid=0, process_ok=True, solo=True):
    self.tid = tid
    self.process_ok = process_ok      # may use / observe process-wide managers
    self.solo = solo                  # no other thread runs scopes concurrently
    self.log = []
    self.d_cb = pg.Dict(a=0, onchange_callback=lambda u: self.log.append(1))
    self.d_plain = pg.Dict(a=0)
    self.d_sealed = pg.Dict(a=0).seal()
    self.d_now = pg.Dict(a=0, accessor_writable=False)
    self.d_src = pg.Dict(a=1)
    self.co = CO(x=1)
    self.fmt_d = pg.Dict(a=1, b=[1, 2], c=pg.Dict(x=None))
    self.html_d = pg.Dict(a=dict(b=1))
    # objects the events (EVENTS) work on: user code they dispatch to raises
    self.ev_d = pg.Dict(a=0, b=1, onchange_callback=_raising_callback)
    self.ev_l = pg.List([1, 2, 3], onchange_callback=_raising_callback)
    self.ev_bound = OnBoundRaiser(x=0)
    self.ev_change = OnChangeRaiser(x=0)
    self.ev_html = HtmlRaiser()
    self.n = 0
    self.timeits = []                 # TimeIt objects this thread is inside of
    self.left_timeits = []            # TimeIt objects of blocks this thread has left
    self.exit_token = None
    self.exit_exc = None
    self.foreign_process_de = False   # another thread uses dynamic_evaluate(per_thread=False)
    # DynamicEvaluationContext objects / DNA objects of the program this thread
    # runs (built by `prepare_contexts` in the default state)
    self.dectx = {}
    self.dedna = {}

  def tick(self):
    self.n += 1
    return self.n


def _raising_callback(updates):
  raise E1('raised by onchange_callback')


def default_state():
  st = dict(
      notify=True, typecheck=True, partial=None, sealed=None, aw=None,
      origin=False, autocall=NOSCOPE, ctxov={}, objov={}, strfmt={},
      reprfmt={}, viewopt={}, codectx={}, perm=None, detour={},
      de_tls=NOSCOPE, de_glob=None, preset={}, ltypes={}, timeit=(), tla={},
      dectx={})
  for k in TLV_KEYS:
    st['tlv:' + k] = NOSCOPE
  return st


def _outcome(f):
  try:
    return ('ok', f())
  except BaseException as e:  # pylint: disable=broad-except
    if type(e).__name__ in ('SchedulerAbort', 'CaseTimeout'):
      raise
    return ('raise', type(e).__name__)


def _ok_or_exc(f):
  """'ok' or the exception class name."""
  r = _outcome(f)
  return 'ok' if r[0] == 'ok' else r[1]


# ---------------------------------------------------------------------------
# Manager table.
# ---------------------------------------------------------------------------
class Manager:
  def __init__(self, name, scope, rule, gen, make, push, yielded=None,
               enter=None, slots=(), exit_raises=None, first=None,
               first_expect=None, usable=None):
    self.name, self.scope, self.rule = name, scope, rule
    self.gen, self.make, self.push = gen, make, push
    self._yielded = yielded
    self._enter = enter
    self.slots = slots
    # validating exit: (args) -> True if leaving the block normally raises an
    # error of the library's own (documented validation at exit)
    self._exit_raises = exit_raises
    # first statement of every block of this manager (the documented use of
    # the setting, e.g. evaluating the search space under `apply`):
    # first(args, env) -> observation, first_expect(state, args, env)
    self.first, self.first_expect = first, first_expect
    # (state, spec) -> may a block of this manager be generated here?
    self._usable = usable

  def exit_raises(self, args):
    return bool(self._exit_raises and self._exit_raises(args))

  def usable(self, state, spec):
    return True if self._usable is None else self._usable(state, spec)

  def yielded(self, state, args, env):
    return DONTCARE if self._yielded is None else self._yielded(state, args, env)

  def enter(self, state, args, env):
    return 'no' if self._enter is None else self._enter(state, args, env)

  def label(self, state, args, env):
    return self.name


MANAGERS = {}


def _register(m):
  MANAGERS[m.name] = m
  return m


def _set(state, **kw):
  st = dict(state)
  st.update(kw)
  return st


def _flag(name, fn, slot, values, doc_default):
  """`thread_local_value_scope` style flags of symbolic/flags.py (rule: replace)."""
  def gen(rng, env, state):
    return {'v': rng.choice(values + ['<default>'])}

  def make(args, env):
    return fn() if args['v'] == '<default>' else fn(args['v'])

  def push(state, args, env):
    v = doc_default if args['v'] == '<default>' else args['v']
    return _set(state, **{slot: v})

  _register(Manager(name, 'thread', 'replace', gen, make, push,
                    yielded=lambda s, a, e: None, slots=(slot,)))


_flag('notify_on_change', pg.notify_on_change, 'notify', [True, False], True)
_flag('enable_type_check', pg.enable_type_check, 'typecheck', [True, False], True)
_flag('allow_partial', pg.allow_partial, 'partial', [True, False, None], True)
_flag('as_sealed', pg.as_sealed, 'sealed', [True, False, None], True)
_flag('allow_writable_accessors', pg.allow_writable_accessors, 'aw',
      [True, False, None], True)
_flag('track_origin', pg.track_origin, 'origin', [True, False], True)
_flag('auto_call_functors', pg.auto_call_functors, 'autocall', [True, False], True)


# -- contextual_override (rule: cascade) -----------------------------------
def _ov_gen(rng, env, state):
  names = rng.sample(OV_NAMES, rng.randint(0, 3))
  return {'vars': {n: rng.randint(2, 60) for n in sorted(names)},
          'cascade': rng.random() < 0.35, 'override_attrs': rng.random() < 0.4}


def _ov_make(args, env):
  return pg.contextual_override(cascade=args['cascade'],
                                override_attrs=args['override_attrs'],
                                **args['vars'])


def _ov_push(state, args, env):
  cur = dict(state['ctxov'])
  for k, v in args['vars'].items():
    old = cur.get(k)
    if old is not None and old[1]:        # an enclosing cascading override wins
      continue
    cur[k] = (v, args['cascade'], args['override_attrs'])
  return _set(state, ctxov=cur)


def _canon_ov(d):
  return tuple(sorted((k, (o.value, o.cascade, o.override_attrs))
                      for k, o in d.items()))


_register(Manager(
    'contextual_override', 'thread', 'cascade', _ov_gen, _ov_make, _ov_push,
    yielded=lambda s, a, e: tuple(sorted(s['ctxov'].items())), slots=('ctxov',)))


# -- ContextualObject.override (rule: merge per object and thread) ----------
def _objov_gen(rng, env, state):
  names = rng.sample(OV_NAMES, rng.randint(0, 2))
  return {'vars': {n: rng.randint(100, 160) for n in sorted(names)}}


def _objov_push(state, args, env):
  cur = dict(state['objov'])
  cur.update(args['vars'])
  return _set(state, objov=cur)


_register(Manager(
    'ContextualObject.override', 'thread', 'merge', _objov_gen,
    lambda args, env: env.co.override(**args['vars']), _objov_push,
    yielded=lambda s, a, e: tuple(sorted(
        (k, (v, False, False)) for k, v in s['objov'].items())),
    slots=('objov',)))


# -- str_format / repr_format / thread_local_arg_scope (rule: merge) ---------
def _kw_gen(values):
  def gen(rng, env, state):
    names = rng.sample(sorted(values), rng.randint(0, 3))
    # (a fresh copy: mutable values are the caller's own objects)
    return {'kw': {n: copy.deepcopy(rng.choice(values[n])) for n in sorted(names)}}
  return gen


def _merge_push(slot):
  def push(state, args, env):
    cur = dict(state[slot])
    cur.update(copy.deepcopy(args['kw']))
    return _set(state, **{slot: cur})
  return push


def freeze(v):
  """Immutable, order-free copy of a (nested) option value: a snapshot must
  not change when the library later writes into the container it returned."""
  if isinstance(v, dict):
    return ('dict', tuple(sorted(((k, freeze(x)) for k, x in v.items()), key=repr)))
  if isinstance(v, (list, tuple)) and any(isinstance(x, (dict, list)) for x in v):
    return (type(v).__name__, tuple(freeze(x) for x in v))
  return v


def _canon_kw(d):
  return tuple(sorted(((k, freeze(v)) for k, v in d.items()), key=repr))


def deep_merge(outer, inner):
  """Documented deep merge of keyword options (fresh containers throughout)."""
  out = {k: copy.deepcopy(v) for k, v in outer.items()}
  for k, v in inner.items():
    if isinstance(v, dict) and isinstance(out.get(k), dict):
      out[k] = deep_merge(out[k], v)
    else:
      out[k] = copy.deepcopy(v)
  return out


def _dict_value(rng, depth=0):
  """A non-empty dict option value: str keys, scalar or (once) nested dict values."""
  out = {}
  for k in rng.sample(['a', 'b', 'c', 'n'], rng.randint(1, 2)):
    if k == 'n' and depth == 0:
      out[k] = _dict_value(rng, 1)
    elif k == 'n':
      out['p'] = rng.randint(1, 3)
    else:
      out[k] = rng.randint(1, 3)
  return out


def _view_gen(rng, env, state):
  """Scalar options as before; in half of the cases also dict-valued options
  (the same few names at every level, so that nested scopes refine the same
  option with other keys)."""
  args = _kw_gen(VIEW_VALUES)(rng, env, state)
  outer = sorted(k for k, v in state['viewopt'].items() if isinstance(v, dict))
  if outer and rng.random() < 0.6:
    # refine an option the enclosing scope set
    args['kw'][rng.choice(outer)] = _dict_value(rng)
  elif rng.random() < 0.5:
    for name in rng.sample(VIEW_DICT_OPTIONS, rng.choice([1, 1, 2])):
      args['kw'][name] = _dict_value(rng)
  return args


def _view_push(state, args, env):
  return _set(state, viewopt=deep_merge(state['viewopt'], args['kw']))


for _name, _fn, _slot in (('str_format', pg.str_format, 'strfmt'),
                          ('repr_format', pg.repr_format, 'reprfmt')):
  _register(Manager(
      _name, 'thread', 'merge', _kw_gen(FMT_VALUES),
      (lambda fn: lambda args, env: fn(**args['kw']))(_fn), _merge_push(_slot),
      yielded=(lambda slot: lambda s, a, e: _canon_kw(s[slot]))(_slot),
      slots=(_slot,)))

_register(Manager(
    'thread_local_arg_scope', 'thread', 'merge',
    _kw_gen({'p': [1, 2, {'k': 1}], 'q': [3, 4, [1, {'k': 2}]], 'r': [5, None]}),
    lambda args, env: _tl.thread_local_arg_scope(TLA_KEY, **args['kw']),
    _merge_push('tla'), yielded=lambda s, a, e: _canon_kw(s['tla']),
    slots=('tla',)))

_register(Manager(
    'view_options', 'thread', 'merge', _view_gen,
    lambda args, env: pg.view_options(**args['kw']), _view_push,
    yielded=lambda s, a, e: _canon_kw(s['viewopt']), slots=('viewopt',)))

_register(Manager(
    'coding.context', 'thread', 'merge',
    _kw_gen({n: [1, 2, 3, {'k': 1}] for n in CTX_NAMES}),
    lambda args, env: pg.coding.context(**args['kw']), _merge_push('codectx'),
    yielded=lambda s, a, e: _canon_kw(s['codectx']), slots=('codectx',)))


# -- thread_local_value_scope (rule: replace, restore-or-delete) -------------
def _tlv_gen(rng, env, state):
  return {'key': rng.choice(TLV_KEYS), 'v': rng.randint(1, 9),
          'init': rng.choice([0, None, 7])}


_register(Manager(
    'thread_local_value_scope', 'thread', 'replace', _tlv_gen,
    lambda args, env: pg.utils.thread_local_value_scope(
        args['key'], args['v'], args['init']),
    lambda state, args, env: _set(state, **{'tlv:' + args['key']: args['v']}),
    yielded=lambda s, a, e: None, slots=tuple('tlv:' + k for k in TLV_KEYS)))


# -- coding.permission (rule: outermost wins) -------------------------------
def _perm_push(state, args, env):
  if state['perm'] is not None:
    return state
  return _set(state, perm=args['perm'])


_register(Manager(
    'coding.permission', 'thread', 'outermost-wins',
    lambda rng, env, state: {'perm': rng.choice(PERMS)},
    lambda args, env: pg.coding.permission(P(args['perm'])), _perm_push,
    yielded=lambda s, a, e: s['perm'], slots=('perm',)))


# -- detour / apply_wrappers (rule: outer precedence + transitivity) ---------
def _detour_gen(rng, env, state):
  r = rng.random()
  if r < 0.06:
    return {'map': [[rng.choice([1, 'K1', None]), 'K2']], 'invalid': True}
  # (0 mappings: an empty collection is a legal argument)
  srcs = rng.sample(['K1', 'K2', 'K3'], rng.choice([0, 1, 1, 2, 2, 3, 3]))
  out = []
  for s in srcs:
    dest = rng.choice([d for d in ('K1', 'K2', 'K3', 'kfn') if d != s])
    out.append([s, dest])
  if r < 0.16:
    # a source class that passes the documented argument check but cannot be
    # patched, anywhere among valid mappings: entering raises after the scope
    # machinery has started to work
    out.insert(rng.randint(0, len(out)),
               [rng.choice(UNPATCHABLE), rng.choice(['K1', 'K2', 'kfn'])])
    return {'map': out, 'invalid': 'unpatchable'}
  return {'map': out}


def _detour_make(args, env):
  if args.get('invalid') is True:   # the source is not a class: documented TypeError
    return pg.detour([(s, DETOUR_POOL[d]) for s, d in args['map']])
  return pg.detour([(DETOUR_POOL[s], DETOUR_POOL[d]) for s, d in args['map']])


def _detour_push_pairs(state, pairs):
  cur = dict(state['detour'])
  new = []
  for s, d in pairs:
    if s not in cur:                       # the outer scope takes precedence
      new.append((s, cur[d] if d in cur else d))   # transitive through the outer scope
  for s, d in new:
    cur[s] = d
  return _set(state, detour=cur)


def _detour_enter(state, args, env):
  if args.get('invalid') == 'unpatchable':
    return 'may'          # (not listed under Raises; the setting cannot be made effective)
  return 'must' if args.get('invalid') else 'no'


_register(Manager(
    'detour', 'thread', 'outer-precedence+transitive', _detour_gen,
    _detour_make,
    lambda state, args, env: _detour_push_pairs(state, [tuple(p) for p in args['map']]),
    yielded=lambda s, a, e: tuple(sorted(s['detour'].items())),
    enter=_detour_enter, slots=('detour',)))


def _aw_gen(rng, env, state):
  # (an empty list is a legal argument: "wrapper classes to use"; only None
  # stands for all registered wrapper classes)
  ws = rng.sample(['UW', 'VW'], rng.choice([0, 1, 1, 1, 2, 2]))
  return {'wrappers': sorted(ws), 'where': rng.random() < 0.3}


class _AWManager(Manager):

  def label(self, state, args, env):
    return self.name + (':empty-list' if not args['wrappers'] and not args['where']
                        else '')


def _aw_make(args, env):
  classes = [WRAPPERS[w][1] for w in args['wrappers']]
  if args['where']:
    # All registered wrappers, filtered down to the requested ones.
    return pg.apply_wrappers(None, where=lambda c: c in classes)
  return pg.apply_wrappers(classes)


_register(_AWManager(
    'apply_wrappers', 'process', 'outer-precedence+transitive', _aw_gen, _aw_make,
    lambda state, args, env: _detour_push_pairs(
        state, [(WRAPPERS[w][0], w) for w in args['wrappers']]),
    yielded=lambda s, a, e: tuple(sorted(s['detour'].items())),
    slots=('detour',)))


# -- dynamic_evaluate (rule: replace; per thread or process-wide) -------------
class _DEManager(Manager):

  def label(self, state, args, env):
    if args['per_thread']:
      return ('dynamic_evaluate[thread-in-process]' if state['de_glob'] is not None
              else 'dynamic_evaluate[thread]')
    return ('dynamic_evaluate[process-in-thread]' if state['de_tls'] != NOSCOPE
            else 'dynamic_evaluate[process]')


def _de_gen(rng, env, state):
  process_ok = getattr(env, 'process_de_ok', env.process_ok)
  per_thread = True if not process_ok else rng.random() < 0.6
  if process_ok and rng.random() < 0.04:
    return {'fn': 'not-callable', 'per_thread': per_thread, 'yield': 0,
            'exit': None, 'invalid': True}
  return {'fn': rng.choice(['f1', 'f2', 'f1', 'f2', None]),
          'per_thread': per_thread, 'yield': rng.randint(0, 9),
          'exit': rng.choice([None, None, 'count', 'raise'])}


def _de_make(args, env):
  exit_fn = None
  env.exit_token = token = [0]       # calls of this block's exit_fn
  if args['exit'] == 'count':
    def exit_fn():
      token[0] += 1
  elif args['exit'] == 'raise':
    def exit_fn():
      env.exit_exc = E1('raised by exit_fn')
      raise env.exit_exc
  fn = 3 if args.get('invalid') else DE_FN[args['fn']]
  return pg.hyper.dynamic_evaluate(fn, yield_value=args['yield'],
                                   exit_fn=exit_fn, per_thread=args['per_thread'])


def _de_push(state, args, env):
  if args['per_thread']:
    return _set(state, de_tls=args['fn'])
  return _set(state, de_glob=args['fn'])


def _de_enter(state, args, env):
  if args.get('invalid'):
    return 'may'        # ValueError in the code, not listed under Raises
  if args['per_thread'] and (state['de_glob'] is not None or env.foreign_process_de):
    return 'may'        # mixing is not documented (the code asserts)
  return 'no'


_register(_DEManager(
    'dynamic_evaluate', 'thread', 'replace', _de_gen, _de_make, _de_push,
    yielded=lambda s, a, e: a['yield'], enter=_de_enter,
    slots=('de_tls', 'de_glob')))


# -- DynamicEvaluationContext.apply (rule: replace; per thread and context) ---
APPLY = 'DynamicEvaluationContext.apply'
DECTX_CANDS = {'a': [11, 12, 13], 'b': [21, 22, 23], 'c': [31, 32, 33]}
# kind of context -> (names of its search space in order, constructor kwargs,
# is the search space collected by the context (else: external DNASpec),
# weight in generation)
DECTX_KINDS = {
    'c1': (('a', 'b', 'c'), {}, True, 3),
    'c2': (('a', 'b'), {'require_hyper_name': True}, True, 1),
    'c3': (('a', 'b', 'c'), {}, False, 2),
    'c4': (('a', 'b'), {'require_hyper_name': True}, False, 2),
}
# The hyper primitives themselves, created outside any dynamic evaluation.
DECTX_HP = {n: pg.oneof(c, name=n) for n, c in DECTX_CANDS.items()}
_DECTX_SPECS = {}
_DECTX_LOCK = threading.Lock()


def _dectx_space(names):
  return [pg.oneof(DECTX_CANDS[n], name=n) for n in names]


def _dectx_spec(names):
  """DNASpec of the search space over `names` (shared, read-only)."""
  with _DECTX_LOCK:
    if names not in _DECTX_SPECS:
      c = pg.hyper.DynamicEvaluationContext()
      with c.collect():
        _dectx_space(names)
      _DECTX_SPECS[names] = c.dna_spec
    return _DECTX_SPECS[names]


def prepare_contexts(env, nodes):
  """Builds the contexts and DNA objects the `apply` statements of a program
  use.  Called by the thread that runs the program before its first statement
  (i.e. in the default state: building symbolic objects is entangled with the
  write / type-check scopes)."""
  def walk(ns):
    for n in ns:
      if n['k'] == 'with' and n['m'] == APPLY:
        yield n['a']
      yield from walk(n.get('body', ()))
  for a in walk(nodes):
    kind = a['ctx']
    if kind not in env.dectx:
      names, kw, collected, _ = DECTX_KINDS[kind]
      if collected:
        c = pg.hyper.DynamicEvaluationContext(**kw)
        with c.collect():
          _dectx_space(names)
      else:
        c = pg.hyper.DynamicEvaluationContext(dna_spec=_dectx_spec(names), **kw)
      env.dectx[kind] = c
    key = tuple(a['decisions'])
    if a['form'] == 'dna' and key not in env.dedna:
      env.dedna[key] = pg.DNA(list(key))


def _apply_gen(rng, env, state):
  kinds = sorted(DECTX_KINDS)
  kind = rng.choices(kinds, [DECTX_KINDS[k][3] for k in kinds])[0]
  names, kw, _, _ = DECTX_KINDS[kind]
  consume = rng.randint(1, len(names))
  if kw.get('require_hyper_name'):
    n = len(names)            # decisions are validated against the DNASpec
  else:
    n = consume + rng.choice([0, 0, 0, 1, 2])
  return {'ctx': kind, 'form': rng.choice(['list', 'list', 'dna']),
          'decisions': [rng.randint(0, 2) for _ in range(n)], 'consume': consume}


def _apply_make(args, env):
  d = (env.dedna[tuple(args['decisions'])] if args['form'] == 'dna'
       else list(args['decisions']))
  return env.dectx[args['ctx']].apply(d)


def _apply_push(state, args, env):
  cur = dict(state['dectx'])
  cur[args['ctx']] = tuple(args['decisions'])
  return _set(state, dectx=cur, de_tls='apply:' + args['ctx'])


def _apply_exit_raises(args):
  """`apply` "make[s] sure all decisions are used" when the block is left
  normally: every name the body did not evaluate leaves a decision over."""
  return args['consume'] < len(args['decisions'])


def _apply_first(args, env):
  """`with context.apply(decisions): fun()`: the first statement of the block
  evaluates (a prefix of) the search space the way user code does."""
  names = DECTX_KINDS[args['ctx']][0][:args['consume']]
  return tuple(_outcome(lambda n=n: pg.oneof(DECTX_CANDS[n], name=n))[1]
               for n in names)


def _apply_first_expect(state, args, env):
  names = DECTX_KINDS[args['ctx']][0][:args['consume']]
  return tuple(DECTX_CANDS[n][d] for n, d in zip(names, args['decisions']))


def _apply_usable(state, spec):
  # building hyper primitives is entangled with the write / type-check scopes;
  # per-thread evaluation inside a process-wide one is not documented
  return not (state['sealed'] is True or not state['typecheck']
              or state['de_glob'] is not None
              or getattr(spec, 'foreign_process_de', False))


class _ApplyManager(Manager):

  def label(self, state, args, env):
    # (the same context object applied inside its own `apply` block is a
    # different mechanism: re-entrance)
    return self.name + ('@nested' if args['ctx'] in state['dectx'] else '')


_register(_ApplyManager(
    APPLY, 'thread', 'replace', _apply_gen, _apply_make, _apply_push,
    yielded=lambda s, a, e: None, slots=('dectx', 'de_tls'),
    exit_raises=_apply_exit_raises, first=_apply_first,
    first_expect=_apply_first_expect, usable=_apply_usable))


def de_apply_effective(st):
  """Is the effective evaluation function the one of an `apply` block?  Then
  evaluating an anonymous hyper primitive consumes one of its decisions."""
  return isinstance(st['de_tls'], str) and st['de_tls'].startswith('apply:')


def de_tag(env, fn):
  """Stable tag of an evaluation function."""
  try:
    if fn in DE_TAG:
      return DE_TAG[fn]
  except TypeError:
    return 'other'
  owner = getattr(fn, '__self__', None)
  if owner is not None and getattr(fn, '__name__', '') == 'evaluate':
    for k, c in sorted(getattr(env, 'dectx', {}).items()):
      if c is owner:
        return 'apply:' + k
  return 'other'


# -- preset_args (rule: replace per preset name unless inherit_preset) --------
def _preset_gen(rng, env, state):
  names = rng.sample(['y', 'z'], rng.randint(0, 2))
  return {'kwargs': {n: rng.randint(10, 40) for n in sorted(names)},
          'preset_name': rng.choice(['global', 'global', 'other']),
          'inherit': rng.choice([False, False, True, 'global', 'other'])}


def _preset_push(state, args, env):
  presets = dict(state['preset'])
  name, inherit = args['preset_name'], args['inherit']
  if inherit is True:
    inherit = name
  if inherit and inherit in presets:
    cur = dict(presets[inherit])
    cur.update(args['kwargs'])
  else:
    cur = dict(args['kwargs'])
  presets[name] = cur
  return _set(state, preset=presets)


_register(Manager(
    'preset_args', 'thread', 'replace-or-inherit', _preset_gen,
    lambda args, env: pg.typing.preset_args(
        dict(args['kwargs']), preset_name=args['preset_name'],
        inherit_preset=args['inherit']),
    _preset_push,
    yielded=lambda s, a, e: tuple(
        _canon_kw(s['preset'].get(n, {})) for n in ('global', 'other')),
    slots=('preset',)))


# -- load_types_for_deserialization (rule: merge; process-wide registry) -----
_register(Manager(
    'load_types_for_deserialization', 'process', 'merge',
    lambda rng, env, state: {'types': sorted(rng.sample(['LT1', 'LT2'],
                                                        rng.randint(0, 2)))},
    lambda args, env: pg.JSONConvertible.load_types_for_deserialization(
        *[LTYPES[t] for t in args['types']]),
    lambda state, args, env: _set(
        state, ltypes=dict(state['ltypes'], **{t: t for t in args['types']})),
    yielded=lambda s, a, e: tuple(sorted(s['ltypes'])), slots=('ltypes',)))


# -- timeit (rule: stack) -----------------------------------------------------
_register(Manager(
    'timeit', 'thread', 'stack',
    lambda rng, env, state: {'name': rng.choice(['a', 'b', ''])},
    lambda args, env: pg.timeit(args['name']),
    lambda state, args, env: _set(state, timeit=state['timeit'] + (args['name'],)),
    slots=('timeit',)))


# -- catch_errors (no setting: an exception level) ---------------------------
CATCH_SPECS = {
    'E1': lambda: E1, 'E2': lambda: [E2], 'E1E2': lambda: [E1, E2],
    'E2re': lambda: [(E2, 'boom-1')], 'E1+E2re': lambda: [E1, (E2, '.*boom-2')],
    'bad': lambda: [(E1, 3)],
}


def catch_spec_matches(spec, exc):
  if isinstance(exc, E1):
    return spec in ('E1', 'E1E2', 'E1+E2re')
  if isinstance(exc, E2):
    if spec in ('E2', 'E1E2'):
      return True
    if spec == 'E2re':
      return 'boom-1' in str(exc)
    if spec == 'E1+E2re':
      return 'boom-2' in str(exc)
  return False


def _ce_gen(rng, env, state):
  if rng.random() < 0.05:
    return {'spec': 'bad'}
  return {'spec': rng.choice(['E1', 'E2', 'E1E2', 'E2re', 'E1+E2re'])}


_register(Manager(
    'catch_errors', 'thread', 'catch', _ce_gen,
    lambda args, env: pg.catch_errors(CATCH_SPECS[args['spec']]()),
    lambda state, args, env: state,
    enter=lambda s, a, e: 'may' if a['spec'] == 'bad' else 'no'))


def canon_yield(name, y):
  """Canonical form of the value bound by `with <manager> as y`."""
  if name in ('contextual_override', 'ContextualObject.override'):
    return _canon_ov(y)
  if name in ('str_format', 'repr_format', 'thread_local_arg_scope',
              'view_options', 'coding.context'):
    return _canon_kw(y)
  if name == 'coding.permission':
    return y.value
  if name in ('detour', 'apply_wrappers'):
    return _canon_map(y)
  if name == 'preset_args':
    return tuple(_canon_kw(y.get_preset(n)) for n in ('global', 'other'))
  if name == 'load_types_for_deserialization':
    return tuple(sorted(y))
  if name in ('timeit', 'catch_errors'):
    return DONTCARE
  return y


_NAME_OF = {v: k for k, v in DETOUR_POOL.items()}


def _canon_map(m):
  return tuple(sorted((_NAME_OF.get(s, repr(s)), _NAME_OF.get(d, repr(d)))
                      for s, d in m.items()))


# ---------------------------------------------------------------------------
# Documented uses of the yielded object inside its block.
# ---------------------------------------------------------------------------
class Use:
  """One public use of the object `y` bound by `with <manager> as y`.

  apply(y, env) drives public methods / properties only and returns nothing;
  the documented effect of every listed use is confined to `y` itself."""

  def __init__(self, name, apply):
    self.name, self.apply = name, apply


USES = {}


def _use(mgr, name, apply):
  USES.setdefault(mgr, []).append(Use(name, apply))


def _timeit_read(y, env):
  return (y.name, y.elapse, y.has_started, y.has_ended, y.has_error, y.error,
          y.start_time, y.end_time, len(y.children))


# pg.timeit yields the TimeIt object: all of its public methods.
_use('timeit', 'end', lambda y, env: y.end())
_use('timeit', 'end-with-error', lambda y, env: y.end(E1('boom-1')))
_use('timeit', 'start', lambda y, env: y.start())
_use('timeit', 'add', lambda y, env: y.add(pg.timeit('c17-added')))
_use('timeit', 'status', lambda y, env: y.status())
_use('timeit', 'read', _timeit_read)
# pg.catch_errors yields the context whose `error` is read by the caller.
_use('catch_errors', 'read', lambda y, env: y.error)
# Managers yielding the current mapping / collection of the setting: read it
# (through the same public accessors as `canon_yield`).
for _m in ('contextual_override', 'ContextualObject.override', 'str_format',
           'repr_format', 'thread_local_arg_scope', 'view_options',
           'coding.context', 'coding.permission', 'detour', 'apply_wrappers',
           'preset_args', 'load_types_for_deserialization'):
  _use(_m, 'read', (lambda m: lambda y, env: canon_yield(m, y))(_m))


# ---------------------------------------------------------------------------
# Events inside a block: user code the scoped machinery dispatches to raises,
# and the program handles the exception inside the block.
# ---------------------------------------------------------------------------
class Event:
  """Something a program does inside a block that makes user code the library
  dispatches to (a detour destination, a callback, a view / format method, a
  functor body, evaluated code, ...) raise; every exception is caught right
  there, i.e. *inside* all the enclosing blocks.  No scoped setting is
  documented to change by that: the model state is the same before and after.

  apply(env) returns the list of outcomes ('ok', value) | ('raise', class name)
  of the calls it made (how many of them raise depends on the settings in
  effect and is not judged)."""

  def __init__(self, name, mgr, apply, scope='thread', focus=None, perturbs=None):
    self.name, self.mgr, self.apply, self.scope = name, mgr, apply, scope
    # (state) -> True where the event itself would change a setting by
    # documented behaviour (it is not run there)
    self.perturbs = perturbs
    # managers whose costly observers are evaluated around the event
    self.focus = tuple(focus) if focus else (mgr,)


EVENTS = {}


def _event(name, mgr, apply, scope='thread', focus=None, perturbs=None):
  EVENTS[name] = Event(name, mgr, apply, scope, focus, perturbs)


def _calls(*fs):
  return lambda env: [_outcome(lambda f=f: f(env)) for f in fs]


def _new_raises(names):
  def apply(env):
    out = []
    for n in names:
      out.append(_outcome(lambda n=n: DETOUR_POOL[n](RAISE)))
      out.append(_outcome(lambda n=n: DETOUR_POOL[n](SELF_RAISE)))
    return out
  return apply


# The destination of a detour (class `__init__`, function, function creating
# the original class) raises; undetoured classes raise by themselves.
_event('destination-raises', 'detour', _new_raises(('K1', 'K2', 'K3')))
_event('wrapped-init-raises', 'apply_wrappers', _new_raises(('U', 'V')),
       scope='process')


def _raiser(*args, **kwargs):
  raise E1('raised by a propagated function')


# The function wrapped by `pg.with_contextual_override` raises (called in the
# thread that wrapped it); reading an undefined contextual value raises.
_event('propagated-function-raises', 'contextual_override', _calls(
    lambda env: pg.with_contextual_override(_raiser)(),
    lambda env: pg.contextual_value('c17-undefined'),
    lambda env: env.co.c17_undefined))


# The object governed by `ContextualObject.override` is modified inside the
# block (plain field, every rebind entry point); nothing raises, and the
# overrides are not documented to depend on the object's fields.
def _co_setattr(env):
  env.co.t = env.tick()


_event('rebind', 'ContextualObject.override', _calls(
    lambda env: env.co.rebind(t=env.tick()),
    lambda env: env.co.rebind({'t': env.tick()}, skip_notification=True),
    lambda env: env.co.rebind(t=env.tick(), notify_parents=False),
    lambda env: env.co.rebind(lambda k, v, p: v, raise_on_no_change=False),
    _co_setattr))
# A view / an extension method raises while `pg.view(..., **kwargs)` /
# `pg.to_html` have their options in effect.
_event('view-method-raises', 'view_options', _calls(
    lambda env: pg.view(RAISE, view_id=ProbeView.VIEW_ID,
                        enable_key_tooltip=False, extra_flags={'c17': 1}),
    lambda env: pg.view(RAISE, view_id=ProbeView.VIEW_ID),
    lambda env: pg.to_html_str(env.ev_html, collapse_level=0),
    lambda env: pg.to_html_str(pg.Dict(a=env.ev_html))))


# A change notification callback / `_on_change` / `_on_bound` raises, from
# every kind of mutation entry point.
def _tick_rebind(env):
  env.ev_d.rebind(b=env.tick())


_event('change-callback-raises', 'notify_on_change', _calls(
    _tick_rebind,
    lambda env: env.ev_d.pop('b'),
    lambda env: env.ev_d.update({'b': env.tick()}),
    lambda env: env.ev_l.append(env.tick()),
    lambda env: env.ev_l.pop(),
    lambda env: env.ev_change.rebind(x=env.tick())))
_event('on-bound-raises', None, _calls(
    lambda env: OnBoundRaiser(x=13),
    lambda env: OnBoundRaiser.partial(x=13),
    lambda env: env.ev_bound.rebind(x=13),
    lambda env: env.ev_bound.rebind(x=0),
    lambda env: pg.Dict(x='not-an-int', value_spec=SPEC),
    lambda env: PA(x=1)),
       focus=('enable_type_check', 'allow_partial', 'as_sealed',
              'allow_writable_accessors', 'notify_on_change'))
_event('format-raises', 'str_format', _calls(lambda env: str(FmtRaiser())))
_event('repr-format-raises', 'repr_format', _calls(lambda env: repr(FmtRaiser())))


def _functor_raises(env):
  f = c17_raiser(1)       # raises here under auto_call_functors(True)
  return f()


_event('functor-body-raises', 'auto_call_functors', _calls(_functor_raises))
_CODE_GLOBALS = {'c17raise': _raiser}
_event('evaluated-code-raises', 'coding.context', _calls(
    lambda env: pg.coding.evaluate('c17raise()', global_vars=dict(_CODE_GLOBALS)),
    lambda env: pg.coding.evaluate('1 // 0'),
    lambda env: pg.coding.evaluate('c17-not-python')))
_event('permitted-code-raises', 'coding.permission', _calls(
    lambda env: pg.coding.evaluate('c17raise()', global_vars=dict(_CODE_GLOBALS),
                                   permission=P.ALL),
    lambda env: pg.coding.run('c17raise()', global_vars=dict(_CODE_GLOBALS),
                              sandbox=False)))
_event('evaluate-fn-raises', 'dynamic_evaluate', _calls(
    lambda env: pg.oneof([RAISE, 2]),
    lambda env: pg.floatv(2.0, 1.0)),           # invalid hyper value: the ctor raises
       # (under `apply` an anonymous hyper primitive consumes a decision)
       perturbs=lambda st: de_apply_effective(st))
_event('preset-call-raises', 'preset_args', _calls(lambda env: pf(RAISE)))
_event('deserialized-init-raises', 'load_types_for_deserialization', _calls(
    lambda env: pg.from_json({'_type': 'c17nomod.LT1', 'x': 'not-an-int'},
                             auto_import=False)), scope='process')
_event('timed-block-raises', 'timeit', _calls(
    lambda env: _timed_raise()))


def _timed_raise():
  with pg.timeit('c17-event'):
    raise E1('raised in a timed block')


# ---------------------------------------------------------------------------
# Observers.
# ---------------------------------------------------------------------------
class Observer:
  def __init__(self, name, mgr, kind, observe, expect, scope='thread',
               heavy=False, solo_only=False, intrusive=False, perturbs=None,
               residue=False):
    self.name, self.mgr, self.kind = name, mgr, kind
    # residue observers look at behaviour that no setting governs where their
    # expectation is not a don't-care (the same value in every such state): a
    # deviation is what some block left behind, whenever it is noticed
    self.residue = residue
    # (state) -> True where evaluating the observer would itself change a
    # setting by documented behaviour (it is not evaluated there)
    self.perturbs = perturbs
    self.observe, self.expect = observe, expect
    self.scope, self.heavy, self.solo_only = scope, heavy, solo_only
    # intrusive observers enter a scope themselves and are not evaluated
    # where their expectation is a don't-care
    self.intrusive = intrusive


OBSERVERS = []


def _obs(*a, **kw):
  OBSERVERS.append(Observer(*a, **kw))


def _write_blocked(st):
  """Construction of symbolic values is entangled with these scopes (a write
  scope can reject filling in defaults); probes that build objects treat the
  combination as a don't-care."""
  return st['sealed'] is True or st['aw'] is False or not st['typecheck']


# notify_on_change
_obs('notify.getter', 'notify_on_change', 'getter',
     lambda env: pg.symbolic.is_change_notification_enabled(),
     lambda st, env: st['notify'])


def _notify_probe(env):
  n = len(env.log)
  r = _ok_or_exc(lambda: env.d_cb.rebind(a=env.tick()))
  return (r, len(env.log) - n)


_obs('notify.callback', 'notify_on_change', 'behaviour', _notify_probe,
     lambda st, env: (('WritePermissionError', 0) if st['sealed'] is True
                      else ('ok', 1 if st['notify'] else 0)))

# enable_type_check
_obs('typecheck.getter', 'enable_type_check', 'getter',
     lambda env: pg.symbolic.is_type_check_enabled(),
     lambda st, env: st['typecheck'])
_obs('typecheck.typed-new', 'enable_type_check', 'behaviour',
     lambda env: _ok_or_exc(lambda: pg.Dict(x='s', value_spec=SPEC)) == 'TypeError',
     lambda st, env: st['typecheck'])

# allow_partial
_obs('partial.getter', 'allow_partial', 'getter',
     lambda env: pg.symbolic.is_under_partial_scope(),
     lambda st, env: st['partial'])
_obs('partial.ctor-rejected', 'allow_partial', 'behaviour',
     lambda env: (_ok_or_exc(lambda: PA(x=1)) == 'TypeError',
                  _ok_or_exc(lambda: PA.partial(x=1)) == 'TypeError'),
     lambda st, env: (st['partial'] is not True, st['partial'] is False))

# as_sealed
_obs('sealed.getter', 'as_sealed', 'getter',
     lambda env: pg.symbolic.is_under_sealed_scope(),
     lambda st, env: st['sealed'])
_obs('sealed.rebind', 'as_sealed', 'behaviour',
     lambda env: (_ok_or_exc(lambda: env.d_plain.rebind(a=env.tick())),
                  _ok_or_exc(lambda: env.d_sealed.rebind(a=env.tick()))),
     lambda st, env: ('WritePermissionError' if st['sealed'] is True else 'ok',
                      'ok' if st['sealed'] is False else 'WritePermissionError'))

# allow_writable_accessors


def _aw_expect(st, env):
  if st['sealed'] is True:
    return ('WritePermissionError', 'WritePermissionError')
  return ('ok' if st['aw'] is not False else 'WritePermissionError',
          'ok' if st['aw'] is True else 'WritePermissionError')


def _aw_probe(env):
  def w1():
    env.d_plain.a = env.tick()

  def w2():
    env.d_now['a'] = env.tick()
  return (_ok_or_exc(w1), _ok_or_exc(w2))


_obs('aw.getter', 'allow_writable_accessors', 'getter',
     lambda env: pg.symbolic.is_under_accessor_writable_scope(),
     lambda st, env: st['aw'])
_obs('aw.setattr', 'allow_writable_accessors', 'behaviour', _aw_probe, _aw_expect)

# track_origin
_obs('origin.getter', 'track_origin', 'getter',
     lambda env: pg.symbolic.is_tracking_origin(),
     lambda st, env: st['origin'])


def _origin_probe(env):
  o = env.d_src.clone().sym_origin
  return None if o is None else (o.source is env.d_src)


_obs('origin.clone', 'track_origin', 'behaviour', _origin_probe,
     lambda st, env: True if st['origin'] else None)

# auto_call_functors
_obs('autocall.getter', 'auto_call_functors', 'getter',
     lambda env: pg.symbolic.should_call_functors_during_init(),
     lambda st, env: None if st['autocall'] == NOSCOPE else st['autocall'])


def _autocall_probe(env):
  r = c17_foo(1, 2)
  return 3 if r == 3 and not isinstance(r, pg.Functor) else type(r).__name__


_obs('autocall.call', 'auto_call_functors', 'behaviour', _autocall_probe,
     lambda st, env: 3 if st['autocall'] is True else 'c17_foo')

# contextual_override
_obs('ctxov.all-values', 'contextual_override', 'getter',
     lambda env: tuple(sorted(pg.utils.all_contextual_values().items())),
     lambda st, env: tuple(sorted((k, v[0]) for k, v in st['ctxov'].items())))
_obs('ctxov.value', 'contextual_override', 'getter',
     lambda env: tuple(pg.contextual_value(n, ABSENT) for n in OV_NAMES),
     lambda st, env: tuple(st['ctxov'][n][0] if n in st['ctxov'] else ABSENT
                           for n in OV_NAMES))
_obs('ctxov.raises', 'contextual_override', 'getter',
     lambda env: tuple(_ok_or_exc(lambda n=n: pg.contextual_value(n)) for n in OV_NAMES),
     lambda st, env: tuple('ok' if n in st['ctxov'] else 'KeyError' for n in OV_NAMES))


def _ov_objs(env):
  out = []
  for n in OV_NAMES:
    o = pg.utils.get_contextual_override(n)
    out.append(None if o is None else (o.value, o.cascade, o.override_attrs))
  return tuple(out)


_obs('ctxov.override', 'contextual_override', 'getter', _ov_objs,
     lambda st, env: tuple(st['ctxov'].get(n) for n in OV_NAMES))


def _attr_expect(st, env):
  out = []
  bound = {'x': 1}
  defaults = {'z': -1, 'w': -2}
  for n in OV_NAMES:
    ov = st['ctxov'].get(n)
    if n in st['objov']:                    # `obj.override` first
      out.append(st['objov'][n])
    elif ov is not None and ov[2]:          # override_attrs=True
      out.append(ov[0])
    elif n in bound:
      out.append(bound[n])
    elif ov is not None:
      out.append(ov[0])
    elif n in defaults:
      out.append(defaults[n])
    else:
      out.append('AttributeError')
  return tuple(out)


def _attr_probe(env):
  out = []
  for n in OV_NAMES:
    r = _outcome(lambda n=n: getattr(env.co, n))
    out.append(r[1])
  return tuple(out)


_obs('ctxov.attribute', 'contextual_override', 'behaviour', _attr_probe, _attr_expect)


def _objov_get(env):
  with env.co.override() as cur:
    return _canon_ov(cur)


_obs('objov.scope', 'ContextualObject.override', 'getter', _objov_get,
     lambda st, env: tuple(sorted((k, (v, False, False))
                                  for k, v in st['objov'].items())))


# str_format / repr_format
def _fmt_get(fn):
  def get(env):
    with fn() as kw:
      return _canon_kw(kw)
  return get


def _fmt_expect_probe(base, slot):
  def expect(st, env):
    kw = dict(base)
    kw.update(st[slot])
    return repr(sorted((k, v) for k, v in kw.items() if k in FMT_KEYS))
  return expect


_FMT = FmtProbe()
_obs('strfmt.scope', 'str_format', 'getter', _fmt_get(pg.str_format),
     lambda st, env: _canon_kw(st['strfmt']))
_obs('strfmt.kwargs', 'str_format', 'behaviour', lambda env: str(_FMT),
     _fmt_expect_probe(STR_BASE, 'strfmt'))
_obs('strfmt.str', 'str_format', 'behaviour', lambda env: str(env.fmt_d),
     lambda st, env: pg.format(env.fmt_d, **dict(STR_BASE, **st['strfmt'])))
_obs('reprfmt.scope', 'repr_format', 'getter', _fmt_get(pg.repr_format),
     lambda st, env: _canon_kw(st['reprfmt']))
_obs('reprfmt.kwargs', 'repr_format', 'behaviour', lambda env: repr(_FMT),
     _fmt_expect_probe(dict(REPR_BASE, verbose=True), 'reprfmt'))   # pg.format default
_obs('reprfmt.repr', 'repr_format', 'behaviour', lambda env: repr(env.fmt_d),
     lambda st, env: pg.format(env.fmt_d, **dict(REPR_BASE, **st['reprfmt'])))
_obs('tla.kwargs', 'thread_local_arg_scope', 'getter',
     lambda env: _canon_kw(_tl.thread_local_kwargs(TLA_KEY)),
     lambda st, env: _canon_kw(st['tla']))

# view_options
HTML_REF = {}      # canonical options -> reference html (filled by prepare())


def _view_get(env):
  with pg.view_options() as o:
    return _canon_kw(o)


_obs('viewopt.scope', 'view_options', 'getter', _view_get,
     lambda st, env: _canon_kw(st['viewopt']))
_obs('viewopt.view-kwargs', 'view_options', 'behaviour',
     lambda env: pg.view(1, view_id=ProbeView.VIEW_ID).content,
     lambda st, env: repr(_canon_kw(st['viewopt'])))


def _html_expect(st, env):
  if _write_blocked(st) or st['partial'] is False:
    return DONTCARE
  key = _canon_kw(st['viewopt'])
  return HTML_REF.get(key, DONTCARE)


_obs('viewopt.to_html', 'view_options', 'behaviour',
     lambda env: _outcome(lambda: pg.to_html_str(env.html_d))[1],
     _html_expect, heavy=True)

# coding.context / coding.permission
_obs('codectx.getter', 'coding.context', 'getter',
     lambda env: _canon_kw(pg.coding.get_context()),
     lambda st, env: _canon_kw(st['codectx']))
_obs('codectx.evaluate', 'coding.context', 'behaviour',
     lambda env: tuple(freeze(_outcome(lambda n=n: pg.coding.evaluate(n))[1])
                       for n in CTX_NAMES),
     lambda st, env: tuple(freeze(st['codectx'].get(n, 'CodeError')) for n in CTX_NAMES))
_obs('perm.getter', 'coding.permission', 'getter',
     lambda env: (lambda p: None if p is None else p.value)(pg.coding.get_permission()),
     lambda st, env: st['perm'])
_obs('perm.evaluate', 'coding.permission', 'behaviour',
     lambda env: (_ok_or_exc(lambda: pg.coding.evaluate('c17q = 1')),
                  _ok_or_exc(lambda: pg.coding.evaluate('len([])'))),
     lambda st, env: (
         'ok' if st['perm'] is None or st['perm'] & P.ASSIGN.value else 'CodeError',
         'ok' if st['perm'] is None or st['perm'] & P.CALL.value else 'CodeError'))

# detour / apply_wrappers
_obs('detour.getter', 'detour', 'getter',
     lambda env: _canon_map(pg.detouring.current_mappings()),
     lambda st, env: tuple(sorted(st['detour'].items())))


def _describe_new(name):
  cls = DETOUR_POOL[name]
  r = _outcome(cls)
  if r[0] != 'ok':
    return r[1]
  v = r[1]
  if isinstance(v, tuple):
    return v
  for w, (_, wc) in WRAPPERS.items():
    if isinstance(v, wc):
      return w
  return type(v).__name__


def _new_expect(names):
  def expect(st, env):
    out = []
    for n in names:
      d = st['detour'].get(n, n)
      if d in WRAPPERS and _write_blocked(st):
        out.append(DONTCARE)       # the wrapper is a symbolic object
      else:
        out.append(('kfn', n) if d == 'kfn' else d)
    return tuple(out)
  return expect


_obs('detour.new', 'detour', 'behaviour',
     lambda env: tuple(_describe_new(n) for n in ('K1', 'K2', 'K3')),
     _new_expect(('K1', 'K2', 'K3')))
# A class that is no detour source behaves the same before, inside (unless
# its base is being detoured: not documented) and after any detour block.
_obs('detour.subclass-new', 'detour[subclass-new]', 'behaviour',
     lambda env: _describe_new('K1S'),
     lambda st, env: DONTCARE if 'K1' in st['detour'] else 'K1S', residue=True)
_obs('wrappers.new', 'apply_wrappers', 'behaviour',
     lambda env: tuple(_describe_new(n) for n in ('U', 'V')),
     _new_expect(('U', 'V')), scope='process')


# dynamic_evaluate
def _de_effective(st):
  return st['de_tls'] if st['de_tls'] != NOSCOPE else st['de_glob']


def _de_mixed(st):
  return st['de_tls'] != NOSCOPE and st['de_glob'] is not None


def _de_getter_expect(st, env):
  if _de_mixed(st):
    return DONTCARE               # mixing both variants is not documented
  if st['de_tls'] != NOSCOPE:
    return st['de_tls']
  if env.process_ok:
    return st['de_glob']
  # another thread may have set the process-wide function
  return DONTCARE if env.foreign_process_de else None


def _de_oneof(env):
  r = _outcome(lambda: pg.oneof([1, 2]))
  if r[0] != 'ok':
    return r[1]
  v = r[1]
  if isinstance(v, tuple) and v and v[0] == 'c17-de':
    return v[1]
  return type(v).__name__


def _de_oneof_expect(st, env):
  if _write_blocked(st) or de_apply_effective(st):
    return DONTCARE
  e = _de_getter_expect(st, env)
  if e == DONTCARE:
    return e
  return 'OneOf' if e is None else e


if _get_de_fn is not None:
  _obs('de.getter', 'dynamic_evaluate', 'getter',
       lambda env: de_tag(env, _get_de_fn()), _de_getter_expect)
_obs('de.oneof', 'dynamic_evaluate', 'behaviour', _de_oneof, _de_oneof_expect,
     perturbs=de_apply_effective)


# DynamicEvaluationContext.apply: what the contexts of this thread's program
# evaluate the first hyper primitive of their search space to (`evaluate` is
# the public method `apply` installs; outside `apply` it raises).  Only the
# first name: the first statement of every `apply` block evaluates it, so the
# probe never consumes a decision.
def _dectx_probe(env):
  return tuple(_outcome(lambda c=c: c.evaluate(DECTX_HP['a']))[1]
               for _, c in sorted(env.dectx.items()))


def _dectx_expect(st, env):
  out = []
  for k in sorted(getattr(env, 'dectx', {})):
    if k not in st['dectx']:
      out.append('ValueError')     # "needs to be called under the `apply` context"
    elif st['sealed'] is True:
      out.append(DONTCARE)         # `evaluate` builds a symbolic list
    else:
      out.append(DECTX_CANDS['a'][st['dectx'][k][0]])
  return tuple(out)


_obs('dectx.evaluate', APPLY, 'behaviour', _dectx_probe, _dectx_expect)


def _de_receptive(env):
  """Is a process-wide dynamic_evaluate entered now effective in this thread?"""
  def go():
    with pg.hyper.dynamic_evaluate(_de_probe, per_thread=False):
      return _de_oneof(env)
  return _outcome(go)[1]


def _de_receptive_expect(st, env):
  if st['de_tls'] != NOSCOPE or _write_blocked(st):
    return DONTCARE               # shadowed by the per-thread scope / entangled
  return 'probe'


_obs('de.process-scope-effective', 'dynamic_evaluate[process]', 'behaviour',
     _de_receptive, _de_receptive_expect, scope='process', solo_only=True,
     intrusive=True)

# preset_args


def _preset_expect(st, env):
  g = st['preset'].get('global', {})
  o = st['preset'].get('other', {})
  return ((0, g.get('y', 1), g.get('z', 5)), (0, o.get('y', 1)))


_obs('preset.call', 'preset_args', 'behaviour',
     lambda env: (pf(0), pf2(0)), _preset_expect)

# load_types_for_deserialization
_obs('ltypes.getter', 'load_types_for_deserialization', 'getter',
     lambda env: tuple(
         (lambda c: None if c is None else c.__name__)(
             pg.JSONConvertible.class_from_typename('c17nomod.' + n))
         for n in sorted(LTYPES)),
     lambda st, env: tuple(n if n in st['ltypes'] else None for n in sorted(LTYPES)),
     scope='process')


def _ltypes_probe(env):
  out = []
  for n in sorted(LTYPES):
    r = _outcome(lambda n=n: pg.from_json({'_type': 'c17nomod.' + n, 'x': 2},
                                          auto_import=False))
    out.append(type(r[1]).__name__ if r[0] == 'ok' else r[1])
  return tuple(out)


_obs('ltypes.from_json', 'load_types_for_deserialization', 'behaviour', _ltypes_probe,
     lambda st, env: (DONTCARE if _write_blocked(st) else
                      tuple(n if n in st['ltypes'] else 'TypeError'
                            for n in sorted(LTYPES))),
     scope='process')


# timeit
def _timeit_probe(env):
  with pg.timeit('c17-probe') as p:
    pass
  for i in range(len(env.timeits) - 1, -1, -1):
    if any(c is p for c in env.timeits[i].children):
      return i
  # a scope that has been left must not adopt later scopes (`children` is public)
  for t in env.left_timeits:
    if any(c is p for c in t.children):
      return 'child-of-left-scope'
  return None


_obs('timeit.parent', 'timeit', 'behaviour', _timeit_probe,
     lambda st, env: len(st['timeit']) - 1 if st['timeit'] else None)

# thread_local_value_scope
_obs('tlv.get', 'thread_local_value_scope', 'getter',
     lambda env: tuple((pg.utils.thread_local_has(k),
                        pg.utils.thread_local_get(k, ABSENT)) for k in TLV_KEYS),
     lambda st, env: tuple(
         (False, ABSENT) if st['tlv:' + k] == NOSCOPE else (True, st['tlv:' + k])
         for k in TLV_KEYS))

OBS_BY_NAME = {o.name: o for o in OBSERVERS}


def prepare():
  """Reference renderings, computed in a thread that is inside no scope."""
  if HTML_REF:
    return
  d = pg.Dict(a=dict(b=1))
  keys = sorted(VIEW_VALUES)

  def rec(i, cur):
    if i == len(keys):
      HTML_REF[_canon_kw(cur)] = pg.to_html_str(d, **cur)
      return
    rec(i + 1, cur)
    for v in VIEW_VALUES[keys[i]]:
      rec(i + 1, dict(cur, **{keys[i]: v}))
  rec(0, {})


def match(got, exp):
  """Equality where DONTCARE (also as a tuple element) matches anything."""
  if isinstance(exp, str) and exp == DONTCARE:
    return True
  if isinstance(exp, tuple) and isinstance(got, tuple) and len(exp) == len(got) \
      and any(isinstance(e, str) and e == DONTCARE for e in exp):
    return all(match(g, e) for g, e in zip(got, exp))
  return got == exp


class ExpectEnv:
  """Stand-in for the Env of another thread when computing expectations."""

  def __init__(self, like, process_ok=False, foreign_process_de=True):
    self.tid, self.process_ok, self.solo = -1, process_ok, False
    self.foreign_process_de = foreign_process_de
    self.fmt_d = like.fmt_d
    self.dectx = {}      # (the fresh thread's own Env has no contexts)


# Per-thread settings that are keyed by an object (the overrides of a
# ContextualObject, the decisions of a per-thread DynamicEvaluationContext):
# these observers only read the governed objects of the Env they are given, so
# another thread can evaluate them on the very same objects.
SAME_OBJECT_OBSERVERS = ('ctxov.attribute', 'objov.scope', 'dectx.evaluate')


def same_object_view(env):
  """What the calling thread sees on the governed objects of `env`."""
  out = {}
  for name in SAME_OBJECT_OBSERVERS:
    o = OBS_BY_NAME[name]
    try:
      out[name] = o.observe(env)
    except Exception as e:  # pylint: disable=broad-except
      out[name] = ('observer-raised', type(e).__name__)
  return out


# Observers costing more than ~0.1 ms: evaluated at the blocks of their own
# manager and at the blocks drawn for a full snapshot (program start/end too).
COSTLY = {'typecheck.typed-new', 'partial.ctor-rejected', 'sealed.rebind',
          'autocall.call', 'ctxov.attribute', 'strfmt.str', 'reprfmt.repr',
          'codectx.evaluate', 'perm.evaluate', 'de.oneof', 'de.process-scope-effective',
          'viewopt.to_html', 'detour.subclass-new'}
RESIDUE_MECHS = {o.mgr for o in OBSERVERS if o.residue}


def applicable(obs, env, full, focus=None):
  """Is `obs` part of a snapshot taken by `env` around a block of manager `focus`?"""
  if (obs.heavy or obs.name in COSTLY) and not full:
    if focus is None or not (obs.mgr == focus or obs.mgr.split('[')[0] == focus):
      return False
  if obs.scope == 'process' and not env.process_ok:
    return False
  if obs.mgr.startswith('dynamic_evaluate') and env.foreign_process_de:
    return False      # another thread legitimately changes the process-wide function
  if obs.solo_only and not env.solo:
    return False
  return True


def heal_process_state(de_glob=None):
  """Best-effort reset of process-wide residue after a reported violation:
  the process-wide dynamic_evaluate function is set to what the model says."""
  setter = getattr(pg.hyper.base, 'set_dynamic_evaluate_fn', None)
  if setter is not None and _get_de_fn is not None:
    try:
      setter(DE_FN.get(de_glob), False)
    except Exception:  # pylint: disable=broad-except
      pass


def in_fresh_thread(fn):
  """Runs fn() on a new thread and returns ('ok', value) | ('raise', exc)."""
  box = []

  def body():
    try:
      box.append(('ok', fn()))
    except BaseException as e:  # pylint: disable=broad-except
      box.append(('raise', e))
  t = threading.Thread(target=body, name='c17-fresh')
  t.start()
  t.join()
  return box[0]
