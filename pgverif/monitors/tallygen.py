"""A search algorithm that is its own observer (C16).

`TallyGenerator` is an ordinary user-written `pg.DNAGenerator`: it proposes
seeded random DNAs and keeps plain bookkeeping of what it proposed and what it
was fed (`proposed`, `count`, `total`, `fed`).  Like most user-written
algorithms it is NOT thread-safe: every update is a read ... write that spans
several statements.  It relies on what the in-memory backend documents - one
`propose()` and one `feedback()` at a time for the algorithm of a study - so
two calls that overlap inside it lose an update, which the audit at quiescence
sees as a tally that disagrees with the calls that were made.

This file is a scheduler target of C16 (LINE events are raised in it), which is
why it lives in a file of its own: the statement boundaries below are switch
points.
"""
import random

import pyglove as pg


@pg.members([('seed', pg.typing.Int(default=0))])
class TallyGenerator(pg.geno.DNAGenerator):
  """Seeded random search with a multi-statement (not thread-safe) tally."""

  def _setup(self):
    self._random = random.Random(self.seed)
    self.proposed = 0
    self.count = 0
    self.total = 0.0
    self.fed = ()
    self.inside = 0
    self.max_inside = 0

  def _propose(self):
    proposed = self.proposed
    dna = pg.geno.random_dna(self.dna_spec, self._random)
    self.proposed = proposed + 1
    return dna

  def _feedback(self, dna, reward):
    inside = self.inside
    self.inside = inside + 1
    if self.inside > self.max_inside:
      self.max_inside = self.inside
    count = self.count
    total = self.total
    fed = self.fed
    self.count = count + 1
    self.total = total + reward
    self.fed = fed + (dna.userdata.get('pid'),)
    self.inside = self.inside - 1
