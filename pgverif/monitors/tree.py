"""Tree-integrity invariant monitor (C01; reused by C05, C07, C08, C09).

Uses only public API: sym_parent, sym_path, sym_items(), sym_get(), sym_getattr.
"""
import pyglove as pg


def children(node):
  """(key, child) for every directly stored member of a symbolic node."""
  if isinstance(node, pg.Ref):
    return []
  return list(node.sym_items())


def walk(root):
  """Yields (parent, key, child, expected key list) for every symbolic child
  reachable from root (pre-order)."""
  stack = [(root, [])]
  entered = {id(root)}
  while stack:
    p, keys = stack.pop()
    for k, c in children(p):
      if isinstance(c, pg.Symbolic):
        yield p, k, c, keys + [k]
        # A node met twice is reported by the caller (duplicate-node); it is
        # entered only once so that a cyclic structure terminates.
        if not isinstance(c, pg.Ref) and id(c) not in entered:
          entered.add(id(c))
          stack.append((c, keys + [k]))


def nodes_of(root):
  out = [(root, [])]
  for _, _, c, keys in walk(root):
    out.append((c, keys))
  return out


def tree_ok(forest, ever_seen=None, counters=None):
  """Checks every root of `forest`. Returns a list of (clause, detail).

  ever_seen: optional dict id -> node of symbolic nodes seen so far; it is
    updated with the currently reachable nodes and used for the
    "no dangling claim" rule on nodes that are no longer reachable.
  """
  problems = []
  reachable = {}
  for ridx, root in enumerate(forest):
    if not isinstance(root, pg.Symbolic):
      continue
    if counters is not None:
      counters['tree_ok_roots'] += 1
    if id(root) in reachable:
      problems.append(('duplicate-node', f'root{ridx} is also reachable elsewhere'))
    reachable[id(root)] = root
    if root.sym_parent is not None:
      problems.append(('root-has-parent',
                       f'root{ridx} ({type(root).__name__}) reports parent '
                       f'{type(root.sym_parent).__name__}'))
    if len(root.sym_path) != 0:
      problems.append(('root-has-path',
                       f'root{ridx} reports path {str(root.sym_path)!r}'))
    base = list(root.sym_path.keys)
    for p, k, c, keys in walk(root):
      if counters is not None:
        counters['tree_ok_edges'] += 1
      where = f'root{ridx}{keys} ({type(c).__name__})'
      if id(c) in reachable:
        problems.append(('duplicate-node', f'{where}: same object stored twice'))
        continue
      reachable[id(c)] = c
      n_before = len(problems)
      if c.sym_parent is not p:
        par = c.sym_parent
        problems.append((
            'wrong-parent',
            f'{where}: sym_parent is '
            f'{"None" if par is None else type(par).__name__ + "@" + str(par.sym_path)!r}'
            f', stored in {type(p).__name__}'))
      if list(c.sym_path.keys) != base + keys:
        problems.append(('stale-path',
                         f'{where}: sym_path={list(c.sym_path.keys)!r}'))
      else:
        try:
          got = root.sym_get(c.sym_path - root.sym_path) if base else root.sym_get(c.sym_path)
        except Exception as e:  # pylint: disable=broad-except
          got = e
        if got is not c:
          problems.append(('lookup-mismatch',
                           f'{where}: root.sym_get(path) returned {got!r:.80}'))
      if len(problems) == n_before and c.sym_root is not root and not base:
        problems.append(('wrong-root', f'{where}: sym_root is not the root'))
  if ever_seen is not None:
    for i, n in list(ever_seen.items()):
      if i in reachable:
        continue
      par = n.sym_parent
      if par is None:
        continue
      # A detached node may still live inside a detached subtree; what it may
      # not do is claim a parent that does not store it.
      if counters is not None:
        counters['dangling_checks'] += 1
      if not any(c is n for _, c in children(par)):
        problems.append((
            'dangling-claim',
            f'{type(n).__name__} no longer stored in its claimed parent '
            f'{type(par).__name__} (claimed path {str(n.sym_path)!r}, parent '
            f'{"reachable" if id(par) in reachable else "detached"})'))
    ever_seen.update(reachable)
  return problems


def shape(forest):
  """A fingerprintable summary of the forest shape."""
  entered = set()
  def s(n, d=0):
    if isinstance(n, pg.Symbolic):
      if id(n) in entered or d > 40:
        return '^'
      entered.add(id(n))
    if isinstance(n, pg.Ref):
      return 'R'
    if isinstance(n, pg.List):
      return 'L[' + ','.join(s(c, d + 1) for _, c in children(n)) + ']'
    if isinstance(n, pg.Dict):
      return 'D{' + ','.join(s(c, d + 1) for _, c in children(n)) + '}'
    if isinstance(n, pg.Object):
      return type(n).__name__[0] + '(' + ','.join(s(c, d + 1) for _, c in children(n)) + ')'
    return '.'
  return ';'.join(s(r) for r in forest)
