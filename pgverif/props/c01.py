"""C01 — symbolic tree integrity under arbitrary operation histories."""
import collections

import pyglove as pg
from pgverif.gen import alias as A
from pgverif.gen import desc as D
from pgverif.gen import history as H
from pgverif.gen import ops as O
from pgverif.monitors import tree as TM

TIERS = {
    'quick': dict(shards=8, cases=110, steps=40),
    'thorough': dict(shards=16, cases=1000, steps=80),
}
RULE = ('case = one history of mutating/copying API calls from the full '
        'List/Dict/Object operation table plus constructor calls (pg.Dict / '
        'pg.List / pg.Object / pg.from_json in their calling forms, given nested '
        'literals or pre-built pg.Dict / pg.List members, acceptable or not) '
        'applied at uniformly chosen nodes of a random forest (1-3 '
        'roots, typed and untyped, schema-bound containers with required keys / '
        'size bounds whose members are symbolic nodes; keys of untyped dicts '
        'include hostile legal ones: "", " ", "0" next to 0, "a.b", "[0]", the '
        'printed path of another position, at the root and nested, in the forest, '
        'in operands and as newly written keys; operands fresh / aliased '
        'node of the same or another tree / invalid / the SAME object at several '
        'places of one call / for typed slots the valid or deep-invalid value as '
        'a PRE-BUILT symbolic container). Members of the forests and operands '
        'include pg.Ref nodes (references to fresh containers and to live '
        'nodes, reference nodes included) and objects with regex-keyed fields '
        'whose value specs have symbolic defaults, built with several keys of '
        'one key spec given as an explicit pg.MISSING_VALUE (keyword / partial '
        '/ from_json / typed pg.Dict; batches of such keys in rebind); step '
        'kinds "wrap[...]" fetch a stored node AS A NODE (sym_getattr / '
        'sym_values / sym_items / traverse) and hand it to a constructor or '
        'wrapper of symbolic values again (pg.Ref, pg.maybe_ref, deref, '
        'pg.from_json, pg.Dict / pg.List / type(o) of its own members), after '
        'which every node of the forest must be as before; tree_ok (paths compared as key '
        'sequences) is evaluated after every step and after every constructor of '
        'a shared operand; after every call (accepted or rejected, constructors '
        'included) every symbolic object that was handed in and is not stored in '
        'the forest must still be a well-formed tree of its own (no dangling '
        'parent claim; no parent => empty path, children addressed relative to '
        'it). Non-trivial = at least 3 steps '
        'returned normally and changed the forest; distinct by (operation-name '
        'sequence, final shape).')
REQUIRED_COUNTERS = ['tree_ok_evals', 'steps_ok', 'steps_rejected',
                     'steps_shared_operand', 'ctor_checks',
                     'rejected_on_typed_parent_of_nodes', 'operand_checks',
                     'rejected_steps_with_symbolic_operand',
                     'steps_hostile_key', 'forests_with_hostile_key',
                     'steps_prebuilt_for_typed_slot_rejected',
                     'steps_wrap_existing_node', 'steps_wrap_ref_node',
                     'steps_with_ref_operand', 'forests_with_ref_node',
                     'ctor_two_missing_keys_of_one_key_spec']
ASSUMPTIONS = [
    'only public API is observed (sym_parent, sym_path, sym_items, sym_get, sym_root)',
    'self-containing values (a root inserted below itself) are not generated',
    'after a violation the forest is replaced by a deep clone and the history continues',
    'a pg.Ref node is a leaf of the tree that stores it: the value it refers to '
    'is not a member of that tree and is not judged through the reference',
    'an offered operand that a discarded temporary container (a converted plain '
    'dict/list, a half-built typed pg.Dict/pg.List) adopted and really stores is '
    'not judged further: the caller never saw that container',
]


def setup(ctx):
  ctx.notes['unclassified_public_methods'] = O.unclassified_public_methods()
  if ctx.notes['unclassified_public_methods'] and ctx.shard == 0:
    print('WARNING: public methods neither in the mutator table nor reviewed as '
          'read-only:', ctx.notes['unclassified_public_methods'])


def cases(ctx):
  return ctx.params['cases']


heal = H.deep_copy_forest


def typed_parent_of_nodes(forest, step):
  """Is the target of the step a schema-bound Dict/List that currently holds
  symbolic members (so that a rejected call must leave those intact)?"""
  if step['op'] in A.CTOR_OPS:
    return False
  try:
    node = D.resolve(forest, step['at'][0], step['at'][1])
  except Exception:  # pylint: disable=broad-except
    return False
  if not isinstance(node, (pg.Dict, pg.List)) or node.value_spec is None:
    return False
  return any(isinstance(v, pg.Symbolic) for _, v in TM.children(node))


def run_case(ctx, i):
  rng = ctx.rng
  c = ctx.counters
  descs, forest, built0 = A.make_forest2(rng, counters=c)
  seen = {}
  for d in descs:
    if A.max_missing(d) >= 2:
      c['ctor_two_missing_keys_of_one_key_spec'] += 1
  if any(isinstance(n, pg.Ref) for _, _, n in H.all_nodes(forest)):
    c['forests_with_ref_node'] += 1
  if any(k in A.HOSTILE_KEYS and not (isinstance(k, int) and k >= 0)
         for _, _, n in H.all_nodes(forest) if isinstance(n, pg.Dict)
         for k in n.sym_keys()):
    c['forests_with_hostile_key'] += 1
  first = TM.tree_ok(forest, seen, c)
  c['tree_ok_evals'] += 1
  per = collections.OrderedDict()
  for clause, mech, detail in built0:
    per.setdefault((clause, mech), detail)
  for (clause, mech), detail in per.items():
    ctx.violation(clause, mech, 'while the forest was built\n' + detail,
                  {'forest': descs})
  if built0:
    first = []                      # attributed to the constructor already
    forest[:] = heal(forest)
    seen.clear()
    c['heals'] += 1
    if TM.tree_ok(forest, seen):
      c['abandoned_histories'] += 1
      return
  for clause, detail in first:
    ctx.violation(clause, 'construction', detail, {'forest': descs})
  trace, ok_steps, after = [], 0, None
  n_steps = rng.randint(ctx.params['steps'] // 2, ctx.params['steps'])
  for _ in range(n_steps):
    step = A.gen_step(rng, forest)
    if step is None:
      break
    typed_parent = typed_parent_of_nodes(forest, step)
    before = after if after is not None else TM.shape(forest)
    pre = H.deep_copy_forest(forest) if H.notify_suppressed(step) else None
    ctx.label = step['op']
    status, result, problems, built = A.apply_step(forest, seen, step, c)
    ctx.label = None
    c['op:' + step['op']] += 1
    if step.get('shared'):
      c['steps_shared_operand'] += 1
      c['shared:' + step['op']] += 1
    if step.get('hostile'):
      c['steps_hostile_key'] += 1
      c['hostile:' + step['op']] += 1
    if step.get('wrap'):
      c['steps_wrap_existing_node'] += 1
      c['wrap:' + step['op']] += 1
      if step.get('ref_target'):
        c['steps_wrap_ref_node'] += 1
    if step.get('refs'):
      c['steps_with_ref_operand'] += 1
    if step.get('missing', 0) >= 2:
      c['ctor_two_missing_keys_of_one_key_spec'] += 1
    if step.get('prebuilt'):
      c['steps_prebuilt_for_typed_slot'] += 1
      if status == 'raise':
        c['steps_prebuilt_for_typed_slot_rejected'] += 1
    if status == 'ok':
      c['steps_ok'] += 1
    else:
      c['steps_rejected'] += 1
      c['rejected:' + type(result).__name__] += 1
      if typed_parent:
        c['rejected_on_typed_parent_of_nodes'] += 1
        c['rejected_on_typed_parent_of_nodes:' + step['op']] += 1
    c['tree_ok_evals'] += 1
    trace.append(A.show_step(step) + (' -> ' + type(result).__name__
                                      if status == 'raise' else ''))
    after = TM.shape(forest)
    if status == 'ok' and after != before:
      ok_steps += 1
    if built.problems:
      # A constructor of an operand (or the constructor call itself) returned
      # a broken value: what the operation did with it afterwards is not judged.
      per = collections.OrderedDict()
      for clause, mech, detail in built.problems:
        per.setdefault((clause, mech), detail)
      for (clause, mech), detail in per.items():
        ctx.violation(clause, mech, f'after step {len(trace)}: {trace[-1]}\n{detail}',
                      {'forest': descs, 'history': trace[-12:]})
      problems = problems or [('ctor', '')]
    elif problems:
      per = collections.OrderedDict()
      for clause, detail in problems:
        per.setdefault(clause, detail)
      with_notify, decided = set(), False
      if pre is not None:
        # Does the violation need notifications to be off? Re-execute the
        # step on a copy of the pre-state with notifications on.
        seen2 = {}
        if not TM.tree_ok(pre, seen2):
          try:
            _, _, p2, _ = A.apply_step(pre, seen2, H.without_notify_off(step))
            with_notify, decided = {cl for cl, _ in p2}, True
            c['notify_differential_runs'] += 1
          except Exception:  # pylint: disable=broad-except
            pass
      for clause, detail in per.items():
        mech = A.mechanism(step, status,
                           decided and clause not in with_notify, built)
        ctx.violation(clause, mech, f'after step {len(trace)}: {trace[-1]}\n{detail}',
                      {'forest': descs, 'history': trace[-12:]})
    elif built.operand_findings:
      # The forest is intact; an object that was handed to the call and is not
      # stored anywhere is no longer a well-formed tree of its own.
      per = collections.OrderedDict()
      for clause, detail in built.operand_findings:
        per.setdefault(clause, detail)
      for clause, detail in per.items():
        ctx.violation(clause, A.mechanism(step, status, False, built),
                      f'after step {len(trace)}: {trace[-1]}\n{detail}',
                      {'forest': descs, 'history': trace[-12:]})
    if problems:
      forest[:] = heal(forest)
      after = None
      seen.clear()
      c['heals'] += 1
      if TM.tree_ok(forest, seen):
        c['abandoned_histories'] += 1
        break
    if H.total_size(forest) > 400:
      break
  final = TM.shape(forest)
  ctx.seen('final_shapes', final)
  if ok_steps >= 3:
    ctx.mark_nontrivial((tuple(t.split('(')[0].split('.', 1)[-1] for t in trace),
                         final))
  if i < 2:
    ctx.sample({'forest': [str(d)[:300] for d in descs], 'history': trace[:12]})
