"""C01 — symbolic tree integrity under arbitrary operation histories."""
import collections

import pyglove as pg
from pgverif.gen import history as H
from pgverif.gen import ops as O
from pgverif.monitors import tree as TM

TIERS = {
    'quick': dict(shards=4, cases=220, steps=40),
    'thorough': dict(shards=16, cases=1500, steps=80),
}
RULE = ('case = one history of mutating/copying API calls from the full '
        'List/Dict/Object operation table applied at uniformly chosen nodes of '
        'a random forest (1-3 roots, typed and untyped, operands fresh / aliased '
        'node of the same or another tree / invalid); tree_ok is evaluated '
        'after every step. Non-trivial = at least 3 steps returned normally and '
        'changed the forest; distinct by (operation-name sequence, final shape).')
REQUIRED_COUNTERS = ['tree_ok_evals', 'steps_ok', 'steps_rejected']
ASSUMPTIONS = [
    'only public API is observed (sym_parent, sym_path, sym_items, sym_get, sym_root)',
    'self-containing values (a root inserted below itself) are not generated',
    'after a violation the forest is replaced by a deep clone and the history continues',
]


def setup(ctx):
  ctx.notes['unclassified_public_methods'] = O.unclassified_public_methods()
  if ctx.notes['unclassified_public_methods'] and ctx.shard == 0:
    print('WARNING: public methods neither in the mutator table nor reviewed as '
          'read-only:', ctx.notes['unclassified_public_methods'])


def cases(ctx):
  return ctx.params['cases']


heal = H.deep_copy_forest


def run_case(ctx, i):
  rng = ctx.rng
  descs, forest = H.make_forest(rng)
  seen = {}
  c = ctx.counters
  first = TM.tree_ok(forest, seen, c)
  c['tree_ok_evals'] += 1
  for clause, detail in first:
    ctx.violation(clause, 'construction', detail, {'forest': descs})
  trace, ok_steps = [], 0
  n_steps = rng.randint(ctx.params['steps'] // 2, ctx.params['steps'])
  for _ in range(n_steps):
    step = H.gen_step(rng, forest)
    if step is None:
      break
    before = TM.shape(forest)
    pre = H.deep_copy_forest(forest) if H.notify_suppressed(step) else None
    ctx.label = step['op']
    status, result, problems = H.apply_step(forest, seen, step, c)
    ctx.label = None
    c['op:' + step['op']] += 1
    if status == 'ok':
      c['steps_ok'] += 1
    else:
      c['steps_rejected'] += 1
      c['rejected:' + type(result).__name__] += 1
    c['tree_ok_evals'] += 1
    trace.append(O.show_step(step) + (' -> ' + type(result).__name__
                                      if status == 'raise' else ''))
    if status == 'ok' and TM.shape(forest) != before:
      ok_steps += 1
    if problems:
      per = collections.OrderedDict()
      for clause, detail in problems:
        per.setdefault(clause, detail)
      with_notify, decided = set(), False
      if pre is not None:
        # Does the violation need notifications to be off? Re-execute the
        # step on a copy of the pre-state with notifications on.
        seen2 = {}
        if not TM.tree_ok(pre, seen2):
          try:
            _, _, p2 = H.apply_step(pre, seen2, H.without_notify_off(step))
            with_notify, decided = {cl for cl, _ in p2}, True
            c['notify_differential_runs'] += 1
          except Exception:  # pylint: disable=broad-except
            pass
      for clause, detail in per.items():
        mech = H.mechanism(step, status,
                           decided and clause not in with_notify)
        ctx.violation(clause, mech, f'after step {len(trace)}: {trace[-1]}\n{detail}',
                      {'forest': descs, 'history': trace[-12:]})
      forest[:] = heal(forest)
      seen.clear()
      c['heals'] += 1
      if TM.tree_ok(forest, seen):
        c['abandoned_histories'] += 1
        break
    if H.total_size(forest) > 400:
      break
  ctx.seen('final_shapes', TM.shape(forest))
  if ok_steps >= 3:
    ctx.mark_nontrivial((tuple(t.split('(')[0].split('.', 1)[-1] for t in trace),
                         TM.shape(forest)))
  if i < 2:
    ctx.sample({'forest': [str(d)[:300] for d in descs], 'history': trace[:12]})
