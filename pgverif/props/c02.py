"""C02 — pg.List / pg.Dict vs built-in list / dict under every mutation history."""
import copy

import pyglove as pg
from pgverif.gen import desc as D
from pgverif.gen import history as H
from pgverif.gen import ops as O
from pgverif.gen import values as V
from pgverif.monitors import refmodel as R

TIERS = {
    'quick': dict(shards=8, cases=125, steps=40),
    'thorough': dict(shards=16, cases=2000, steps=60),
}
RULE = ('case = one value-spec-less pg.List or pg.Dict (0-6 initial members, str '
        'and int keys incl. negative/zero ints and digit-only strings, nested '
        'containers; 40% of the cases a container of containers whose members are '
        'equal / nearly equal rows) and a history of operations from the '
        'whole list/dict API (indices/slices in [-len-2, len+2], steps in '
        '{None,1,2,3,-1,-2}) applied to it or to a nested container, plus '
        'multi-path rebinds from a common ancestor that edit several member '
        'containers at once (the same or independent deletions / insertions / '
        'replacements / appends per member), each step with change notification '
        'on, off (pg.notify_on_change(False)) or skip_notification=True; mirrored '
        'on a built-in (nested) list/dict; outcome and all read paths (incl. the '
        'JSON value and JSON string round trips) of the root and of one nested '
        'container compared after every step. Non-trivial = at least 5 steps '
        'changed the container; distinct by (operation sequence, final contents).')
REQUIRED_COUNTERS = ['steps', 'read_checks', 'outcome_both_raise', 'outcome_both_ok',
                     'steps_notify_off', 'multi_member_rebinds', 'multi_member_rebinds_notify_off',
                     'nested_read_rounds']
ASSUMPTIONS = [
    'CPython list/dict semantics are the reference',
    'documented extensions are modelled: MISSING_VALUE deletes, rebind past the end appends, Insertion inserts, plain containers become symbolic',
    'a batch rebind never has two targets past the end of one list, nor a target that is a prefix of another (unspecified order)',
    'NaN is not used as a value (identity vs equality is not part of the claim)',
    'several writes of one batch into a list other than the rebind receiver contain no Insertion and no index past the end (positions relative to the call-time list only then)',
    'change notification (scope flag, skip_notification, notify_parents) is not part of container semantics: the same reference applies',
    'JSON marker collisions (str keys starting with n_:, the key _type, a list starting with the str __tuple__) are C05 findings and not generated',
]


def leaf(rng):
  r = rng.random()
  if r < 0.55:
    return rng.randint(0, 9)
  if r < 0.75:
    return rng.choice(['a', 'b', 'c', '', 'a.b', '[0]', '0'])
  if r < 0.83:
    return None
  if r < 0.9:
    return rng.random() < 0.5
  return rng.choice([0.5, -1.5, 2.0])


def keygen(rng):
  r = rng.random()
  if r < 0.6:
    return rng.choice(V.SAFE_KEYS)
  if r < 0.85:
    return rng.choice([0, 0, 1, 2, 3, -1, -1, -2, -3, -12, 10, 255])
  return rng.choice(['0', '1', '-1', '00', '12', 'x y', 'é', 'a-b', 'a.b', 'p.q', '[0]',
                     'a[1]'])


def vary_key(rng, k):
  """Widens the int keys the shared generators draw (0..4) to negative ints
  and to digit-only strings."""
  if isinstance(k, int) and not isinstance(k, bool):
    r = rng.random()
    if r < 0.3:
      return -k - (1 if r < 0.15 else 0)
    if r < 0.38:
      return str(k) if r < 0.34 else str(-k)
  return k


def vary_keys_in_desc(rng, d):
  if d[0] in ('D', 'd'):
    items, seen = [], []
    orig = [kk for kk, _ in d[1]]
    for k, v in d[1]:
      k2 = vary_key(rng, k)
      if k2 != k and (k2 in seen or k2 in orig):
        k2 = k
      seen.append(k2)
      items.append([k2, vary_keys_in_desc(rng, v)])
    return [d[0], items] + list(d[2:])
  if d[0] in ('L', 'l'):
    return [d[0], [vary_keys_in_desc(rng, v) for v in d[1]]] + list(d[2:])
  if d[0] == 'ins':
    return ['ins', vary_keys_in_desc(rng, d[1])]
  return d


def row_leaf(rng):
  """Few distinct values: rows of a table are often equal."""
  r = rng.random()
  if r < 0.8:
    return rng.randint(0, 4)
  return rng.choice(['a', 'b', None, True, 0.5])


def gen_row(rng, depth=0):
  r = rng.random()
  if r < 0.6 or depth >= 1:
    return [rng.choice('Ll'), [['v', row_leaf(rng)] for _ in range(rng.randint(1, 4))]]
  if r < 0.8:
    ks = rng.sample(['a', 'b', 'c', 0, 1, -1, '0'], rng.randint(1, 3))
    return [rng.choice('Dd'), [[k, ['v', row_leaf(rng)]] for k in ks]]
  first = gen_row(rng, depth + 1)
  return [rng.choice('Ll'), [row_variant(rng, first, depth + 1)
                             for _ in range(rng.randint(2, 3))]]


def row_variant(rng, row, depth=0):
  """An equal copy of `row`, a copy that differs in one member, or a new row."""
  r = rng.random()
  if r < 0.5:
    return copy.deepcopy(row)
  if r < 0.8 and row[1]:
    new = copy.deepcopy(row)
    i = rng.randrange(len(new[1]))
    if row[0] in 'Dd':
      new[1][i][1] = ['v', row_leaf(rng)]
    elif new[1][i][0] == 'v':
      new[1][i] = ['v', row_leaf(rng)]
    return new
  return gen_row(rng, depth)


def initial_table(rng):
  """A container whose members are (often equal) containers."""
  n = rng.randint(2, 5)
  first = gen_row(rng)
  rows = [first] + [row_variant(rng, first) for _ in range(n - 1)]
  if rng.random() < 0.3:
    rows.insert(rng.randint(0, len(rows)), ['v', leaf(rng)])
  if rng.random() < 0.5:
    return ['L', rows]
  ks = []
  while len(ks) < len(rows):
    k = keygen(rng)
    if k not in ks:
      ks.append(k)
  return ['D', [[k, r] for k, r in zip(ks, rows)]]


def initial(rng):
  if rng.random() < 0.4:
    return initial_table(rng)
  kind = rng.choice(['L', 'D'])
  n = rng.randint(0, 6)
  def val(d):
    r = rng.random()
    if d >= 2 or r < 0.6:
      return ['v', leaf(rng)]
    m = rng.randint(0, 3)
    if r < 0.8:
      ks = []
      for _ in range(m):
        k = keygen(rng)
        if k not in ks:
          ks.append(k)
      return [rng.choice('Dd'), [[k, val(d + 1)] for k in ks]]
    return [rng.choice('Ll'), [val(d + 1) for _ in range(m)]]
  if kind == 'L':
    return ['L', [val(0) for _ in range(n)]]
  ks = []
  for _ in range(n):
    k = keygen(rng)
    if k not in ks:
      ks.append(k)
  return ['D', [[k, val(0)] for k in ks]]


class Values:
  """Operand source for C02 (plain and symbolic containers, aliases)."""

  def __init__(self, forest, target):
    self.forest, self.target = forest, target

  def __call__(self, rng, node, key):
    r = rng.random()
    if r < 0.1:
      # Ancestors-or-self of the target are excluded: when such a value is
      # copied relative to the other writes of the same call is unspecified.
      cands = [(ri, ks) for ri, ks, n in H.all_nodes(self.forest)
               if ks and not H.is_prefix(ks, self.target[1])]
      if cands:
        ri, ks = rng.choice(cands)
        return ['node', ri, ks]
    if r < 0.6:
      return ['v', leaf(rng)]
    return vary_keys_in_desc(rng, D.gen(rng, 2, leaf=leaf, classes=(), typed=False,
                                        leaves=False, int_keys=True))


def rebind_ok(step, node):
  """Filters batches whose outcome the property leaves open."""
  if step['op'] != 'rebind':
    return True
  tails = {}
  ups = step['args']['updates']
  if len(ups) > 1:
    # Unspecified within one batch: when an aliased operand is copied relative
    # to the other writes, and whether paths through a list refer to positions
    # before or after an insertion/deletion of the same batch.
    if any(v[0] == 'node' or (v[0] == 'ins' and v[1][0] == 'node') for _, v in ups):
      return False
    for rel, v in ups:
      if v[0] in ('ins', 'missing') and isinstance(O.node_at(node, rel[:-1]), pg.List):
        p = rel[:-1]
        if any(len(r2) > len(p) + 1 and r2[:len(p)] == p for r2, _ in ups):
          return False
        # Several writes into one list are applied relative to the original
        # positions only when rebind is called on that list itself, or when
        # none of them inserts or appends (a deletion keeps its position
        # until the whole batch is applied).
        same = [(r2, v2) for r2, v2 in ups if r2[:-1] == p]
        if p and len(same) > 1 and any(
            v2[0] == 'ins' or r2[-1] >= len(O.node_at(node, p)) for r2, v2 in same):
          return False
  for rel, v in ups:
    parent = O.node_at(node, rel[:-1])
    if isinstance(parent, pg.List) and isinstance(rel[-1], int) and rel[-1] >= len(parent):
      tails[id(parent)] = tails.get(id(parent), 0) + 1
    # A list receiver applies its batch in reverse path order (documented), so
    # the relative order of two keys it adds to one dict is left open as well.
    if (isinstance(node, pg.List) and isinstance(parent, pg.Dict)
        and v[0] != 'missing' and not parent.sym_hasattr(rel[-1])):
      tails[id(parent)] = tails.get(id(parent), 0) + 1
    if isinstance(parent, pg.Dict) and v[0] == 'ins':
      return False
    if isinstance(rel[-1], str) and not rel[-1].isidentifier() and step['args']['style'] == 'raw':
      return False          # a raw str key is parsed as a path by rebind (documented)
  return all(c <= 1 for c in tails.values())


def member_containers(node, max_depth=2):
  """Relative key sequences of the containers below `node` (depth 1..max)."""
  out = []
  def walk(n, prefix, depth):
    for k, c in n.sym_items():
      if isinstance(c, (pg.List, pg.Dict)):
        out.append(prefix + [k])
        if depth < max_depth:
          walk(c, prefix + [k], depth + 1)
  walk(node, [], 1)
  return out


def gen_member_edit(rng, g, cont, rel, kind, pos):
  """Writes (relative to the ancestor) that edit one member container."""
  if isinstance(cont, pg.List):
    n = len(cont)
    i = min(pos, n - 1) if pos is not None else (rng.randrange(n) if n else 0)
    if kind == 'app' or n == 0:
      return [[rel + [n + rng.choice([0, 0, 2])], g.value(cont, 0)]]
    if kind == 'del':
      return [[rel + [i], ['missing']]]
    if kind == 'ins':
      return [[rel + [i], ['ins', g.value(cont, 0)]]]
    if kind == 'del2' and n >= 2:
      idxs = sorted(rng.sample(range(n), rng.randint(2, min(3, n))))
      return [[rel + [j], ['missing'] if rng.random() < 0.8 else g.value(cont, 0)]
              for j in idxs]
    return [[rel + [i], g.value(cont, 0)]]
  keys = list(cont.sym_keys())
  if kind in ('del', 'del2') and keys:
    k = keys[min(pos, len(keys) - 1)] if pos is not None else rng.choice(keys)
    return [[rel + [k], ['missing']]]
  if keys and rng.random() < 0.6:
    k = keys[min(pos, len(keys) - 1)] if pos is not None else rng.choice(keys)
  else:
    k = keygen(rng)
  return [[rel + [k], g.value(cont, k)]]


def gen_multi_rebind(rng, forest):
  """One rebind from a common ancestor that edits several member containers
  (siblings, cousins, nested ones) in a single batch."""
  cands = []
  for ridx, keys, node in H.all_nodes(forest):
    if isinstance(node, (pg.List, pg.Dict)):
      ms = member_containers(node)
      if len(ms) >= 2:
        cands.append((ridx, keys, node, ms))
  if not cands:
    return None
  roots = [c for c in cands if not c[1]]
  ridx, keys, node, ms = rng.choice(roots if roots and rng.random() < 0.6 else cands)
  depth = rng.choice(sorted({len(m) for m in ms}))
  level = [m for m in ms if len(m) == depth]
  if len(level) < 2 or rng.random() < 0.15:
    level = ms
  rng.shuffle(level)
  chosen = O.no_prefix_pairs(level)[:rng.randint(2, 4)]
  if len(chosen) < 2:
    return None
  g = O.GenEnv(rng, Values(forest, (ridx, keys)), forest)
  kinds = ['del', 'del', 'ins', 'set', 'app', 'del2']
  same = rng.random() < 0.6
  kind, pos = rng.choice(kinds), rng.choice([None, 0, 0, 1, 2])
  shared = g.value(None, None) if rng.random() < 0.5 else None
  ups = []
  for rel in chosen:
    if not same:
      kind, pos = rng.choice(kinds), None
    for r2, v in gen_member_edit(rng, g, O.node_at(node, rel), rel, kind, pos):
      if same and shared is not None and v[0] not in ('missing', 'node'):
        v = ['ins', shared] if v[0] == 'ins' else shared
      ups.append([r2, v])
  if rng.random() < 0.2:
    # ... together with an ordinary write somewhere else below the ancestor.
    extra = rng.choice(O.rel_targets(node, rng))
    if not any(extra[:len(r)] == r or r[:len(extra)] == extra for r, _ in ups):
      ups.append([extra, g.value(None, None)])
  rng.shuffle(ups)
  return {'op': 'rebind', 'at': [ridx, keys], 'multi': True,
          'args': {'updates': ups, 'opts': {}, 'form': 'dict',
                   'style': rng.choice(['raw', 'keypath', 'str']),
                   'api': rng.choice(['rebind', 'rebind', 'sym_rebind'])}}


def vary_arg_keys(rng, name, args):
  """Negative int / digit-only str keys for the dict operations."""
  if not name.startswith('Dict.') or name in ('Dict.__setattr__', 'Dict.__delattr__'):
    return
  if 'k' in args:
    args['k'] = vary_key(rng, args['k'])
  if 'items' in args:
    ks = [k for k, _ in args['items']]
    for it in args['items']:
      k2 = vary_key(rng, it[0])
      if k2 != it[0] and k2 not in ks:
        ks[ks.index(it[0])] = k2
        it[0] = k2


def gen_step(rng, forest, p_multi=0.0):
  step = None
  if rng.random() < p_multi:
    for _ in range(5):
      step = gen_multi_rebind(rng, forest)
      if step is None:
        break
      node = D.resolve(forest, *step['at'])
      if rebind_ok(step, node):
        break
      step = None
  nodes = H.all_nodes(forest)
  for _ in range(30):
    if step is not None:
      break
    ridx, keys, node = rng.choice(nodes)
    cands = [o for o in O.ops_for(node, ('mutate', 'new')) if o.name in R.MODEL_OPS]
    o = rng.choice(cands)
    g = O.GenEnv(rng, Values(forest, (ridx, keys)), forest)
    args = o.gen(g, node)
    if args is None:
      continue
    vary_arg_keys(rng, o.name, args)
    step = {'op': o.name, 'at': [ridx, keys], 'args': args}
    if o.name == 'rebind':
      args['opts'] = {}
      if not rebind_ok(step, node):
        step = None
  if step is None:
    return None
  # Change notification is not part of the container semantics: every
  # operation is also driven with notification off.
  step['scopes'] = ['notify_off'] if rng.random() < 0.2 else []
  if step['op'] == 'rebind':
    if rng.random() < 0.25:
      step['args']['opts']['skip_notification'] = True
    if rng.random() < 0.1:
      step['args']['opts']['notify_parents'] = False
  return step


def model_execute(model, step):
  node = model[step['at'][0]]
  for k in step['at'][1]:
    node = node[k]
  BP = lambda d: R.build_plain(d, model)
  try:
    return 'ok', R.MODEL_OPS[step['op']](node, step['args'], BP), node
  except Exception as e:  # pylint: disable=broad-except
    return 'raise', e, node


def read_checks(ctx, rng, root, m, json_paths=True):
  """All read paths of the symbolic container must agree with the model.

  Returns [(clause, detail)]; clause 'contents' means the stored state itself
  differs, any other clause names the read path that disagrees with it."""
  bad = []
  c = ctx.counters

  def chk(name, real_fn, model_fn, detail=''):
    """Both sides are evaluated; values or exception classes must agree."""
    c['read_checks'] += 1
    try:
      exp = ('ok', model_fn())
    except Exception as e:  # pylint: disable=broad-except
      exp = ('raise', R.error_class(e))
    try:
      got = ('ok', R.to_plain(real_fn()))
    except Exception as e:  # pylint: disable=broad-except
      got = ('raise', R.error_class(e))
    ok = exp[0] == got[0] and (R.same(exp[1], got[1]) if exp[0] == 'ok'
                               else exp[1] == got[1])
    if not ok:
      bad.append((name, f'{detail} expected {exp!r:.200} got {got!r:.200}'))

  chk('contents', lambda: root, lambda: m)
  if bad:
    return bad
  chk('len', lambda: len(root), lambda: len(m))
  chk('eq-plain', lambda: ((root == m), (m == root), (root != m)),
      lambda: (True, True, False))
  chk('to_json', lambda: pg.to_json(root), lambda: m)
  if json_paths:
    # JSON conversion agrees with the reference: what is written can be read
    # back as the same container (contents, order, key types), both through
    # JSON values and through the JSON string.
    def back(v):
      if not isinstance(v, type(root)):
        raise AssertionError(f'read back as {type(v).__name__}')
      return v, (v == m), (v == root)
    form = rng.choice(['pg', 'method'])
    chk('json-roundtrip',
        lambda: back(pg.from_json(pg.to_json(root) if form == 'pg' else root.to_json())),
        lambda: (m, True, True))
    chk('json-str-roundtrip',
        lambda: back(pg.from_json_str(pg.to_json_str(root) if form == 'pg'
                                      else root.to_json_str())),
        lambda: (m, True, True))
  if isinstance(m, list):
    chk('iter', lambda: [x for x in root], lambda: m)
    chk('list()', lambda: list(root), lambda: m)
    for _ in range(3):
      a, b = rng.randint(-len(m) - 2, len(m) + 2), rng.randint(-len(m) - 2, len(m) + 2)
      st = rng.choice([None, 1, 2, -1, -2, 3])
      sl = slice(rng.choice([None, a]), rng.choice([None, b]), st)
      chk('slice', lambda: root[sl], lambda: m[sl], f'{sl}')
    for i in range(-len(m) - 1, len(m) + 1):
      chk('getitem', lambda: root[i], lambda: m[i], f'[{i}]')
    for p in list(m[:3]) + ['__absent__', 99]:
      chk('in', lambda: p in root, lambda: p in m, f'{p!r}')
      chk('count', lambda: root.count(p), lambda: m.count(p), f'{p!r}')
      chk('index', lambda: root.index(p), lambda: m.index(p), f'{p!r}')
  else:
    chk('keys', lambda: (list(root.keys()), list(root)),
        lambda: (list(m.keys()), list(m)))
    chk('dict()', lambda: dict(root), lambda: m)
    chk('values', lambda: list(root.values()), lambda: list(m.values()))
    chk('items', lambda: [(k, v) for k, v in root.items()],
        lambda: [(k, v) for k, v in m.items()])
    for k in list(m.keys())[:4] + ['__absent__', 77]:
      chk('in', lambda: k in root, lambda: k in m, f'{k!r}')
      chk('get', lambda: root.get(k, 'dflt'), lambda: m.get(k, 'dflt'), f'{k!r}')
      chk('getitem', lambda: root[k], lambda: m[k], f'[{k!r}]')
  return bad


def cases(ctx):
  return ctx.params['cases']


def sym_of(m):
  m = copy.deepcopy(m)
  return pg.List(m) if isinstance(m, list) else pg.Dict(m)


def needs_notify_off(step, before):
  """True when `step` applied to the contents `before` agrees with the model
  once change notification is left on (the mechanism is then '@notify_off')."""
  if not H.notify_suppressed(step):
    return False
  try:
    fresh, m2 = [sym_of(before)], [copy.deepcopy(before)]
    s2 = H.without_notify_off(step)
    ms, mres, _ = model_execute(m2, s2)
    st, res = O.execute(fresh, s2)
    if ms != st:
      return False
    if st == 'raise' and R.error_class(res) != R.error_class(mres):
      return False
    return R.same(R.to_plain(fresh[0]), m2[0])
  except Exception:  # pylint: disable=broad-except
    return False


def nested_pair(rng, root, m):
  """A random nested container with its model counterpart (or None)."""
  nodes = [(n, keys) for n, keys in H.TM.nodes_of(root)
           if keys and isinstance(n, (pg.List, pg.Dict))]
  if not nodes:
    return None
  n, keys = rng.choice(nodes)
  try:
    for k in keys:
      m = m[k]
  except (KeyError, IndexError, TypeError):
    return None
  if type(m) is not (list if isinstance(n, pg.List) else dict):
    return None
  return n, m


def run_case(ctx, i):
  rng = ctx.rng
  c = ctx.counters
  d0 = initial(rng)
  table = d0[1] and all(x[0] in 'LlDd' for x in (
      d0[1] if d0[0] == 'L' else [v for _, v in d0[1]]))
  p_multi = 0.35 if rng.random() < 0.5 or table else 0.08
  forest = [D.build(d0)]
  model = [R.build_plain(d0, None)]
  trace, changed = [], 0
  for clause, detail in read_checks(ctx, rng, forest[0], model[0]):
    ctx.violation('read-' + clause, 'construction' if clause == 'contents' else 'read-path',
                  detail, {'initial': D.show(d0)})
    return
  n_steps = rng.randint(ctx.params['steps'] // 2, ctx.params['steps'])
  for _ in range(n_steps):
    step = gen_step(rng, forest, p_multi)
    if step is None:
      break
    before = copy.deepcopy(model[0])
    mstatus, mres, mnode = model_execute(model, step)
    ctx.label = step['op']
    status, res = O.execute(forest, step)
    ctx.label = None
    c['steps'] += 1
    c['op:' + step['op']] += 1
    if H.notify_suppressed(step):
      c['steps_notify_off'] += 1
    if step.get('multi'):
      c['multi_member_rebinds'] += 1
      if H.notify_suppressed(step):
        c['multi_member_rebinds_notify_off'] += 1
    trace.append(O.show_step(step))
    witness = lambda: {'initial': D.show(d0), 'history': trace[-15:]}
    problem = None
    if mstatus != status:
      problem = ('outcome', f'model: {mstatus} {mres!r:.200}; symbolic: {status} {res!r:.300}')
    elif status == 'raise':
      c['outcome_both_raise'] += 1
      if R.error_class(res) != R.error_class(mres):
        problem = ('error-class', f'model raised {type(mres).__name__}, symbolic raised '
                   f'{type(res).__name__}: {res!s:.200}')
    else:
      c['outcome_both_ok'] += 1
      if step['op'] in R.RETURNS_SELF:
        node = D.resolve(forest, *step['at'])
        if step['op'] != 'rebind[fn]' and res is not node:
          problem = ('result', f'in-place operation returned {type(res).__name__} '
                     'which is not the target')
      elif O.OPS[step['op']].effect == 'new':
        if not R.same(R.to_plain(res), mres):
          problem = ('result', f'model {mres!r:.200} symbolic {R.to_plain(res)!r:.200}')
        elif step['op'] != 'Dict.__or__' and not isinstance(res, (pg.List, pg.Dict)):
          problem = ('result', f'copy is a {type(res).__name__}')
      elif not R.same(R.to_plain(res), mres):
        problem = ('result', f'model returned {mres!r:.200}, symbolic {R.to_plain(res)!r:.200}')
    bad = read_checks(ctx, rng, forest[0], model[0], json_paths=rng.random() < 0.5)
    if not bad:
      # The same read paths on a nested container (it is a list/dict too).
      pair = nested_pair(rng, forest[0], model[0])
      if pair is not None:
        c['nested_read_rounds'] += 1
        bad = [(cl, 'nested container: ' + dt) for cl, dt in
               read_checks(ctx, rng, pair[0], pair[1], json_paths=rng.random() < 0.25)]
    mech = step['op']
    if (problem or any(cl == 'contents' for cl, _ in bad)) and needs_notify_off(step, before):
      mech += '@notify_off'
    if problem:
      ctx.violation(problem[0], mech, f'step {len(trace)}: {trace[-1]}\n{problem[1]}', witness())
    seen_clause = set()
    for clause, detail in bad:
      if clause not in seen_clause:
        seen_clause.add(clause)
        # The stored state differs: attribute to the operation. The state is
        # right but a read path disagrees with it: attribute to the read path.
        ctx.violation('read-' + clause, mech if clause == 'contents' else 'read-path',
                      f'step {len(trace)}: {trace[-1]}\n{detail}', witness())
    if problem or bad:
      # heal: re-synchronise the symbolic side from the model
      forest[0] = sym_of(model[0])
      c['heals'] += 1
      if read_checks(ctx, rng, forest[0], model[0]):
        c['abandoned'] += 1
        break
    if not R.same(before, model[0]):
      changed += 1
    if H.total_size(forest) > 300:
      break
  if changed >= 5:
    ctx.mark_nontrivial((tuple(t.split('(')[0].split('.', 1)[-1] for t in trace), repr(model[0])))
  ctx.seen('final_contents', repr(model[0]))
  if i < 2:
    ctx.sample({'initial': D.show(d0), 'history': trace[:10], 'final': repr(model[0])[:300]})
