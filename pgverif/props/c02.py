"""C02 — pg.List / pg.Dict vs built-in list / dict under every mutation history."""
import collections
import copy
import enum
import json
import math
import operator
import random
import types

import pyglove as pg
from pgverif.gen import desc as D
from pgverif.gen import history as H
from pgverif.gen import ops as O
from pgverif.gen import values as V
from pgverif.monitors import refmodel as R

TIERS = {
    'quick': dict(shards=8, cases=125, steps=40),
    'thorough': dict(shards=16, cases=2000, steps=60),
}
RULE = ('case = one value-spec-less pg.List or pg.Dict (0-6 initial members, str '
        'and int keys incl. negative/zero ints and digit-only strings, nested '
        'containers; 40% of the cases a container of containers whose members are '
        'equal / nearly equal rows) and a history of operations from the '
        'whole list/dict API (indices/slices in [-len-2, len+2], steps in '
        '{None,1,2,3,-1,-2}) applied to it or to a nested container, plus '
        'multi-path rebinds from a common ancestor that edit several member '
        'containers at once (the same or independent deletions / insertions / '
        'replacements / appends per member), each step with change notification '
        'on, off (pg.notify_on_change(False)) or skip_notification=True; mirrored '
        'on a built-in (nested) list/dict; outcome and all read paths (incl. the '
        'JSON value and JSON string round trips) of the root and of one nested '
        'container compared after every step. OPERAND FORMS: every plain container '
        'written (initial members, operands at any depth) is a built-in dict/list or, 35% '
        'each, an instance of a dict/list SUBCLASS (OrderedDict, defaultdict, user '
        'classes Rec(dict), Row(list)); sequence / mapping arguments of the constructors, '
        'extend, +=, slice assignment, +, update, |=, | come as every kind Python accepts '
        'there (list, tuple, generator, iterator, list subclass; dict, dict subclasses, '
        'MappingProxyType, UserDict, pairs as list/tuple/lists/generator/zip, kwargs '
        'mixes). After every step reads go THROUGH the stored members: each member that is '
        'a container in the reference must be a pg.Dict / pg.List (documented extension), '
        'nested locations are read by path (sym_get with KeyPath / str, KeyPath.query, '
        'chained []), and the step after a write of a member container is with 35% (else '
        '8%) a rebind with one or several paths of depth >= 2 drawn from the reference, '
        'through the member just written, issued on the root or an ancestor. LEAVES: half of the '
        'cases JSON primitives only; the others add (10-35% of the leaves) the SAME objects on '
        'both sides of one hostile-equality family (== true for everything / a truthy non-bool; '
        'never equal, NaN, a falsy non-bool; == raises or has no truth value; equal to itself '
        'only) compared by IDENTITY with the reference, and / or instances of subclasses of the '
        'JSON primitives (IntEnum, IntFlag, str-valued Enum, user int / str / float subclasses) '
        'whose JSON value and JSON TEXT are compared leaf by leaf with json.dumps of the '
        'reference (1 is not 1.0, "a" is not an opaque object). KEYS: 30% of the cases also draw '
        'one class of unusual keys (bool; IntEnum / user int subclass; the empty str and strs '
        'with unbalanced brackets). Results that the reference takes from its members '
        '(setdefault, pop, popitem; get / values / items / iteration) must be the stored member '
        'itself; remove() is aimed at special leaves. A disagreement is attributed to a class '
        'of special leaf / key only by the counterfactual run with ordinary stand-ins. '
        'Non-trivial = at least 5 steps '
        'changed the container; distinct by (operation sequence, final contents).')
REQUIRED_COUNTERS = ['steps', 'read_checks', 'outcome_both_raise', 'outcome_both_ok',
                     'steps_notify_off', 'multi_member_rebinds', 'multi_member_rebinds_notify_off',
                     'nested_read_rounds', 'member_symbolic_checks', 'path_read_checks',
                     'through_rebinds', 'through_rebinds_multi_path',
                     'through_rebinds_into_just_written_member',
                     'steps_dict-subclass-operand', 'steps_list-subclass-operand',
                     'steps_iterable-argument', 'steps_mapping-argument',
                     'steps_pairs-argument', 'steps_dict-subclass-argument',
                     'cases_hostile_eq_leaves', 'cases_subclass_leaves', 'cases_unusual_keys',
                     'read_rounds_hostile_leaf', 'json_text_checks', 'result_identity_checks']
ASSUMPTIONS = [
    'CPython list/dict semantics are the reference',
    'documented extensions are modelled: MISSING_VALUE deletes, rebind past the end appends, Insertion inserts, plain containers become symbolic',
    'a batch rebind never has two targets past the end of one list, nor a target that is a prefix of another (unspecified order)',
    'a leaf with a hostile == (incl. NaN) is the same object on both sides and compared by identity; '
    'for containers holding one, == with the plain container and the JSON read-outs are not compared '
    '(json does not accept it), and a search by value (in, count, index, remove) is not issued when it '
    'would be decided by how a member CONTAINER answers == about a leaf that claims to equal '
    'everything or raises',
    'which of several equal int-like objects (1, True, an IntEnum member) a dict keeps as the key, and '
    'whether a subclass instance read back from the JSON value form keeps its class, are open; the '
    'spelling of int keys in the JSON text is the library\'s (members are compared in order)',
    'several writes of one batch into a list other than the rebind receiver contain no Insertion and no index past the end (positions relative to the call-time list only then)',
    'change notification (scope flag, skip_notification, notify_parents) is not part of container semantics: the same reference applies',
    'only instances of dict / list subclasses count as plain containers that become symbolic '
    '(isinstance, as documented); other mappings / sequences (UserDict, MappingProxyType, '
    'tuple, generators) are used as ARGUMENTS that are iterated, never as stored members',
    'list + non-list and dict | non-dict are TypeErrors of the reference and not generated '
    '(not index/key errors); a through-path rebind has one write per member container, no '
    'insertion / deletion inside a list',
    'JSON marker collisions (str keys starting with n_:, the key _type, a list starting with the str __tuple__) are C05 findings and not generated',
]


# ---------------------------------------------------------------------------
# SPECIAL LEAVES. Python's list / dict store ANY object; what they do with it is
# defined by identity first, `==` second. Two classes of leaves a user can hand
# over beside the JSON primitives:
#   * objects with an unusual `__eq__` (wildcard matchers such as
#     unittest.mock.ANY, array-likes whose == is element-wise, NaN, objects whose
#     comparison raises): the reference holds the SAME objects, and the harness
#     compares such leaves by identity only (their == is meaningless);
#   * instances of SUBCLASSES of the JSON primitives (IntEnum, IntFlag, a
#     str-valued Enum, user subclasses of int / str / float): json.dumps accepts
#     them, so the JSON read-out is compared with the reference's JSON text.

class EqError(Exception):
  """Raised by the comparison of a leaf whose == cannot be evaluated."""


class Mask(list):
  """The non-bool result of an element-wise comparison."""


class Ambiguous:
  """Result of a comparison whose truth value is ambiguous (as numpy's arrays)."""

  def __bool__(self):
    raise EqError('the truth value of an element-wise comparison is ambiguous')


class XLeaf:
  """A leaf with its own idea of equality; one object per name (copies and
  pickles are the object itself, as for any sentinel)."""
  family = None

  def __init__(self, name):
    self.name = name

  def __repr__(self):
    return self.name

  __hash__ = object.__hash__

  def __copy__(self):
    return self

  def __deepcopy__(self, memo):
    return self

  def __reduce__(self):
    return (_xleaf, (self.name,))


def _xleaf(name):
  return XL[name]


class AlwaysEq(XLeaf):               # unittest.mock.ANY, wildcard matchers
  family = 'permissive-eq-leaf'
  def __eq__(self, other): return True
  def __ne__(self, other): return False
  __hash__ = object.__hash__


class TruthyEq(XLeaf):               # == gives a non-empty, non-bool answer
  family = 'permissive-eq-leaf'
  def __eq__(self, other): return Mask([True])
  def __ne__(self, other): return Mask()
  __hash__ = object.__hash__


class NeverEq(XLeaf):                # not even equal to itself
  family = 'irreflexive-eq-leaf'
  def __eq__(self, other): return False
  def __ne__(self, other): return True
  __hash__ = object.__hash__


class FalsyEq(XLeaf):                # == gives an empty, non-bool answer
  family = 'irreflexive-eq-leaf'
  def __eq__(self, other): return Mask()
  def __ne__(self, other): return Mask([True])
  __hash__ = object.__hash__


class RaisingEq(XLeaf):              # comparison with anything raises
  family = 'raising-eq-leaf'
  def __eq__(self, other): raise EqError(f'{self.name} == ...')
  def __ne__(self, other): raise EqError(f'{self.name} != ...')
  __hash__ = object.__hash__


class AmbiguousEq(XLeaf):            # the answer of == has no truth value
  family = 'raising-eq-leaf'
  def __eq__(self, other): return Ambiguous()
  def __ne__(self, other): return Ambiguous()
  __hash__ = object.__hash__


class SelfEq(XLeaf):                 # sane: equal to itself only
  family = 'identity-eq-leaf'
  def __eq__(self, other): return self is other
  def __ne__(self, other): return self is not other
  __hash__ = object.__hash__


class Color(enum.IntEnum):
  RED = 1
  GREEN = 2
  BLUE = 7


class Perm(enum.IntFlag):
  R = 4
  W = 2
  X = 1


class Tag(str, enum.Enum):
  A = 'a'
  ID = 'id-1'


class Int(int):
  def __repr__(self): return f'Int({int(self)})'


class IntK(int):
  """A user subclass of int (used as a dict key; it prints as the number)."""


class Str(str):
  def __repr__(self): return f'Str({str.__str__(self)!r})'


class Flt(float):
  def __repr__(self): return f'Flt({float(self)!r})'


NAN = float('nan')
XL = {x.name: x for x in (
    AlwaysEq('ANY1'), AlwaysEq('ANY2'), TruthyEq('MASKED1'), TruthyEq('MASKED2'),
    NeverEq('NEVER1'), NeverEq('NEVER2'), FalsyEq('UNMASKED1'),
    RaisingEq('RAISES1'), RaisingEq('RAISES2'), AmbiguousEq('AMBIG1'),
    SelfEq('SELF1'), SelfEq('SELF2'))}
HOSTILE_PALETTES = {
    'permissive-eq-leaf': [XL['ANY1'], XL['ANY2'], XL['MASKED1'], XL['MASKED2']],
    'irreflexive-eq-leaf': [XL['NEVER1'], XL['NEVER2'], XL['UNMASKED1'], NAN, NAN],
    'raising-eq-leaf': [XL['RAISES1'], XL['RAISES2'], XL['AMBIG1']],
    'identity-eq-leaf': [XL['SELF1'], XL['SELF2']],
}
SUBCLASS_LEAVES = [Color.RED, Color.GREEN, Color.BLUE, Perm.R | Perm.W, Perm.X, Tag.A, Tag.ID,
                   Int(1), Int(7), Int(2 ** 60 + 1), Str('a'), Str('id-1'), Str(''),
                   Flt(2.5), Flt(1.0)]
PRIMS = (type(None), bool, int, float, str)

# What the current case draws from (set by run_case): special leaves, the
# probability of one per leaf, and whether unusual dict keys are drawn.
CASE = {'palette': [], 'p': 0.0, 'xkeys': None}


def leaf_family(v):
  """The class of special leaf `v` is (None for the JSON primitives)."""
  if isinstance(v, XLeaf):
    return v.family
  if isinstance(v, float) and v != v:
    return 'irreflexive-eq-leaf'
  t = type(v)
  if t in PRIMS:
    return None
  for base in (int, float, str):        # bool is a JSON primitive itself
    if isinstance(v, base):
      return base.__name__ + '-subclass-leaf'
  return None


def is_hostile(v):
  return isinstance(v, XLeaf) or (isinstance(v, float) and v != v)


def plain_leaf(rng):
  r = rng.random()
  if r < 0.55:
    return rng.randint(0, 9)
  if r < 0.75:
    return rng.choice(['a', 'b', 'c', '', 'a.b', '[0]', '0'])
  if r < 0.83:
    return None
  if r < 0.9:
    return rng.random() < 0.5
  return rng.choice([0.5, -1.5, 2.0])


def leaf(rng):
  if CASE['palette'] and rng.random() < CASE['p']:
    return rng.choice(CASE['palette'])
  return plain_leaf(rng)


def draw_case_alphabet(rng):
  """Half of the cases use JSON primitives only; the others add special leaves
  of ONE hostile-equality family and / or subclass-of-primitive leaves."""
  CASE.update(palette=[], p=0.0, xkeys=rng.choice(sorted(XKEYS)) if rng.random() < 0.3 else None)
  r = rng.random()
  if r < 0.5:
    return
  pal = []
  if r < 0.8:
    fam = rng.choice(['permissive-eq-leaf', 'permissive-eq-leaf', 'irreflexive-eq-leaf',
                      'irreflexive-eq-leaf', 'raising-eq-leaf', 'identity-eq-leaf'])
    pal += rng.sample(HOSTILE_PALETTES[fam], rng.randint(1, 2))
  if r >= 0.7:
    pal += rng.sample(SUBCLASS_LEAVES, rng.randint(1, 4))
  CASE.update(palette=pal, p=rng.choice([0.1, 0.2, 0.35]))


# UNUSUAL KEYS (30% of the cases, one class per case): a symbolic dict admits str and int keys, hence
# also instances of int subclasses (bool, IntEnum members, user classes), and
# ANY str: the empty one and strings that look like broken key paths.
PATH_SYNTAX_KEYS = ['', 'a[', ']', '[', 'a]b', 'x[0', '[0', '$']
XKEYS = {'path-syntax-key': PATH_SYNTAX_KEYS, 'bool-key': [True, False],
         'int-subclass-key': [Color.RED, Color.GREEN, IntK(3), IntK(12)]}


def key_family(k):
  if type(k) is bool:
    return 'bool-key'
  if isinstance(k, int) and type(k) is not int:
    return 'int-subclass-key'
  if type(k) is str and k in PATH_SYNTAX_KEYS:
    return 'path-syntax-key'
  return None


def xkey(rng):
  return rng.choice(XKEYS[CASE['xkeys']])


def keygen(rng):
  r = rng.random()
  if CASE['xkeys'] and r < 0.2:
    return xkey(rng)
  if r < 0.6:
    return rng.choice(V.SAFE_KEYS)
  if r < 0.85:
    return rng.choice([0, 0, 1, 2, 3, -1, -1, -2, -3, -12, 10, 255])
  return rng.choice(['0', '1', '-1', '00', '12', 'x y', 'é', 'a-b', 'a.b', 'p.q', '[0]',
                     'a[1]'])


def vary_key(rng, k):
  """Widens the keys the shared generators draw (a few identifiers, 0..4) to
  negative ints, digit-only strings and (in cases with unusual keys) to int
  subclass instances and path-syntax strings."""
  if CASE['xkeys'] and rng.random() < 0.12:
    if CASE['xkeys'] == 'path-syntax-key':
      if isinstance(k, str):
        return rng.choice(PATH_SYNTAX_KEYS)
    elif isinstance(k, int) and not isinstance(k, bool):
      if CASE['xkeys'] == 'bool-key':
        return bool(k)
      return rng.choice([IntK(k)] + ([Color(k)] if k in (1, 2, 7) else []))
  if isinstance(k, int) and not isinstance(k, bool):
    r = rng.random()
    if r < 0.3:
      return -k - (1 if r < 0.15 else 0)
    if r < 0.38:
      return str(k) if r < 0.34 else str(-k)
  return k


def vary_keys_in_desc(rng, d):
  if d[0] in ('D', 'd'):
    items, seen = [], []
    orig = [kk for kk, _ in d[1]]
    for k, v in d[1]:
      k2 = vary_key(rng, k)
      if k2 != k and (k2 in seen or k2 in orig):
        k2 = k
      seen.append(k2)
      items.append([k2, vary_keys_in_desc(rng, v)])
    return [d[0], items] + list(d[2:])
  if d[0] in ('L', 'l'):
    return [d[0], [vary_keys_in_desc(rng, v) for v in d[1]]] + list(d[2:])
  if d[0] == 'ins':
    return ['ins', vary_keys_in_desc(rng, d[1])]
  return d


def row_leaf(rng):
  """Few distinct values: rows of a table are often equal."""
  r = rng.random()
  if r < 0.8:
    return rng.randint(0, 4)
  return rng.choice(['a', 'b', None, True, 0.5])


def gen_row(rng, depth=0):
  r = rng.random()
  if r < 0.6 or depth >= 1:
    return [rng.choice('Ll'), [['v', row_leaf(rng)] for _ in range(rng.randint(1, 4))]]
  if r < 0.8:
    ks = rng.sample(['a', 'b', 'c', 0, 1, -1, '0'], rng.randint(1, 3))
    return [rng.choice('Dd'), [[k, ['v', row_leaf(rng)]] for k in ks]]
  first = gen_row(rng, depth + 1)
  return [rng.choice('Ll'), [row_variant(rng, first, depth + 1)
                             for _ in range(rng.randint(2, 3))]]


def row_variant(rng, row, depth=0):
  """An equal copy of `row`, a copy that differs in one member, or a new row."""
  r = rng.random()
  if r < 0.5:
    return copy.deepcopy(row)
  if r < 0.8 and row[1]:
    new = copy.deepcopy(row)
    i = rng.randrange(len(new[1]))
    if row[0] in 'Dd':
      new[1][i][1] = ['v', row_leaf(rng)]
    elif new[1][i][0] == 'v':
      new[1][i] = ['v', row_leaf(rng)]
    return new
  return gen_row(rng, depth)


def initial_table(rng):
  """A container whose members are (often equal) containers."""
  n = rng.randint(2, 5)
  first = gen_row(rng)
  rows = [first] + [row_variant(rng, first) for _ in range(n - 1)]
  if rng.random() < 0.3:
    rows.insert(rng.randint(0, len(rows)), ['v', leaf(rng)])
  if rng.random() < 0.5:
    return ['L', rows]
  ks = []
  while len(ks) < len(rows):
    k = keygen(rng)
    if k not in ks:
      ks.append(k)
  return ['D', [[k, r] for k, r in zip(ks, rows)]]


def initial(rng):
  if rng.random() < 0.4:
    return initial_table(rng)
  kind = rng.choice(['L', 'D'])
  n = rng.randint(0, 6)
  def val(d):
    r = rng.random()
    if d >= 2 or r < 0.6:
      return ['v', leaf(rng)]
    m = rng.randint(0, 3)
    if r < 0.8:
      ks = []
      for _ in range(m):
        k = keygen(rng)
        if k not in ks:
          ks.append(k)
      return [rng.choice('Dd'), [[k, val(d + 1)] for k in ks]]
    return [rng.choice('Ll'), [val(d + 1) for _ in range(m)]]
  if kind == 'L':
    return ['L', [val(0) for _ in range(n)]]
  ks = []
  for _ in range(n):
    k = keygen(rng)
    if k not in ks:
      ks.append(k)
  return ['D', [[k, val(0)] for k in ks]]


# ---------------------------------------------------------------------------
# Operand FORMS. A plain container operand is a dict / list or an instance of
# a SUBCLASS of dict / list (what json.loads(object_pairs_hook=OrderedDict),
# collections.defaultdict or a user class hand over); description:
# ['d', items, form] / ['l', items, form]. The reference treats all of them as
# the dict / list they are. Sequence and mapping ARGUMENTS (extend, +=, slice
# assignment, update, |=, constructors) also come as every kind of iterable /
# mapping / iterable of pairs Python's own list / dict accept there.

class Row(list):
  """A user list subclass."""


class Rec(dict):
  """A user dict subclass."""


DICT_FORMS = ('od', 'dd', 'rec')
LIST_FORMS = ('row',)
P_FORM = 0.35


def mk_dict(form, items):
  if form == 'od':
    return collections.OrderedDict(items)
  if form == 'dd':
    return collections.defaultdict(int, items)
  if form == 'rec':
    return Rec(items)
  return dict(items)


def with_forms(rng, d, p=P_FORM):
  """Gives plain containers of a description a subclass form (at any depth)."""
  k = d[0]
  if k in ('D', 'd'):
    out = [k, [[kk, with_forms(rng, v, p)] for kk, v in d[1]]] + list(d[2:])
    if k == 'd' and len(out) == 2 and rng.random() < p:
      out.append(rng.choice(DICT_FORMS))
    return out
  if k in ('L', 'l'):
    out = [k, [with_forms(rng, v, p) for v in d[1]]] + list(d[2:])
    if k == 'l' and len(out) == 2 and rng.random() < p:
      out.append(rng.choice(LIST_FORMS))
    return out
  if k == 'ins':
    return ['ins', with_forms(rng, d[1], p)]
  return d


def forms_in(x, out=None):
  """Subclass forms named anywhere in a description / argument structure."""
  out = set() if out is None else out
  if isinstance(x, dict):
    for v in x.values():
      forms_in(v, out)
  elif isinstance(x, list):
    if (len(x) == 3 and x[0] in ('d', 'l') and isinstance(x[1], list)
        and isinstance(x[2], str)):
      out.add(x[2])
    for v in x:
      forms_in(v, out)
  return out


def strip_forms(x):
  """The same arguments with every operand in its built-in form."""
  if isinstance(x, dict):
    y = {k: strip_forms(v) for k, v in x.items()}
    if 'seq' in y:
      y['seq'] = 'list'
    if 'map' in y:
      y['map'] = 'dict'
    if y.get('form') in MAP_FORMS and 'items' in y:
      y['form'] = 'pairs' if y['form'] in PAIR_FORMS else 'dict'
    return y
  if isinstance(x, list):
    if (len(x) == 3 and x[0] in ('d', 'l') and isinstance(x[1], list)
        and isinstance(x[2], str)):
      x = x[:2]
    return [strip_forms(v) for v in x]
  return x


def same_key(x, y):
  """Keys agree: equal and of one type; WHICH of several equal int-like objects
  (1, True, an IntEnum member) a dict keeps as the key is a don't-care."""
  if type(x) is type(y):
    return x == y
  return isinstance(x, int) and isinstance(y, int) and x == y


def same2(a, b):
  """R.same, with hostile-equality leaves compared by identity."""
  if isinstance(a, XLeaf) or isinstance(b, XLeaf):
    return a is b
  if isinstance(a, dict) and isinstance(b, dict):
    ka, kb = list(a.keys()), list(b.keys())
    return (len(ka) == len(kb) and all(same_key(x, y) for x, y in zip(ka, kb))
            and all(same2(a[x], b[y]) for x, y in zip(ka, kb)))
  if isinstance(a, (list, tuple)) and isinstance(b, (list, tuple)):
    return (isinstance(a, tuple) == isinstance(b, tuple) and len(a) == len(b)
            and all(same2(x, y) for x, y in zip(a, b)))
  if isinstance(a, float) and isinstance(b, float) and a != a and b != b:
    return type(a) is type(b)
  if type(a) is not type(b):
    return False
  return a == b


def walk_leaves(m):
  if isinstance(m, dict):
    for v in m.values():
      yield from walk_leaves(v)
  elif isinstance(m, (list, tuple)):
    for v in m:
      yield from walk_leaves(v)
  else:
    yield m


def has_hostile(m):
  return any(is_hostile(v) for v in walk_leaves(m))


def eq_of_containers_decides(m):
  """True when a search by value in the list `m` (in, count, index, remove) is
  decided by how a member CONTAINER answers == with / about a leaf that claims
  to be equal to everything or raises: not list semantics, left open."""
  return (any(isinstance(x, (dict, list)) for x in m) and
          any(leaf_family(v) in ('permissive-eq-leaf', 'raising-eq-leaf')
              for v in walk_leaves(m)))


def json_leaf_same(got, ref):
  """A leaf of the JSON value form agrees with the reference leaf: it is written
  as the same JSON text (1 and 1.0, "a" and an opaque object differ)."""
  if got is ref:
    return True
  if type(got) is type(ref) and type(ref) in PRIMS:
    return got == ref or (got != got and ref != ref)
  if not isinstance(got, PRIMS) or not isinstance(ref, PRIMS):
    return False
  try:
    return json.dumps(got) == json.dumps(ref)
  except Exception:  # pylint: disable=broad-except
    return False


def json_same(got, ref, text=False):
  """The JSON read-out `got` agrees with the reference container `ref`.

  text=False: `got` is the JSON VALUE (pg.to_json): same structure, keys as
  same_key, leaves written as the same JSON text. text=True: `got` is the
  parsed JSON STRING: JSON has str keys only and the spelling of an int key is
  the library's own business, so dict members are compared in order."""
  if isinstance(ref, dict):
    if not isinstance(got, dict) or len(got) != len(ref):
      return False
    if text:
      return all(json_same(g, r, text) for g, r in zip(got.values(), ref.values()))
    kg, kr = list(got.keys()), list(ref.keys())
    return (all(same_key(x, y) for x, y in zip(kg, kr))
            and all(json_same(got[x], ref[y], text) for x, y in zip(kg, kr)))
  if isinstance(ref, list):
    return (isinstance(got, list) and len(got) == len(ref)
            and all(json_same(g, r, text) for g, r in zip(got, ref)))
  if isinstance(got, (dict, list)):
    return False
  return json_leaf_same(got, ref)


def leaves_only(m):
  """`m` with every dict replaced by {position: member} (json.dumps cannot write
  mixed str / int keys sorted or not; members are compared in order)."""
  if isinstance(m, dict):
    return {str(i): leaves_only(v) for i, v in enumerate(m.values())}
  if isinstance(m, list):
    return [leaves_only(v) for v in m]
  return m


def json_normal(m):
  """What the reference reads back from its own JSON text: subclass instances
  of the primitives come back as the primitives."""
  if isinstance(m, dict):
    return {k: json_normal(v) for k, v in m.items()}
  if isinstance(m, list):
    return [json_normal(v) for v in m]
  if type(m) in PRIMS:
    return m
  for base in (int, float):
    if isinstance(m, base):
      return base(m)
  if isinstance(m, str):
    return str.__str__(m)
  return m


def build2(desc, forest=None):
  """D.build plus the subclass forms of plain containers."""
  k = desc[0]
  if k == 'd':
    return mk_dict(desc[2] if len(desc) > 2 else None,
                   [(kk, build2(v, forest)) for kk, v in desc[1]])
  if k == 'l':
    items = [build2(v, forest) for v in desc[1]]
    return Row(items) if len(desc) > 2 else items
  if k == 'D':
    return pg.Dict({kk: build2(v, forest) for kk, v in desc[1]})
  if k == 'L':
    return pg.List([build2(v, forest) for v in desc[1]])
  if k == 'ins':
    return pg.Insertion(build2(desc[1], forest))
  return D.build(desc, forest)


FORM_NAMES = {'od': 'OrderedDict', 'dd': 'defaultdict', 'rec': 'Rec', 'row': 'Row'}


def show2(desc):
  k = desc[0]
  if k in ('D', 'd'):
    body = '{%s}' % ', '.join(f'{kk!r}: {show2(v)}' for kk, v in desc[1])
    if k == 'D':
      return f'pg.Dict({body})'
    return f'{FORM_NAMES[desc[2]]}({body})' if len(desc) > 2 else body
  if k in ('L', 'l'):
    body = '[%s]' % ', '.join(show2(v) for v in desc[1])
    if k == 'L':
      return f'pg.List({body})'
    return f'{FORM_NAMES[desc[2]]}({body})' if len(desc) > 2 else body
  if k == 'ins':
    return f'Insertion({show2(desc[1])})'
  return D.show(desc)


def show_step2(step):
  def sa(v):
    if isinstance(v, list) and v and isinstance(v[0], str) and v[0] in (
        'v', 'D', 'L', 'd', 'l', 'node', 'missing', 'ins', 't'):
      try:
        return show2(v)
      except Exception:  # a key list that happens to look like a description
        pass
    if isinstance(v, list):
      return '[' + ', '.join(sa(x) for x in v) + ']'
    return repr(v)
  args = ', '.join(f'{k}={sa(v)}' for k, v in step['args'].items())
  sc = (' in ' + '+'.join(step['scopes'])) if step.get('scopes') else ''
  return f"root{step['at'][0]}{step['at'][1]}.{step['op']}({args}){sc}"


SEQ_FORMS = ('list', 'tuple', 'gen', 'iter', 'row')
DICT_ARG_FORMS = ('dict', 'od', 'dd', 'rec')
PAIR_FORMS = ('pairs', 'pairs-tuple', 'pairs-lists', 'pairs-gen', 'zip')
MAP_FORMS = DICT_ARG_FORMS + ('proxy', 'userdict') + PAIR_FORMS


def wrap_seq(form, items):
  if form == 'tuple':
    return tuple(items)
  if form == 'gen':
    return (x for x in items)
  if form == 'iter':
    return iter(items)
  if form == 'row':
    return Row(items)
  return items


def wrap_map(form, items):
  """A mapping / iterable of pairs holding `items` ([(key, value)...])."""
  if form in DICT_ARG_FORMS:
    return mk_dict(form, items)
  if form == 'proxy':
    return types.MappingProxyType(dict(items))
  if form == 'userdict':
    return collections.UserDict(dict(items))
  if form == 'pairs-tuple':
    return tuple(tuple(kv) for kv in items)
  if form == 'pairs-lists':
    return [list(kv) for kv in items]
  if form == 'pairs-gen':
    return ((k, v) for k, v in items)
  if form == 'zip':
    return zip([k for k, _ in items], [v for _, v in items])
  return [tuple(kv) for kv in items]


def _seq(a, B):
  return wrap_seq(a.get('seq'), [B(v) for v in a['vs']])


def _update(d, a, B):
  items = [(k, B(v)) for k, v in a['items']]
  form = a['form']
  if form == 'kwargs':
    return d.update(**dict(items))
  if form == 'dict+kwargs':
    return d.update(dict(items[:1]), **dict(items[1:]))
  if form == 'pairs+kwargs':
    return d.update(items[:1], **dict(items[1:]))
  return d.update(wrap_map(form, items))


def _ior(d, a, B):
  other = wrap_map(a.get('map', 'dict'), [(k, B(v)) for k, v in a['items']])
  if a['form'] == 'operator':
    return operator.ior(d, other)
  r = d.__ior__(other)
  return d if r is NotImplemented else r


def _iadd(l, a, B):
  return operator.iadd(l, _seq(a, B)) if a['form'] == 'operator' else l.__iadd__(_seq(a, B))


# The same call text drives the symbolic container and the reference.
FORM_OPS = {
    'List.extend': lambda x, a, B: x.extend(_seq(a, B)),
    'List.__iadd__': _iadd,
    'List.__setitem__[slice]': lambda x, a, B: operator.setitem(x, O.mkslice(a), _seq(a, B)),
    'List.__add__': lambda x, a, B: x + _seq(a, B),
    'Dict.update': _update,
    'Dict.__ior__': _ior,
    'Dict.__or__': lambda x, a, B: x | wrap_map(a.get('map', 'dict'),
                                                [(k, B(v)) for k, v in a['items']]),
}


def add_arg_forms(rng, name, args):
  """Draws the form of a sequence / mapping argument (legal for list/dict)."""
  if rng.random() < 0.5:
    return
  if name in ('List.extend', 'List.__iadd__', 'List.__setitem__[slice]'):
    args['seq'] = rng.choice(SEQ_FORMS)
  elif name == 'List.__add__':
    args['seq'] = rng.choice(['list', 'row'])        # list + non-list is a TypeError
  elif name == 'Dict.update':
    if args['form'] in ('dict', 'pairs'):
      args['form'] = rng.choice(MAP_FORMS)
    elif args['form'] == 'dict+kwargs' and rng.random() < 0.5:
      args['form'] = 'pairs+kwargs'
  elif name == 'Dict.__ior__':
    args['map'] = rng.choice(MAP_FORMS)
  elif name == 'Dict.__or__':
    if len({k for k, _ in args['items']}) == len(args['items']):
      args['map'] = rng.choice(DICT_ARG_FORMS)       # dict | non-dict is a TypeError


def path_key2(rel, style):
  """O.path_key for keys of any admitted type: only a plain int or an
  identifier can be spelled inside a path STRING; an int-like key (bool, IntEnum
  member) is passed as the key itself or inside a KeyPath."""
  spellable = lambda k: type(k) is int or (type(k) is str and k.isidentifier())
  if len(rel) == 1 and style != 'keypath':
    k = rel[0]
    if isinstance(k, int) or spellable(k):
      return k
  kp = pg.KeyPath(list(rel))
  if style == 'str' and all(spellable(k) for k in rel):
    return str(kp)
  return kp


def _rebind_run(n, a, B):
  fn = getattr(n, a['api'])
  if a['form'] == 'kwargs':
    return fn(**{r[0]: B(v) for r, v in a['updates']}, raise_on_no_change=False, **a['opts'])
  return fn({path_key2(r, a['style']): B(v) for r, v in a['updates']},
            raise_on_no_change=False, **a['opts'])


SYM_OPS = {'rebind': _rebind_run}     # symbolic side only


def execute2(forest, step):
  """O.execute with the operand forms of this module."""
  B = lambda d: build2(d, forest)
  run = SYM_OPS.get(step['op']) or FORM_OPS.get(step['op']) or O.OPS[step['op']].run
  try:
    node = D.resolve(forest, step['at'][0], step['at'][1])
    with O.scopes(step.get('scopes', ())):
      return 'ok', run(node, step['args'], B)
  except Exception as e:  # pylint: disable=broad-except
    return 'raise', e


LIST_CTOR_FORMS = ('list', 'tuple', 'gen', 'iter', 'row')
DICT_CTOR_FORMS = MAP_FORMS + ('kwargs', 'dict+kwargs')


def build_root(d0, ctor):
  """The container under test, its initial members handed to the constructor
  as `ctor` says."""
  if d0[0] == 'L':
    return pg.List(wrap_seq(ctor, [build2(v) for v in d0[1]]))
  items = [(k, build2(v)) for k, v in d0[1]]
  if ctor == 'kwargs':
    return pg.Dict(**dict(items))
  if ctor == 'dict+kwargs':
    return pg.Dict(dict(items[:1]), **dict(items[1:]))
  return pg.Dict(wrap_map(ctor, items))


def gen_ctor(rng, d0):
  if rng.random() < 0.4:
    return 'list' if d0[0] == 'L' else 'dict'
  if d0[0] == 'L':
    return rng.choice(LIST_CTOR_FORMS)
  ok = all(isinstance(k, str) and k.isidentifier() for k, _ in d0[1])
  return rng.choice([f for f in DICT_CTOR_FORMS if ok or 'kwargs' not in f])


class Values:
  """Operand source for C02 (plain and symbolic containers, aliases)."""

  def __init__(self, forest, target):
    self.forest, self.target = forest, target

  def __call__(self, rng, node, key):
    r = rng.random()
    if r < 0.1:
      # Ancestors-or-self of the target are excluded: when such a value is
      # copied relative to the other writes of the same call is unspecified.
      cands = [(ri, ks) for ri, ks, n in H.all_nodes(self.forest)
               if ks and not H.is_prefix(ks, self.target[1])]
      if cands:
        ri, ks = rng.choice(cands)
        return ['node', ri, ks]
    if r < 0.6:
      return ['v', leaf(rng)]
    return with_forms(rng, vary_keys_in_desc(
        rng, D.gen(rng, 2, leaf=leaf, classes=(), typed=False, leaves=False, int_keys=True)))


def rebind_ok(step, node):
  """Filters batches whose outcome the property leaves open."""
  if step['op'] != 'rebind':
    return True
  tails = {}
  ups = step['args']['updates']
  if len(ups) > 1:
    # Unspecified within one batch: when an aliased operand is copied relative
    # to the other writes, and whether paths through a list refer to positions
    # before or after an insertion/deletion of the same batch.
    if any(v[0] == 'node' or (v[0] == 'ins' and v[1][0] == 'node') for _, v in ups):
      return False
    for rel, v in ups:
      if v[0] in ('ins', 'missing') and isinstance(O.node_at(node, rel[:-1]), pg.List):
        p = rel[:-1]
        if any(len(r2) > len(p) + 1 and r2[:len(p)] == p for r2, _ in ups):
          return False
        # Several writes into one list are applied relative to the original
        # positions only when rebind is called on that list itself, or when
        # none of them inserts or appends (a deletion keeps its position
        # until the whole batch is applied).
        same = [(r2, v2) for r2, v2 in ups if r2[:-1] == p]
        if p and len(same) > 1 and any(
            v2[0] == 'ins' or r2[-1] >= len(O.node_at(node, p)) for r2, v2 in same):
          return False
  for rel, v in ups:
    parent = O.node_at(node, rel[:-1])
    if isinstance(parent, pg.List) and isinstance(rel[-1], int) and rel[-1] >= len(parent):
      tails[id(parent)] = tails.get(id(parent), 0) + 1
    # A list receiver applies its batch in reverse path order (documented), so
    # the relative order of two keys it adds to one dict is left open as well.
    if (isinstance(node, pg.List) and isinstance(parent, pg.Dict)
        and v[0] != 'missing' and not parent.sym_hasattr(rel[-1])):
      tails[id(parent)] = tails.get(id(parent), 0) + 1
    if isinstance(parent, pg.Dict) and v[0] == 'ins':
      return False
    if isinstance(rel[-1], str) and not rel[-1].isidentifier() and step['args']['style'] == 'raw':
      return False          # a raw str key is parsed as a path by rebind (documented)
  return all(c <= 1 for c in tails.values())


def member_containers(node, max_depth=2):
  """Relative key sequences of the containers below `node` (depth 1..max)."""
  out = []
  def walk(n, prefix, depth):
    for k, c in n.sym_items():
      if isinstance(c, (pg.List, pg.Dict)):
        out.append(prefix + [k])
        if depth < max_depth:
          walk(c, prefix + [k], depth + 1)
  walk(node, [], 1)
  return out


def gen_member_edit(rng, g, cont, rel, kind, pos):
  """Writes (relative to the ancestor) that edit one member container."""
  if isinstance(cont, pg.List):
    n = len(cont)
    i = min(pos, n - 1) if pos is not None else (rng.randrange(n) if n else 0)
    if kind == 'app' or n == 0:
      return [[rel + [n + rng.choice([0, 0, 2])], g.value(cont, 0)]]
    if kind == 'del':
      return [[rel + [i], ['missing']]]
    if kind == 'ins':
      return [[rel + [i], ['ins', g.value(cont, 0)]]]
    if kind == 'del2' and n >= 2:
      idxs = sorted(rng.sample(range(n), rng.randint(2, min(3, n))))
      return [[rel + [j], ['missing'] if rng.random() < 0.8 else g.value(cont, 0)]
              for j in idxs]
    return [[rel + [i], g.value(cont, 0)]]
  keys = list(cont.sym_keys())
  if kind in ('del', 'del2') and keys:
    k = keys[min(pos, len(keys) - 1)] if pos is not None else rng.choice(keys)
    return [[rel + [k], ['missing']]]
  if keys and rng.random() < 0.6:
    k = keys[min(pos, len(keys) - 1)] if pos is not None else rng.choice(keys)
  else:
    k = keygen(rng)
  return [[rel + [k], g.value(cont, k)]]


def gen_multi_rebind(rng, forest):
  """One rebind from a common ancestor that edits several member containers
  (siblings, cousins, nested ones) in a single batch."""
  cands = []
  for ridx, keys, node in H.all_nodes(forest):
    if isinstance(node, (pg.List, pg.Dict)):
      ms = member_containers(node)
      if len(ms) >= 2:
        cands.append((ridx, keys, node, ms))
  if not cands:
    return None
  roots = [c for c in cands if not c[1]]
  ridx, keys, node, ms = rng.choice(roots if roots and rng.random() < 0.6 else cands)
  depth = rng.choice(sorted({len(m) for m in ms}))
  level = [m for m in ms if len(m) == depth]
  if len(level) < 2 or rng.random() < 0.15:
    level = ms
  rng.shuffle(level)
  chosen = O.no_prefix_pairs(level)[:rng.randint(2, 4)]
  if len(chosen) < 2:
    return None
  g = O.GenEnv(rng, Values(forest, (ridx, keys)), forest)
  kinds = ['del', 'del', 'ins', 'set', 'app', 'del2']
  same = rng.random() < 0.6
  kind, pos = rng.choice(kinds), rng.choice([None, 0, 0, 1, 2])
  shared = g.value(None, None) if rng.random() < 0.5 else None
  ups = []
  for rel in chosen:
    if not same:
      kind, pos = rng.choice(kinds), None
    for r2, v in gen_member_edit(rng, g, O.node_at(node, rel), rel, kind, pos):
      if same and shared is not None and v[0] not in ('missing', 'node'):
        v = ['ins', shared] if v[0] == 'ins' else shared
      ups.append([r2, v])
  if rng.random() < 0.2:
    # ... together with an ordinary write somewhere else below the ancestor.
    extra = rng.choice(O.rel_targets(node, rng))
    if not any(extra[:len(r)] == r or r[:len(extra)] == extra for r, _ in ups):
      ups.append([extra, g.value(None, None)])
  rng.shuffle(ups)
  return {'op': 'rebind', 'at': [ridx, keys], 'multi': True,
          'args': {'updates': ups, 'opts': {}, 'form': 'dict',
                   'style': rng.choice(['raw', 'keypath', 'str']),
                   'api': rng.choice(['rebind', 'rebind', 'sym_rebind'])}}


def vary_arg_keys(rng, name, args):
  """Negative int / digit-only str keys for the dict operations."""
  if not name.startswith('Dict.') or name in ('Dict.__setattr__', 'Dict.__delattr__'):
    return
  if 'k' in args:
    args['k'] = vary_key(rng, args['k'])
  if 'items' in args:
    ks = [k for k, _ in args['items']]
    for it in args['items']:
      k2 = vary_key(rng, it[0])
      if k2 != it[0] and k2 not in ks:
        ks[ks.index(it[0])] = k2
        it[0] = k2


def model_containers(m, max_depth=4):
  """Key sequences (depth >= 1) of the containers nested in the reference."""
  out = []
  def walk(n, path):
    for k, v in (n.items() if isinstance(n, dict) else enumerate(n)):
      if isinstance(v, (dict, list)):
        out.append(path + [k])
        if len(path) + 1 < max_depth:
          walk(v, path + [k])
  walk(m, [])
  return out


def written_containers(before, after):
  """Paths of the member containers of `after` that the last step wrote (absent
  from, or different in, the contents before the step)."""
  out = []
  for path in model_containers(after):
    old, new = before, after
    try:
      for k in path:
        old = old[k]
        new = new[k]
      if type(old) is not type(new) or not same2(old, new):
        out.append(path)
    except (KeyError, IndexError, TypeError):
      out.append(path)
  return out


def gen_through_rebind(rng, forest, model, prefer=()):
  """One rebind whose path(s) lead THROUGH stored member containers: issued on
  the root or on an ancestor at least two levels above the written location.
  Targets are drawn from the reference (what the container should hold), one
  write per member container, no insertions / deletions inside lists, so that
  the outcome does not depend on the order in which a batch is applied."""
  conts = model_containers(model[0])
  if not conts:
    return None
  rng.shuffle(conts)
  if prefer and rng.random() < 0.75:
    # through a member the previous step has just written
    first = rng.choice(list(prefer))
    conts = [first] + [p for p in conts if p != first]
  g = O.GenEnv(rng, Values(forest, (0, [])), forest)
  ups, used = [], []
  for path in conts[:rng.choice([1, 1, 2, 3])]:
    mc = model[0]
    for k in path:
      mc = mc[k]
    if isinstance(mc, list):
      n = len(mc)
      key = rng.randrange(n) if n and rng.random() < 0.6 else n + rng.choice([0, 0, 2])
      v = g.value(None, key)
    else:
      keys = list(mc.keys())
      r = rng.random()
      if keys and r < 0.5:
        key = rng.choice(keys)
      else:
        key = keygen(rng)
      v = ['missing'] if (key in keys and rng.random() < 0.25) else g.value(None, key)
    rel = path + [key]
    if v[0] == 'node' or any(rel[:len(u)] == u or u[:len(rel)] == rel for u in used):
      continue
    used.append(rel)
    ups.append([rel, v])
  if not ups:
    return None
  # receiver: the root, or the deepest common ancestor kept >= 2 levels above
  j = 0
  if rng.random() < 0.3:
    common = ups[0][0][:-2]
    for rel, _ in ups[1:]:
      i = 0
      while i < len(common) and i < len(rel) - 2 and rel[i] == common[i]:
        i += 1
      common = common[:i]
    j = rng.randint(0, len(common))
  at = ups[0][0][:j]
  ups = [[rel[j:], v] for rel, v in ups]
  rng.shuffle(ups)
  return {'op': 'rebind', 'at': [0, at], 'through': True,
          'args': {'updates': ups, 'opts': {}, 'form': 'dict',
                   'style': rng.choice(['keypath', 'str']),
                   'api': rng.choice(['rebind', 'rebind', 'sym_rebind'])}}


def gen_step(rng, forest, p_multi=0.0, model=None, p_through=0.0, prefer=()):
  step = None
  if model is not None and rng.random() < p_through:
    step = gen_through_rebind(rng, forest, model, prefer)
  if step is None and rng.random() < p_multi:
    for _ in range(5):
      step = gen_multi_rebind(rng, forest)
      if step is None:
        break
      node = D.resolve(forest, *step['at'])
      if rebind_ok(step, node):
        break
      step = None
  nodes = H.all_nodes(forest)
  for _ in range(30):
    if step is not None:
      break
    ridx, keys, node = rng.choice(nodes)
    cands = [o for o in O.ops_for(node, ('mutate', 'new')) if o.name in R.MODEL_OPS]
    o = rng.choice(cands)
    if (CASE['palette'] and isinstance(node, pg.List) and rng.random() < 0.15
        and any(leaf_family(x) for x in node.sym_values())):
      o = O.OPS['List.remove']      # searches by value among special leaves
    g = O.GenEnv(rng, Values(forest, (ridx, keys)), forest)
    args = o.gen(g, node)
    if args is None:
      continue
    vary_arg_keys(rng, o.name, args)
    add_arg_forms(rng, o.name, args)
    step = {'op': o.name, 'at': [ridx, keys], 'args': args}
    if o.name == 'List.remove' and 'pos' in args and model is not None:
      try:
        mn = model[ridx]
        for k in keys:
          mn = mn[k]
        if eq_of_containers_decides(mn):
          step = None       # decided by how member containers answer ==: open
          continue
        # remove() of a member that is a special leaf (found by identity first)
        xs = [j for j, x in enumerate(mn) if leaf_family(x)]
        if xs and rng.random() < 0.6:
          args['pos'] = rng.choice(xs)
      except Exception:  # pylint: disable=broad-except
        pass
    if o.name == 'rebind':
      args['opts'] = {}
      if not rebind_ok(step, node):
        step = None
  if step is None:
    return None
  # Change notification is not part of the container semantics: every
  # operation is also driven with notification off.
  step['scopes'] = ['notify_off'] if rng.random() < 0.2 else []
  if step['op'] == 'rebind':
    if rng.random() < 0.25:
      step['args']['opts']['skip_notification'] = True
    if rng.random() < 0.1:
      step['args']['opts']['notify_parents'] = False
  return step


def model_execute(model, step):
  node = model[step['at'][0]]
  for k in step['at'][1]:
    node = node[k]
  BP = lambda d: R.build_plain(d, model)
  try:
    fn = FORM_OPS.get(step['op']) or R.MODEL_OPS[step['op']]
    return 'ok', fn(node, step['args'], BP), node
  except Exception as e:  # pylint: disable=broad-except
    return 'raise', e, node


def read_checks(ctx, rng, root, m, json_paths=True):
  """All read paths of the symbolic container must agree with the model.

  Returns [(clause, detail)]; clause 'contents' means the stored state itself
  differs, any other clause names the read path that disagrees with it."""
  bad = []
  c = ctx.counters

  def chk(name, real_fn, model_fn, detail=''):
    """Both sides are evaluated; values or exception classes must agree."""
    c['read_checks'] += 1
    try:
      exp = ('ok', model_fn())
    except Exception as e:  # pylint: disable=broad-except
      exp = ('raise', R.error_class(e))
    try:
      got = ('ok', R.to_plain(real_fn()))
    except Exception as e:  # pylint: disable=broad-except
      got = ('raise', R.error_class(e))
    ok = exp[0] == got[0] and (same2(exp[1], got[1]) if exp[0] == 'ok'
                               else exp[1] == got[1])
    if not ok:
      bad.append((name, f'{detail} expected {exp!r:.200} got {got!r:.200}'))

  chk('contents', lambda: root, lambda: m)
  if bad:
    return bad
  chk('len', lambda: len(root), lambda: len(m))
  # The == of a hostile-equality leaf is meaningless and json does not accept
  # it: equality with the plain container and the JSON read-outs are compared
  # for containers of JSON leaves (primitives and instances of their subclasses).
  hostile = has_hostile(m)
  if hostile:
    c['read_rounds_hostile_leaf'] += 1
    return_json = False
  else:
    chk('eq-plain', lambda: ((root == m), (m == root), (root != m)),
        lambda: (True, True, False))
    # JSON value form: same structure and keys, every leaf written as the JSON
    # text the reference's leaf is written as by json.dumps.
    c['read_checks'] += 1
    try:
      jv = pg.to_json(root)
      if not json_same(jv, m):
        bad.append(('to_json', f'expected {m!r:.200} got {jv!r:.200}'))
    except Exception as e:  # pylint: disable=broad-except
      bad.append(('to_json', f'raised {type(e).__name__}: {e!s:.200}'))
    return_json = json_paths
  if return_json:
    # JSON conversion agrees with the reference: what is written can be read
    # back as the same container (contents, order, key types), both through
    # JSON values and through the JSON string.
    def back(v):
      if not isinstance(v, type(root)):
        raise AssertionError(f'read back as {type(v).__name__}')
      # (whether an IntEnum member is read back as itself or as an int is open)
      return json_normal(R.to_plain(v)), (v == m), (v == root)
    form = rng.choice(['pg', 'method'])
    mj = json_normal(m)
    chk('json-roundtrip',
        lambda: back(pg.from_json(pg.to_json(root) if form == 'pg' else root.to_json())),
        lambda: (mj, True, True))
    chk('json-str-roundtrip',
        lambda: back(pg.from_json_str(pg.to_json_str(root) if form == 'pg'
                                      else root.to_json_str())),
        lambda: (mj, True, True))
    # The JSON text itself: leaf by leaf the text json.dumps writes for the
    # reference (an int stays an int, a str a str: 1 is not 1.0).
    c['read_checks'] += 1
    c['json_text_checks'] += 1
    try:
      txt = pg.to_json_str(root) if form == 'pg' else root.to_json_str()
      if not json_same(json.loads(txt), json.loads(json.dumps(leaves_only(m))), text=True):
        bad.append(('json-text', f'expected the leaves of {json.dumps(leaves_only(m))!s:.200} '
                    f'got {txt!s:.200}'))
    except Exception as e:  # pylint: disable=broad-except
      bad.append(('json-text', f'raised {type(e).__name__}: {e!s:.200}'))
  if isinstance(m, list):
    chk('iter', lambda: [x for x in root], lambda: m)
    chk('member-identity', lambda: all(x is root[j] for j, x in enumerate(root)), lambda: True)
    chk('list()', lambda: list(root), lambda: m)
    for _ in range(3):
      a, b = rng.randint(-len(m) - 2, len(m) + 2), rng.randint(-len(m) - 2, len(m) + 2)
      st = rng.choice([None, 1, 2, -1, -2, 3])
      sl = slice(rng.choice([None, a]), rng.choice([None, b]), st)
      chk('slice', lambda: root[sl], lambda: m[sl], f'{sl}')
    for i in range(-len(m) - 1, len(m) + 1):
      chk('getitem', lambda: root[i], lambda: m[i], f'[{i}]')
    # (How a member CONTAINER answers == with a foreign object that claims to be
    # equal to everything, or raises, is not list semantics: not probed.)
    probes = list(m[:3]) + ['__absent__', 99]
    if eq_of_containers_decides(m):
      probes = []
    for p in probes:
      chk('in', lambda: p in root, lambda: p in m, f'{p!r}')
      chk('count', lambda: root.count(p), lambda: m.count(p), f'{p!r}')
      chk('index', lambda: root.index(p), lambda: m.index(p), f'{p!r}')
  else:
    chk('keys', lambda: (list(root.keys()), list(root)),
        lambda: (list(m.keys()), list(m)))
    chk('dict()', lambda: dict(root), lambda: m)
    chk('values', lambda: list(root.values()), lambda: list(m.values()))
    chk('items', lambda: [(k, v) for k, v in root.items()],
        lambda: [(k, v) for k, v in m.items()])
    # get / values / items hand out the stored member itself, as [] does
    chk('member-identity',
        lambda: [all(x is root[k] for k, x in root.items()),
                 all(x is root[k] for k, x in zip(root.keys(), root.values())),
                 all(root.get(k) is root[k] for k in root.keys())],
        lambda: [True, True, True])
    for k in list(m.keys())[:4] + ['__absent__', 77]:
      chk('in', lambda: k in root, lambda: k in m, f'{k!r}')
      chk('get', lambda: root.get(k, 'dflt'), lambda: m.get(k, 'dflt'), f'{k!r}')
      chk('getitem', lambda: root[k], lambda: m[k], f'[{k!r}]')
  return bad


def member_checks(ctx, rng, root, m, path_reads=3):
  """Reads that go THROUGH the stored members.

  * documented extension "nested plain containers become symbolic ones": every
    member that is a container in the reference (dict / list, incl. operands
    that were instances of dict / list subclasses) is a pg.Dict / pg.List;
  * a nested location read by path (sym_get, KeyPath.query, chained []) gives
    the reference's value.
  Returns [(clause, detail, reference type name)]."""
  bad = []
  c = ctx.counters

  def walk(s, mm, path):
    for k, v in (list(mm.items()) if isinstance(mm, dict) else list(enumerate(mm))):
      if not isinstance(v, (dict, list)):
        continue
      c['member_symbolic_checks'] += 1
      try:
        child = s[k]
      except Exception as e:  # pylint: disable=broad-except
        bad.append(('member-read', f'[{k!r}] below {path} raised {type(e).__name__}: {e!s:.100}',
                    type(v).__name__))
        continue
      want = pg.Dict if isinstance(v, dict) else pg.List
      if not isinstance(child, want):
        bad.append(('member-not-symbolic',
                    f'member at {path + [k]} is a {type(child).__module__}.'
                    f'{type(child).__name__}, not a {want.__name__}', type(v).__name__))
      else:
        walk(child, v, path + [k])

  walk(root, m, [])
  if bad:
    return bad
  # Path-addressed reads of nested locations.
  locs = []
  def collect(mm, path):
    for k, v in (mm.items() if isinstance(mm, dict) else enumerate(mm)):
      if path:
        locs.append(path + [k])
      if isinstance(v, (dict, list)) and len(path) < 3:
        collect(v, path + [k])
  collect(m, [])
  for path in (rng.sample(locs, path_reads) if len(locs) > path_reads else locs):
    exp = m
    for k in path:
      exp = exp[k]
    how = rng.choice(['sym_get', 'sym_get[str]', 'query', 'chained'])
    if how == 'sym_get[str]' and not all(
        type(k) is int or (type(k) is str and k.isidentifier()) for k in path):
      how = 'sym_get'
    c['path_read_checks'] += 1
    try:
      if how == 'sym_get':
        got = root.sym_get(pg.KeyPath(list(path)))
      elif how == 'sym_get[str]':
        got = root.sym_get(str(pg.KeyPath(list(path))))
      elif how == 'query':
        got = pg.KeyPath(list(path)).query(root)
      else:
        got = root
        for k in path:
          got = got[k]
      ok = same2(R.to_plain(got), exp)
      detail = f'{how} of {path}: expected {exp!r:.150} got {R.to_plain(got)!r:.150}'
    except Exception as e:  # pylint: disable=broad-except
      ok, detail = False, f'{how} of {path} raised {type(e).__name__}: {e!s:.150}'
    if not ok:
      bad.append(('read-path-query', detail, how))
  return bad


# ---------------------------------------------------------------------------
# ATTRIBUTION to a class of special leaf / unusual key. Harness facts only: the
# classes present in the contents before the step and in its arguments, and
# the COUNTERFACTUAL: the same step on the same contents with the members of
# that class replaced by ordinary stand-ins (a str for a hostile leaf, the
# primitive value for a subclass instance, an int / identifier for a key)
# agrees with the reference.

KEY_STANDIN = {k: 'ps%d_' % i for i, k in enumerate(PATH_SYNTAX_KEYS)}




def neutral_leaf(v, fams, nested=False):
  f = leaf_family(v)
  if f is None or f not in fams:
    return v
  if is_hostile(v):
    return '<%s>' % (v.name if isinstance(v, XLeaf) else 'nan')
  return json_normal(v)


def neutral_key(k, fams):
  f = key_family(k)
  if f is None or f not in fams:
    return k
  return KEY_STANDIN[k] if f == 'path-syntax-key' else int(k)


def map_model(m, kf, lf):
  if isinstance(m, dict):
    return {kf(k): map_model(v, kf, lf) for k, v in m.items()}
  if isinstance(m, list):
    return [map_model(v, kf, lf) for v in m]
  return lf(m, False)


def map_desc(d, kf, lf, nested=False):
  """A description with every key mapped by kf and every leaf by lf(leaf,
  nested): nested = the leaf sits inside a container of the description."""
  k = d[0]
  if k == 'v':
    return ['v', lf(d[1], nested)]
  if k in ('D', 'd'):
    return [k, [[kf(kk), map_desc(v, kf, lf, True)] for kk, v in d[1]]] + list(d[2:])
  if k in ('L', 'l'):
    return [k, [map_desc(v, kf, lf, True) for v in d[1]]] + list(d[2:])
  if k == 'ins':
    return ['ins', map_desc(d[1], kf, lf, nested)]
  if k == 'node':
    return ['node', d[1], [kf(x) for x in d[2]]]
  return d


def map_step(step, kf, lf):
  """The step with every key mapped by kf and every leaf operand by lf."""
  s2 = dict(step)
  s2['at'] = [step['at'][0], [kf(k) for k in step['at'][1]]]
  a = dict(step['args'])
  for name in ('v', 'default'):
    if name in a:
      a[name] = map_desc(a[name], kf, lf)
  if 'vs' in a:
    a['vs'] = [map_desc(v, kf, lf) for v in a['vs']]
  if 'k' in a:
    a['k'] = kf(a['k'])
  if 'items' in a:
    a['items'] = [[kf(k), map_desc(v, kf, lf)] for k, v in a['items']]
  if 'updates' in a:
    a['updates'] = [[[kf(k) for k in rel], map_desc(v, kf, lf)] for rel, v in a['updates']]
  s2['args'] = a
  return s2


def features(before, step=None):
  """Classes of special leaves / unusual keys in the contents and the step."""
  out = set()
  def kf(k):
    out.add(key_family(k))
    return k
  def lf(v, nested):
    out.add(leaf_family(v))
    return v
  map_model(before, kf, lf)
  if step is not None:
    map_step(step, kf, lf)
  out.discard(None)
  return sorted(out)


def neutralized(fams, before, step=None):
  kf = lambda k: neutral_key(k, fams)
  lf = lambda v, nested: neutral_leaf(v, fams, nested)
  return map_model(before, kf, lf), (map_step(step, kf, lf) if step is not None else None)


def smallest_class(fs, holds):
  """The smallest set of classes whose replacement makes `holds` true."""
  if not fs or holds([]) or not holds(fs):
    return None           # (not reproduced on rebuilt contents / not by these classes)
  for f in fs:
    if holds([f]):
      return f
  def named(sub):
    # several classes of subclass-of-primitive leaves together: one name
    if all(f.endswith('-subclass-leaf') for f in sub):
      return 'primitive-subclass-leaf'
    return '+'.join(sub)
  for i, f in enumerate(fs):
    for g in fs[i + 1:]:
      if holds([f, g]):
        return named([f, g])
  return named(fs)


HOSTILE_FAMILIES = ('permissive-eq-leaf', 'raising-eq-leaf', 'irreflexive-eq-leaf',
                    'identity-eq-leaf')
# Path families for a hostile-equality leaf that is stored wrongly: operations
# that BUILD a new container from members (constructor, copies, +, *, |, the
# conversion of a container operand) and operations that GROW a list at its
# end; every other operation is a path of its own.
NEW_CONTAINER_OPS = ('construction', 'List.copy', 'Dict.copy', 'List.__add__', 'List.__mul__',
                     'Dict.__or__')
LIST_GROWTH_OPS = ('List.append', 'List.extend', 'List.__iadd__', 'List.__imul__', 'List.*=')


def rebind_appends(step, before):
  """True when the rebind writes a position past the end of a list."""
  try:
    node = before
    for k in step['at'][1]:
      node = node[k]
    for rel, _ in step['args']['updates']:
      parent = node
      for k in rel[:-1]:
        parent = parent[k]
      if isinstance(parent, list) and isinstance(rel[-1], int) and rel[-1] >= len(parent):
        return True
  except Exception:  # pylint: disable=broad-except
    pass
  return False


def special_mech(op, sp, step=None, before=None):
  """Mechanism of a disagreement attributed to the class `sp`."""
  if sp in HOSTILE_FAMILIES:
    if op in NEW_CONTAINER_OPS:
      return 'new-container/' + sp
    if op in LIST_GROWTH_OPS or (op == 'rebind' and rebind_appends(step, before)):
      return 'list-growth/' + sp
  return op + '/' + sp


def constructs(d):
  """True when the container description `d` alone becomes a symbolic container
  with the members of the reference (constructor / conversion of a plain one)."""
  try:
    x = build2(d)
    if not isinstance(x, (pg.List, pg.Dict)):
      x = pg.List(x) if isinstance(x, list) else pg.Dict(x)
    return same2(R.to_plain(x), R.build_plain(d, None)) and all_members_symbolic(x)
  except Exception:  # pylint: disable=broad-except
    return False


def has_node(d):
  return d[0] == 'node' or (d[0] in ('D', 'd') and any(has_node(v) for _, v in d[1])) or (
      d[0] in ('L', 'l') and any(has_node(v) for v in d[1])) or (
          d[0] == 'ins' and has_node(d[1]))


def node_operand_family(step, forest):
  """Same for an operand that is a container living in the tree (it is copied
  when it is stored a second time): the copy lacks members of the original."""
  a = step['args']
  ds = [a[n] for n in ('v', 'default') if n in a] + list(a.get('vs', ()))
  ds += [v for _, v in a.get('items', ())] + [v for _, v in a.get('updates', ())]
  for d in ds:
    if d[0] == 'ins':
      d = d[1]
    if d[0] != 'node':
      continue
    try:
      x = D.resolve(forest, d[1], d[2])
      ref = R.to_plain(x)
      fams = sorted({leaf_family(v) for v in walk_leaves(ref)} & set(HOSTILE_FAMILIES))
      if len(fams) != 1:
        continue
      try:
        ok = same2(R.to_plain(x.clone(deep=True)), ref)
      except Exception:  # pylint: disable=broad-except
        ok = False
      if not ok:
        return fams[0]
    except Exception:  # pylint: disable=broad-except
      continue
  return None


def needs_special_operand(step):
  """The class of special leaf / unusual key because of which a CONTAINER
  OPERAND of the step cannot even be constructed on its own with the members
  of the reference (the operation that takes it is immaterial then)."""
  a = step['args']
  ds = [a[n] for n in ('v', 'default') if n in a] + list(a.get('vs', ()))
  ds += [v for _, v in a.get('items', ())] + [v for _, v in a.get('updates', ())]
  for d in ds:
    if d[0] == 'ins':
      d = d[1]
    if d[0] not in ('D', 'd', 'L', 'l') or has_node(d) or constructs(d):
      continue
    fs = set()
    map_desc(d, lambda k: fs.add(key_family(k)) or k,
             lambda v, nested: fs.add(leaf_family(v)) or v)
    fs.discard(None)
    f = smallest_class(sorted(fs), lambda fams: constructs(map_desc(
        d, lambda k: neutral_key(k, fams), lambda v, nested: neutral_leaf(v, fams))))
    if f:
      return f
  return None


def needs_special(step, before):
  """The class of special leaf / unusual key a disagreeing step is attributed to."""
  def holds(fams):
    b2, s2 = neutralized(fams, before, step)
    return agrees(s2, b2)
  return smallest_class(features(before, step), holds)


def needs_special_read(ctx, m, clause):
  """Same for a read path that disagrees with (rightly stored) contents."""
  def holds(fams):
    m2, _ = neutralized(fams, m)
    try:
      bad = read_checks(ctx, random.Random(0), sym_of(m2), m2)
    except Exception:  # pylint: disable=broad-except
      return False
    return not any(cl == clause for cl, _ in bad)
  return smallest_class(features(m), holds)


def needs_special_ctor(d0, ctor):
  def holds(fams):
    kf = lambda k: neutral_key(k, fams)
    lf = lambda v, nested: neutral_leaf(v, fams)
    d2 = map_desc(d0, kf, lf)
    try:
      root, m = build_root(d2, ctor), R.build_plain(d2, None)
      return same2(R.to_plain(root), m) and all_members_symbolic(root)
    except Exception:  # pylint: disable=broad-except
      return False
  fs = set()
  map_desc(d0, lambda k: fs.add(key_family(k)) or k,
           lambda v, nested: fs.add(leaf_family(v)) or v)
  fs.discard(None)
  return smallest_class(sorted(fs), holds)


def without_hostile(m):
  """The contents without their hostile-equality leaves."""
  if isinstance(m, dict):
    return {k: without_hostile(v) for k, v in m.items() if not is_hostile(v)}
  if isinstance(m, list):
    return [without_hostile(v) for v in m if not is_hostile(v)]
  return m


def needs_special_path_read(ctx, m):
  def holds(fams):
    m2, _ = neutralized(fams, m)
    try:
      return not member_checks(ctx, random.Random(0), sym_of(m2), m2, path_reads=50)
    except Exception:  # pylint: disable=broad-except
      return False
  return smallest_class(features(m), holds)


def member_snapshot(forest, model, step):
  """The container members of the step's target, both sides, before the step."""
  try:
    node = D.resolve(forest, *step['at'])
    mnode = model[step['at'][0]]
    for k in step['at'][1]:
      mnode = mnode[k]
    if isinstance(mnode, dict):
      pairs = [(k, v, node.sym_getattr(k)) for k, v in mnode.items()
               if isinstance(v, (dict, list))]
    else:
      pairs = [(k, v, node.sym_getattr(k)) for k, v in enumerate(mnode)
               if isinstance(v, (dict, list))]
    return pairs
  except Exception:  # pylint: disable=broad-except
    return None


def result_identity(forest, step, members0, mnode, mres, res):
  """'' when `res` is the symbolic member that corresponds to the reference's
  member `mres` is (by identity), a text when it is another object, None when
  the reference's result is not a member (before or after the step)."""
  for k, mv, sv in members0:
    if mv is mres:
      return '' if sv is res else (f'the reference returns the member it held at {k!r}; '
                                   f'the symbolic container returns another {type(res).__name__}')
  items = mnode.items() if isinstance(mnode, dict) else enumerate(mnode)
  for k, mv in items:
    if mv is mres:
      try:
        sv = D.resolve(forest, *step['at']).sym_getattr(k)
      except Exception:  # pylint: disable=broad-except
        return None
      return '' if sv is res else (f'the reference returns the member it now holds at {k!r}; '
                                   'the symbolic container returns an object it does not hold '
                                   f'({type(res).__name__})')
  return None


def heal(ctx, rng, forest, model):
  """Re-synchronises the symbolic side from the reference; when the contents
  cannot be rebuilt with their hostile-equality leaves, both sides go on
  without those. False: the case is abandoned."""
  for attempt in (model[0], without_hostile(model[0])):
    try:
      s = sym_of(attempt)
      if not read_checks(ctx, rng, s, attempt) and not member_checks(ctx, rng, s, attempt, 0):
        forest[0], model[0] = s, copy.deepcopy(attempt)
        ctx.counters['heals'] += 1
        return True
    except Exception:  # pylint: disable=broad-except
      pass
  ctx.counters['abandoned'] += 1
  return False


def cases(ctx):
  return ctx.params['cases']


def sym_of(m):
  m = copy.deepcopy(m)
  return pg.List(m) if isinstance(m, list) else pg.Dict(m)


def agrees(s2, before):
  """True when step `s2` applied to fresh containers holding `before` gives the
  outcome, the contents and symbolic members of the reference."""
  try:
    fresh, m2 = [sym_of(before)], [copy.deepcopy(before)]
    ms, mres, _ = model_execute(m2, s2)
    st, res = execute2(fresh, s2)
    if ms != st:
      return False
    if st == 'raise' and R.error_class(res) != R.error_class(mres):
      return False
    if st == 'ok' and s2['op'] not in R.RETURNS_SELF and not same2(R.to_plain(res), mres):
      return False
    return same2(R.to_plain(fresh[0]), m2[0]) and all_members_symbolic(fresh[0])
  except Exception:  # pylint: disable=broad-except
    return False


def first_plain_member(node):
  """'dict' / 'list' when a member (at any depth) is a container that is not a
  symbolic one, else None."""
  for _, v in node.sym_items():
    if isinstance(v, (dict, list)):
      if not isinstance(v, (pg.Dict, pg.List)):
        return 'dict' if isinstance(v, dict) else 'list'
      r = first_plain_member(v)
      if r:
        return r
  return None


def all_members_symbolic(node):
  return first_plain_member(node) is None


def needs_notify_off(step, before):
  """True when `step` applied to the contents `before` agrees with the model
  once change notification is left on (the mechanism is then '@notify_off')."""
  if not H.notify_suppressed(step):
    return False
  return agrees(H.without_notify_off(step), before)


def operand_class(step):
  """Which non-default operand forms a step uses (harness facts only)."""
  a = step['args']
  out = set()
  fs = forms_in(a)
  if fs & set(DICT_FORMS):
    out.add('dict-subclass-operand')
  if fs & set(LIST_FORMS):
    out.add('list-subclass-operand')
  arg = a.get('seq') or a.get('map') or (a.get('form') if 'items' in a else None)
  if arg in DICT_FORMS or arg == 'row':
    out.add(('dict' if arg in DICT_FORMS else 'list') + '-subclass-argument')
  elif arg in ('tuple', 'gen', 'iter'):
    out.add('iterable-argument')
  elif arg in ('proxy', 'userdict'):
    out.add('mapping-argument')
  elif arg in PAIR_FORMS[1:] or arg == 'pairs+kwargs':
    out.add('pairs-argument')
  return sorted(out)


def needs_forms(step, before):
  """The operand class a finding is attributed to: the step disagrees with the
  reference, the same step with every operand in its built-in form agrees."""
  oc = operand_class(step)
  if not oc:
    return None
  s2 = dict(step)
  s2['args'] = strip_forms(step['args'])
  return '+'.join(oc) if agrees(s2, before) else None


def nested_pair(rng, root, m):
  """A random nested container with its model counterpart (or None)."""
  nodes = [(n, keys) for n, keys in H.TM.nodes_of(root)
           if keys and isinstance(n, (pg.List, pg.Dict))]
  if not nodes:
    return None
  n, keys = rng.choice(nodes)
  try:
    for k in keys:
      m = m[k]
  except (KeyError, IndexError, TypeError):
    return None
  if type(m) is not (list if isinstance(n, pg.List) else dict):
    return None
  return n, m


def run_case(ctx, i):
  rng = ctx.rng
  c = ctx.counters
  draw_case_alphabet(rng)
  c['cases_special_leaves'] += bool(CASE['palette'])
  c['cases_hostile_eq_leaves'] += any(is_hostile(v) for v in CASE['palette'])
  c['cases_subclass_leaves'] += any(not is_hostile(v) for v in CASE['palette'])
  c['cases_unusual_keys'] += bool(CASE['xkeys'])
  d0 = with_forms(rng, initial(rng))
  ctor = gen_ctor(rng, d0)
  table = d0[1] and all(x[0] in 'LlDd' for x in (
      d0[1] if d0[0] == 'L' else [v for _, v in d0[1]]))
  p_multi = 0.35 if rng.random() < 0.5 or table else 0.08
  model = [R.build_plain(d0, None)]
  shown0 = f'{show2(d0)} given as {ctor}'
  try:
    forest = [build_root(d0, ctor)]
  except Exception as e:  # pylint: disable=broad-except
    # list(...) / dict(...) of the same members does not raise.
    f = needs_special_ctor(d0, ctor)
    ctx.violation('outcome', special_mech('construction', f) if f else 'construction',
                  f'the constructor raised {type(e).__name__}: {e!s:.200}', {'initial': shown0})
    return
  c['ctor:' + ctor] += 1
  c['operand_subclass_containers'] += len(forms_in(d0)) and 1
  trace, changed = [], 0
  fresh = model_containers(model[0])       # member containers written last
  for clause, detail in read_checks(ctx, rng, forest[0], model[0]):
    if clause == 'contents':
      f = needs_special_ctor(d0, ctor)
      mech = special_mech('construction', f) if f else 'construction'
    else:
      f = needs_special_read(ctx, model[0], clause)
      mech = 'read-path' + ('/' + f if f else '')
    ctx.violation('read-' + clause, mech, detail, {'initial': shown0})
    if not heal(ctx, rng, forest, model):
      return
    break
  for clause, detail, what in member_checks(ctx, rng, forest[0], model[0]):
    m_ = 'read-path' if clause == 'read-path-query' else 'construction'
    if clause == 'member-not-symbolic' and forms_in(d0) and all_members_symbolic(
        build_root(strip_forms(d0), ctor)):
      m_ = what + '-subclass-operand'
    elif clause == 'read-path-query':
      f = needs_special_path_read(ctx, model[0])
      m_ += '/' + f if f else ''
    ctx.violation(clause, m_, detail, {'initial': shown0})
    if not heal(ctx, rng, forest, model):
      return
    break
  fresh = model_containers(model[0])
  n_steps = rng.randint(ctx.params['steps'] // 2, ctx.params['steps'])
  for _ in range(n_steps):
    step = gen_step(rng, forest, p_multi, model, 0.35 if fresh else 0.08, fresh)
    if step is None:
      break
    if step.get('through') and fresh and any(
        rel[:len(f)] == f for rel, _ in [(step['at'][1] + r, v)
                                         for r, v in step['args']['updates']] for f in fresh):
      c['through_rebinds_into_just_written_member'] += 1
    before = copy.deepcopy(model[0])
    members0 = member_snapshot(forest, model, step)
    mstatus, mres, mnode = model_execute(model, step)
    ctx.label = step['op']
    status, res = execute2(forest, step)
    ctx.label = None
    c['steps'] += 1
    c['op:' + step['op']] += 1
    for oc in operand_class(step):
      c['steps_' + oc] += 1
    if step.get('through'):
      c['through_rebinds'] += 1
      if len(step['args']['updates']) > 1:
        c['through_rebinds_multi_path'] += 1
    if H.notify_suppressed(step):
      c['steps_notify_off'] += 1
    if step.get('multi'):
      c['multi_member_rebinds'] += 1
      if H.notify_suppressed(step):
        c['multi_member_rebinds_notify_off'] += 1
    trace.append(show_step2(step))
    witness = lambda: {'initial': shown0, 'history': trace[-15:]}
    problem = None
    if mstatus != status:
      problem = ('outcome', f'model: {mstatus} {mres!r:.200}; symbolic: {status} {res!r:.300}')
    elif status == 'raise':
      c['outcome_both_raise'] += 1
      if R.error_class(res) != R.error_class(mres):
        problem = ('error-class', f'model raised {type(mres).__name__}, symbolic raised '
                   f'{type(res).__name__}: {res!s:.200}')
    else:
      c['outcome_both_ok'] += 1
      if step['op'] in R.RETURNS_SELF:
        node = D.resolve(forest, *step['at'])
        if step['op'] != 'rebind[fn]' and res is not node:
          problem = ('result', f'in-place operation returned {type(res).__name__} '
                     'which is not the target')
      elif O.OPS[step['op']].effect == 'new':
        if not same2(R.to_plain(res), mres):
          problem = ('result', f'model {mres!r:.200} symbolic {R.to_plain(res)!r:.200}')
        elif step['op'] != 'Dict.__or__' and not isinstance(res, (pg.List, pg.Dict)):
          problem = ('result', f'copy is a {type(res).__name__}')
        elif isinstance(res, (pg.List, pg.Dict)) and not all_members_symbolic(res):
          problem = ('member-not-symbolic', 'the new container holds a plain '
                     f'{first_plain_member(res)} member', first_plain_member(res))
      elif not same2(R.to_plain(res), mres):
        problem = ('result', f'model returned {mres!r:.200}, symbolic {R.to_plain(res)!r:.200}')
      elif isinstance(mres, (dict, list)) and members0 is not None:
        # Python returns the STORED object itself (setdefault, pop, popitem):
        # the result is the member the container held / holds at that key.
        why = result_identity(forest, step, members0, mnode, mres, res)
        c['result_identity_checks'] += why is not None
        if why:
          problem = ('result-identity', why)
    bad = read_checks(ctx, rng, forest[0], model[0], json_paths=rng.random() < 0.5)
    bad_model = model[0]
    if not bad:
      # The same read paths on a nested container (it is a list/dict too).
      pair = nested_pair(rng, forest[0], model[0])
      if pair is not None:
        c['nested_read_rounds'] += 1
        bad_model = pair[1]
        bad = [(cl, 'nested container: ' + dt) for cl, dt in
               read_checks(ctx, rng, pair[0], pair[1], json_paths=rng.random() < 0.25)]
    mbad = []
    if not bad:
      mbad = member_checks(ctx, rng, forest[0], model[0])
    mech = step['op']
    member_mech = {}
    if problem and problem[0] == 'result-identity' and not mbad and not any(
        cl == 'contents' for cl, _ in bad):
      pass       # (the counterfactual runs below do not look at the identity of a result)
    elif problem or mbad or any(cl == 'contents' for cl, _ in bad):
      sp = needs_special_operand(step) or node_operand_family(step, forest)
      if sp:
        mech = special_mech('construction', sp)
      else:
        sp = needs_special(step, before)
        if sp:
          mech = special_mech(step['op'], sp, step, before)
      oc = None if sp else needs_forms(step, before)
      if sp:
        # (the contents of an operation that wrongly raised are those before it)
        if (problem and problem[0] == 'outcome' and status == 'raise'
            and same2(R.to_plain(forest[0]), before)):
          bad = [(cl, dt) for cl, dt in bad if cl != 'contents']
      elif oc:
        mech += '/' + oc
        # A member that stays plain because of the class of the operand: the
        # operation is immaterial (the same step with built-in operands agrees).
        for what in ('dict', 'list'):
          if what + '-subclass-operand' in oc.split('+'):
            member_mech[what] = what + '-subclass-operand'
      elif needs_notify_off(step, before):
        mech += '@notify_off'
    if problem and problem[0] == 'member-not-symbolic':
      ctx.violation(problem[0], member_mech.get(problem[2], mech),
                    f'step {len(trace)}: {trace[-1]}\n{problem[1]}', witness())
      problem = ('reported',)
    if problem and problem[0] != 'reported':
      ctx.violation(problem[0], mech, f'step {len(trace)}: {trace[-1]}\n{problem[1]}', witness())
    seen_clause = set()
    for clause, detail in bad:
      if clause not in seen_clause:
        seen_clause.add(clause)
        # The stored state differs: attribute to the operation. The state is
        # right but a read path disagrees with it: attribute to the read path.
        rmech = mech
        if clause != 'contents':
          f = needs_special_read(ctx, bad_model, clause)
          rmech = 'read-path' + ('/' + f if f else '')
        ctx.violation('read-' + clause, rmech,
                      f'step {len(trace)}: {trace[-1]}\n{detail}', witness())
    seen_clause = set()
    for clause, detail, what in mbad:
      if clause not in seen_clause:
        seen_clause.add(clause)
        rmech = member_mech.get(what, mech)
        if clause == 'read-path-query':
          f = needs_special_path_read(ctx, model[0])
          rmech = 'read-path' + ('/' + f if f else '')
        ctx.violation(clause, rmech,
                      f'step {len(trace)}: {trace[-1]}\n{detail}', witness())
    if problem or bad or mbad:
      # heal: re-synchronise the symbolic side from the model
      if not heal(ctx, rng, forest, model):
        break
    fresh = []
    if not same2(before, model[0]):
      changed += 1
      if not step.get('through'):
        fresh = written_containers(before, model[0])[:8]
    if H.total_size(forest) > 300:
      break
  if changed >= 5:
    ctx.mark_nontrivial((tuple(t.split('(')[0].split('.', 1)[-1] for t in trace), repr(model[0])))
  ctx.seen('final_contents', repr(model[0]))
  if i < 2:
    ctx.sample({'initial': shown0, 'history': trace[:10], 'final': repr(model[0])[:300]})
