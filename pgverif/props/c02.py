"""C02 — pg.List / pg.Dict vs built-in list / dict under every mutation history."""
import copy

import pyglove as pg
from pgverif.gen import desc as D
from pgverif.gen import history as H
from pgverif.gen import ops as O
from pgverif.gen import values as V
from pgverif.monitors import refmodel as R

TIERS = {
    'quick': dict(shards=4, cases=250, steps=40),
    'thorough': dict(shards=16, cases=3000, steps=60),
}
RULE = ('case = one value-spec-less pg.List or pg.Dict (0-6 initial members, str '
        'and int keys, nested containers) and a history of operations from the '
        'whole list/dict API (indices/slices in [-len-2, len+2], steps in '
        '{None,1,2,3,-1,-2}) applied to it or to a nested container, mirrored on a '
        'built-in list/dict; outcome and all read paths compared after every '
        'step. Non-trivial = at least 5 steps changed the container; distinct by '
        '(operation sequence, final contents).')
REQUIRED_COUNTERS = ['steps', 'read_checks', 'outcome_both_raise', 'outcome_both_ok']
ASSUMPTIONS = [
    'CPython list/dict semantics are the reference',
    'documented extensions are modelled: MISSING_VALUE deletes, rebind past the end appends, Insertion inserts, plain containers become symbolic',
    'a batch rebind never has two targets past the end of one list, nor a target that is a prefix of another (unspecified order)',
    'NaN is not used as a value (identity vs equality is not part of the claim)',
]


def leaf(rng):
  r = rng.random()
  if r < 0.55:
    return rng.randint(0, 9)
  if r < 0.75:
    return rng.choice(['a', 'b', 'c', '', 'a.b', '[0]', '0'])
  if r < 0.83:
    return None
  if r < 0.9:
    return rng.random() < 0.5
  return rng.choice([0.5, -1.5, 2.0])


def keygen(rng):
  r = rng.random()
  if r < 0.65:
    return rng.choice(V.SAFE_KEYS)
  if r < 0.85:
    return rng.randint(0, 3)
  return rng.choice(['0', '1', 'x y', 'é', 'a-b', 'a.b', 'p.q', '[0]', 'a[1]'])


def initial(rng):
  kind = rng.choice(['L', 'D'])
  n = rng.randint(0, 6)
  def val(d):
    r = rng.random()
    if d >= 2 or r < 0.6:
      return ['v', leaf(rng)]
    m = rng.randint(0, 3)
    if r < 0.8:
      ks = []
      for _ in range(m):
        k = keygen(rng)
        if k not in ks:
          ks.append(k)
      return [rng.choice('Dd'), [[k, val(d + 1)] for k in ks]]
    return [rng.choice('Ll'), [val(d + 1) for _ in range(m)]]
  if kind == 'L':
    return ['L', [val(0) for _ in range(n)]]
  ks = []
  for _ in range(n):
    k = keygen(rng)
    if k not in ks:
      ks.append(k)
  return ['D', [[k, val(0)] for k in ks]]


class Values:
  """Operand source for C02 (plain and symbolic containers, aliases)."""

  def __init__(self, forest, target):
    self.forest, self.target = forest, target

  def __call__(self, rng, node, key):
    r = rng.random()
    if r < 0.1:
      # Ancestors-or-self of the target are excluded: when such a value is
      # copied relative to the other writes of the same call is unspecified.
      cands = [(ri, ks) for ri, ks, n in H.all_nodes(self.forest)
               if ks and not H.is_prefix(ks, self.target[1])]
      if cands:
        ri, ks = rng.choice(cands)
        return ['node', ri, ks]
    if r < 0.6:
      return ['v', leaf(rng)]
    return D.gen(rng, 2, leaf=leaf, classes=(), typed=False, leaves=False,
                 int_keys=True)


def rebind_ok(step, node):
  """Filters batches whose outcome the property leaves open."""
  if step['op'] != 'rebind':
    return True
  tails = {}
  ups = step['args']['updates']
  if len(ups) > 1:
    # Unspecified within one batch: when an aliased operand is copied relative
    # to the other writes, and whether paths through a list refer to positions
    # before or after an insertion/deletion of the same batch.
    if any(v[0] == 'node' or (v[0] == 'ins' and v[1][0] == 'node') for _, v in ups):
      return False
    for rel, v in ups:
      if v[0] in ('ins', 'missing') and isinstance(O.node_at(node, rel[:-1]), pg.List):
        p = rel[:-1]
        if any(len(r2) > len(p) + 1 and r2[:len(p)] == p for r2, _ in ups):
          return False
        # Several writes into one list are applied relative to the original
        # positions only when rebind is called on that list itself.
        if p and sum(1 for r2, _ in ups if r2[:-1] == p) > 1:
          return False
  for rel, v in ups:
    parent = O.node_at(node, rel[:-1])
    if isinstance(parent, pg.List) and isinstance(rel[-1], int) and rel[-1] >= len(parent):
      tails[id(parent)] = tails.get(id(parent), 0) + 1
    if isinstance(parent, pg.Dict) and v[0] == 'ins':
      return False
    if isinstance(rel[-1], str) and not rel[-1].isidentifier() and step['args']['style'] == 'raw':
      return False          # a raw str key is parsed as a path by rebind (documented)
  return all(c <= 1 for c in tails.values())


def gen_step(rng, forest):
  nodes = H.all_nodes(forest)
  for _ in range(30):
    ridx, keys, node = rng.choice(nodes)
    cands = [o for o in O.ops_for(node, ('mutate', 'new')) if o.name in R.MODEL_OPS]
    o = rng.choice(cands)
    g = O.GenEnv(rng, Values(forest, (ridx, keys)), forest)
    args = o.gen(g, node)
    if args is None:
      continue
    step = {'op': o.name, 'at': [ridx, keys], 'args': args, 'scopes': []}
    if o.name == 'rebind':
      args['opts'] = {}
      if not rebind_ok(step, node):
        continue
    return step
  return None


def model_execute(model, step):
  node = model[step['at'][0]]
  for k in step['at'][1]:
    node = node[k]
  BP = lambda d: R.build_plain(d, model)
  try:
    return 'ok', R.MODEL_OPS[step['op']](node, step['args'], BP), node
  except Exception as e:  # pylint: disable=broad-except
    return 'raise', e, node


def read_checks(ctx, rng, root, m):
  """All read paths of the symbolic container must agree with the model.

  Returns [(clause, detail)]; clause 'contents' means the stored state itself
  differs, any other clause names the read path that disagrees with it."""
  bad = []
  c = ctx.counters

  def chk(name, real_fn, model_fn, detail=''):
    """Both sides are evaluated; values or exception classes must agree."""
    c['read_checks'] += 1
    try:
      exp = ('ok', model_fn())
    except Exception as e:  # pylint: disable=broad-except
      exp = ('raise', R.error_class(e))
    try:
      got = ('ok', R.to_plain(real_fn()))
    except Exception as e:  # pylint: disable=broad-except
      got = ('raise', R.error_class(e))
    ok = exp[0] == got[0] and (R.same(exp[1], got[1]) if exp[0] == 'ok'
                               else exp[1] == got[1])
    if not ok:
      bad.append((name, f'{detail} expected {exp!r:.200} got {got!r:.200}'))

  chk('contents', lambda: root, lambda: m)
  if bad:
    return bad
  chk('len', lambda: len(root), lambda: len(m))
  chk('eq-plain', lambda: ((root == m), (m == root), (root != m)),
      lambda: (True, True, False))
  chk('to_json', lambda: pg.to_json(root), lambda: m)
  if isinstance(m, list):
    chk('iter', lambda: [x for x in root], lambda: m)
    chk('list()', lambda: list(root), lambda: m)
    for _ in range(3):
      a, b = rng.randint(-len(m) - 2, len(m) + 2), rng.randint(-len(m) - 2, len(m) + 2)
      st = rng.choice([None, 1, 2, -1, -2, 3])
      sl = slice(rng.choice([None, a]), rng.choice([None, b]), st)
      chk('slice', lambda: root[sl], lambda: m[sl], f'{sl}')
    for i in range(-len(m) - 1, len(m) + 1):
      chk('getitem', lambda: root[i], lambda: m[i], f'[{i}]')
    for p in list(m[:3]) + ['__absent__', 99]:
      chk('in', lambda: p in root, lambda: p in m, f'{p!r}')
      chk('count', lambda: root.count(p), lambda: m.count(p), f'{p!r}')
      chk('index', lambda: root.index(p), lambda: m.index(p), f'{p!r}')
  else:
    chk('keys', lambda: (list(root.keys()), list(root)),
        lambda: (list(m.keys()), list(m)))
    chk('dict()', lambda: dict(root), lambda: m)
    chk('values', lambda: list(root.values()), lambda: list(m.values()))
    chk('items', lambda: [(k, v) for k, v in root.items()],
        lambda: [(k, v) for k, v in m.items()])
    for k in list(m.keys())[:4] + ['__absent__', 77]:
      chk('in', lambda: k in root, lambda: k in m, f'{k!r}')
      chk('get', lambda: root.get(k, 'dflt'), lambda: m.get(k, 'dflt'), f'{k!r}')
      chk('getitem', lambda: root[k], lambda: m[k], f'[{k!r}]')
  return bad


def cases(ctx):
  return ctx.params['cases']


def run_case(ctx, i):
  rng = ctx.rng
  c = ctx.counters
  d0 = initial(rng)
  forest = [D.build(d0)]
  model = [R.build_plain(d0, None)]
  trace, changed = [], 0
  for clause, detail in read_checks(ctx, rng, forest[0], model[0]):
    ctx.violation('read-' + clause, 'construction' if clause == 'contents' else 'read-path',
                  detail, {'initial': D.show(d0)})
    return
  n_steps = rng.randint(ctx.params['steps'] // 2, ctx.params['steps'])
  for _ in range(n_steps):
    step = gen_step(rng, forest)
    if step is None:
      break
    before = copy.deepcopy(model[0])
    mstatus, mres, mnode = model_execute(model, step)
    ctx.label = step['op']
    status, res = O.execute(forest, step)
    ctx.label = None
    c['steps'] += 1
    c['op:' + step['op']] += 1
    trace.append(O.show_step(step))
    witness = lambda: {'initial': D.show(d0), 'history': trace[-15:]}
    mech = step['op']
    problem = None
    if mstatus != status:
      problem = ('outcome', f'model: {mstatus} {mres!r:.200}; symbolic: {status} {res!r:.300}')
    elif status == 'raise':
      c['outcome_both_raise'] += 1
      if R.error_class(res) != R.error_class(mres):
        problem = ('error-class', f'model raised {type(mres).__name__}, symbolic raised '
                   f'{type(res).__name__}: {res!s:.200}')
    else:
      c['outcome_both_ok'] += 1
      if step['op'] in R.RETURNS_SELF:
        node = D.resolve(forest, *step['at'])
        if step['op'] != 'rebind[fn]' and res is not node:
          problem = ('result', f'in-place operation returned {type(res).__name__} '
                     'which is not the target')
      elif O.OPS[step['op']].effect == 'new':
        if not R.same(R.to_plain(res), mres):
          problem = ('result', f'model {mres!r:.200} symbolic {R.to_plain(res)!r:.200}')
        elif step['op'] != 'Dict.__or__' and not isinstance(res, (pg.List, pg.Dict)):
          problem = ('result', f'copy is a {type(res).__name__}')
      elif not R.same(R.to_plain(res), mres):
        problem = ('result', f'model returned {mres!r:.200}, symbolic {R.to_plain(res)!r:.200}')
    if problem:
      ctx.violation(problem[0], mech, f'step {len(trace)}: {trace[-1]}\n{problem[1]}', witness())
    bad = read_checks(ctx, rng, forest[0], model[0])
    seen_clause = set()
    for clause, detail in bad:
      if clause not in seen_clause:
        seen_clause.add(clause)
        # The stored state differs: attribute to the operation. The state is
        # right but a read path disagrees with it: attribute to the read path.
        ctx.violation('read-' + clause, mech if clause == 'contents' else 'read-path',
                      f'step {len(trace)}: {trace[-1]}\n{detail}', witness())
    if problem or bad:
      # heal: re-synchronise the symbolic side from the model
      forest[0] = pg.from_json(copy.deepcopy(model[0])) if not isinstance(model[0], (list, dict)) else (
          pg.List(copy.deepcopy(model[0])) if isinstance(model[0], list) else pg.Dict(copy.deepcopy(model[0])))
      c['heals'] += 1
      if read_checks(ctx, rng, forest[0], model[0]):
        c['abandoned'] += 1
        break
    if not R.same(before, model[0]):
      changed += 1
    if H.total_size(forest) > 300:
      break
  if changed >= 5:
    ctx.mark_nontrivial((tuple(t.split('(')[0].split('.', 1)[-1] for t in trace), repr(model[0])))
  ctx.seen('final_contents', repr(model[0]))
  if i < 2:
    ctx.sample({'initial': D.show(d0), 'history': trace[:10], 'final': repr(model[0])[:300]})
