"""C03 — a typed symbolic value always satisfies its declared schema."""
import collections
import contextlib
import copy

import pyglove as pg
from pgverif import models as M
from pgverif.gen import desc as D
from pgverif.gen import history as H
from pgverif.gen import ops as O
from pgverif.gen import values as V
from pgverif.monitors import schema as SM
from pgverif.monitors import tree as TM

T = pg.typing

TIERS = {
    'quick': dict(shards=6, cases=150, steps=30),
    'thorough': dict(shards=16, cases=800, steps=60),
}
RULE = ('case = a forest of 1-3 typed roots (object of a schema class incl. field-less classes '
        'and classes with required members nested 2-3 levels, pg.Dict or pg.List bound to a '
        'generated value spec incl. zero-field Dict specs, numeric bounds of exactly 0 / 0.0 / '
        '-0.0 on either or both sides, regular expressions; flags allow_partial x '
        'scope programs: the plain pg.allow_partial(True) scope or a stack of 1-3 '
        'pg.allow_partial scopes over {True, False, None} with scopes left again before the '
        'call (reference: the innermost open scope applies, None = the objects\' own flags), '
        'pg.enable_type_check stacks whose innermost open scope is True; a share of roots is '
        'first constructed from an invalid '
        'value) and a history mixing valid and invalid writes through every write path of '
        'the operation table, writes that make required members missing (addressed through '
        'the member or an ancestor), writes to undeclared keys, moves of live nodes/roots '
        'into typed fields, schema-less symbolic operands for typed fields, pg.Dict/pg.List '
        'operands typed with a spec RELATED to the receiving one (same shape; bounds incl. 0, '
        'expressions, sizes, noneable/frozen/default kept or changed) holding a value of their '
        'own spec, objects constructed without required arguments inside the scopes of the '
        'step, retries of a '
        'rejected write with the same operand objects, later use of rejected operands, and '
        'derived-state queries (is_partial, sym_missing, ...) between steps; schema_ok '
        're-validates every typed node after every step (partiality is decided by walking '
        'the members, tolerated only below a root/location that was explicitly made '
        'partial), rejected writes are checked for exception class, for leaving the tree '
        'unchanged and for leaving their operands in a state their schema accepts. '
        'Non-trivial = at least 3 accepted and 2 rejected writes; distinct by (root kind, '
        'operation/outcome sequence).')
REQUIRED_COUNTERS = ['schema_ok_evals', 'schema_ok_members', 'steps_ok', 'class_default_checks',
                     'steps_rejected', 'rejected_unchanged_checks', 'rejected_operand_checks',
                     'retries', 'typed_moves', 'observations', 'zero_field_nodes',
                     'scope_programs', 'related_typed_operands']
ASSUMPTIONS = [
    'type checking is on for every call (pg.enable_type_check(False) is only entered and left again before the call, or masked by an inner pg.enable_type_check(True))',
    'explicitly made partial = written inside scopes whose innermost OPEN pg.allow_partial scope is True (a root object stays so when it is moved into another tree); under an effective None the objects\' own allow_partial flags decide, under False no write may add a missing member (but what was partial-allowed before stays tolerated)',
    'a pg.Object member whose own allow_partial flag is set may be partial inside a holder that is not (the library never aligns the flag of an object with its holder\'s); the allow_partial flag of a typed pg.Dict/pg.List that the library set while the container was only read as an operand for another tree is NOT taken as "explicitly made partial" by its holder',
    'acceptance oracle: ValueSpec.apply on a detached plain copy of the stored member',
    'for batch operations (multi-path rebind, update, extend, slice assignment, |=, +=) a valid prefix may have been applied; only single-target rejected writes must leave the JSON of the tree unchanged',
    'a missing required member is tolerated below a root that was written to inside pg.allow_partial(True) (or derives from one), below a node whose allow_partial flag (own or ancestor) is set, and below a location whose declared spec does not constrain completeness (Any, Union, undeclared); everywhere else it is a violation, whatever is_partial of the library says',
    'the content of the operand of a rejected write is a don\'t-care (it may have been converted in place); if it carries a schema afterwards it must satisfy it',
]
ALLOWED_ERRORS = (TypeError, ValueError, KeyError, IndexError, pg.WritePermissionError)
OBSERVERS = ('is_partial', 'sym_partial', 'sym_missing', 'missing_values', 'sym_nondefault',
             'non_default_values', 'sym_missing[flat]')
NESTED_KINDS = ('ReqHolder', 'ReqHolder', 'ReqTop', 'ReqTop', 'ReqMid', 'ReqMid', 'ReqLeaf', 'Empty',
                'HolderDict', 'EmptyDict', 'MidList')


# Numeric bounds: lower <= upper for every pair; 0 / 0.0 / -0.0 are bounds of
# their own on both sides. Regular expressions: full-string patterns over the
# alphabet of the shared string values (the first accepts all of them).
INT_LO = [None, None, 0, -2, -1]
INT_HI = [None, 0, 0, 5, 9]
FLOAT_LO = [None, None, 0.0, -0.0, -1.5]
FLOAT_HI = [None, 0.0, -0.0, 1.0, 4.0]
REGEXES = [r'[a-z.<>]*$', r'[a-z]*$', r'.+$']


def rand_spec(rng, depth=0):
  r = rng.random()
  if depth >= 2 or r < 0.45:
    k = rng.choice(['int', 'int', 'float', 'str', 'enum', 'bool', 'any', 'union', 'obj',
                    'objreq', 'empty'])
    if k == 'int':
      # bounds include the boundary value 0 on either side (and on both)
      s = T.Int(min_value=rng.choice(INT_LO), max_value=rng.choice(INT_HI))
    elif k == 'float':
      s = T.Float(min_value=rng.choice(FLOAT_LO), max_value=rng.choice(FLOAT_HI))
    elif k == 'str':
      s = T.Str(regex=rng.choice(REGEXES)) if rng.random() < 0.35 else T.Str()
    elif k == 'enum':
      s = T.Enum('a', ['a', 'b', 3])
    elif k == 'bool':
      s = T.Bool()
    elif k == 'any':
      s = T.Any()
    elif k == 'union':
      s = T.Union([T.Int(min_value=0), T.Str()])
    elif k == 'objreq':
      s = T.Object(rng.choice([M.ReqLeaf, M.ReqMid, M.ReqMid, M.ReqTop]))
    elif k == 'empty':
      s = T.Object(M.Empty) if rng.random() < 0.5 else T.Dict([])
    else:
      s = T.Object(M.Inner)
    if rng.random() < 0.25 and k != 'any':
      s = s.noneable()
    if rng.random() < 0.12 and k not in ('any', 'obj', 'objreq', 'empty'):
      # frozen (alone or together with noneable): the frozen value is the only
      # acceptable one, None included.
      try:
        fv = V.value_for(s, rng, valid=True)
        if fv is not None:
          s = s.freeze(fv)
      except Exception:  # pylint: disable=broad-except
        pass
    return s
  if r < 0.75:
    lo = rng.choice([0, 0, 1, 2]); hi = rng.choice([None, lo + 1, lo + 3])
    return T.List(rand_spec(rng, depth + 1), min_size=lo, max_size=hi)
  fields = []
  # zero declared keys is a schema too (every key is undeclared)
  for name in rng.sample(['a', 'b', 'c', 'd'], rng.choice([0, 1, 1, 2, 2, 3])):
    fs = rand_spec(rng, depth + 1)
    if rng.random() < 0.5:
      try:
        fs = fs.set_default(V.value_for(fs, rng, valid=True))
      except Exception:  # pylint: disable=broad-except
        pass
    fields.append((name, fs))
  if rng.random() < 0.4:
    fields.append((T.StrKey(), rand_spec(rng, depth + 1)))
  return T.Dict(fields)


HOLDER_DICT_SPEC = T.Dict([
    ('top', T.Object(M.ReqTop).noneable()),
    ('mid', T.Object(M.ReqMid).noneable()),
    ('e', T.Dict([])),
    ('eo', T.Object(M.Empty).noneable()),
    ('sd', T.Dict([('x', T.Int(default=0))]).noneable()),
    ('sl', T.List(T.Int()).noneable()),
    # numeric bounds at the boundary value 0 (upper, lower, both; -0.0)
    ('zb', T.Dict([('i', T.Int(max_value=0, default=0)),
                   ('f', T.Float(min_value=-1.0, max_value=0.0, default=0.0)),
                   ('p', T.Int(min_value=0, max_value=0, default=0))]).noneable()),
    ('zl', T.List(T.Float(max_value=-0.0), max_size=3).noneable()),
    (T.StrKey(), T.Object(M.ReqMid)),
])


def nested_root(rng, kind=None):
  """(label, value) of the C03 model classes: required members nested several
  levels, holders with non-partial typed fields, zero-field schemas."""
  kind = kind or rng.choice(NESTED_KINDS)
  if kind == 'HolderDict':
    v = pg.Dict(V.value_for(HOLDER_DICT_SPEC, rng, valid=True), value_spec=HOLDER_DICT_SPEC)
    return 'pg.Dict(value_spec=HOLDER_DICT_SPEC)', v
  if kind == 'EmptyDict':
    return 'pg.Dict(value_spec=Dict([]))', pg.Dict(value_spec=T.Dict([]))
  if kind == 'MidList':
    spec = T.List(T.Object(M.ReqMid), max_size=3)
    return 'pg.List(value_spec=List(Object(ReqMid), max_size=3))', pg.List(
        V.value_for(spec, rng, valid=True), value_spec=spec)
  d = D.typed_obj(rng, kind, fill=0.4)
  return D.show(d), D.build(d)


def spec_root(rng):
  """pg.Dict / pg.List bound to a generated spec; a share is first constructed
  from an invalid value (which must be refused). Returns (label, value, refused)."""
  for _ in range(20):
    spec = rand_spec(rng, 0)
    while not isinstance(spec, (T.List, T.Dict)):
      spec = rand_spec(rng, 0)
    partial = rng.random() < 0.3
    ctor = pg.List if isinstance(spec, T.List) else pg.Dict
    if rng.random() < 0.2 and not partial:
      bad = V.invalid_for(spec, rng)
      if isinstance(spec, T.Dict) and spec.schema is not None and (
          not spec.schema.dynamic_field) and rng.random() < 0.6:
        # the reference rule for an undeclared key does not consult the library
        bad = dict(V.value_for(spec, rng, valid=True) or {})
        bad[rng.choice(['zz', 'nk', 'x1'])] = rng.choice([1, 'v', None])   # never declared
      if isinstance(bad, (dict if ctor is pg.Dict else list)):
        try:
          v = ctor(copy.deepcopy(bad), value_spec=spec)
          return (f'{ctor.__name__}({bad!r:.120}, value_spec={spec!r}) [invalid initial value]',
                  v, False)
        except (TypeError, ValueError, KeyError):
          pass
    try:
      v = ctor(V.value_for(spec, rng, valid=True), value_spec=spec, allow_partial=partial)
      return f'{type(v).__name__}(value_spec={spec!r}, allow_partial={partial})', v, True
    except (TypeError, ValueError, KeyError):
      continue
  return None


def frozen_holder_spec():
  """Fields frozen to a container / an object (fresh spec objects per call)."""
  return [('fl', T.List(T.Int()).freeze([1, 2])),
          ('fd', T.Dict([('k', T.Int()), ('v', T.List(T.Int(), default=[0]))]).freeze({'k': 1})),
          ('fo', T.Object(M.ReqLeaf).freeze(M.ReqLeaf(y=1))),
          ('n', T.Int(min_value=0, default=0)),
          ('ol', T.List(T.Int(), max_size=3, default=[]))]


def frozen_root(rng):
  """A value whose schema freezes fields to symbolic values (list, dict, object):
  an object of a class that is created for this case only (its schema is class
  state; a defect may change it), or a pg.Dict bound to such a spec."""
  kw = {}
  if rng.random() < 0.6:
    kw['n'] = rng.randint(0, 5)
  if rng.random() < 0.5:
    kw['ol'] = [rng.randint(0, 9) for _ in range(rng.randint(0, 3))]
  if rng.random() < 0.6:
    @pg.members(frozen_holder_spec())
    class FrozenHolder(pg.Object):
      pass
    return (f'[frozen-members] FrozenHolder({kw}) (class of this case; fl/fd/fo frozen to '
            '[1, 2] / {k=1} / ReqLeaf(y=1))'), FrozenHolder(**kw)
  spec = T.Dict(frozen_holder_spec())
  return f'[frozen-members] pg.Dict({kw}, value_spec={spec!r})', pg.Dict(kw, value_spec=spec)


def frozen_member_kind(root):
  """Kind of a symbolic member stored under a frozen field of `root`'s tree that
  differs from the frozen value (its interior was written), else None."""
  try:
    for p, k, ch, _ in TM.walk(root):
      f = p.sym_attr_field(k)
      if f is not None and f.value.frozen and f.value.has_default and not pg.eq(
          ch, f.value.default):
        return kind_of(ch)
  except Exception:  # pylint: disable=broad-except
    pass
  return None


def make_root(rng):
  """Returns (description, value)."""
  r = rng.random()
  if r < 0.035:
    return frozen_root(rng)
  if r < 0.3:
    d = D.typed_obj(rng, 'Typed2' if rng.random() < 0.3 else None)
    return D.show(d), D.build(d)
  if r < 0.38:
    kw = {}
    if rng.random() < 0.6:
      kw['r'] = rng.randint(0, 5)
    if rng.random() < 0.5:
      kw['rd'] = {'a': 1} if rng.random() < 0.5 else {}
    return f'Required.partial({kw})', M.Required.partial(**kw)
  if r < 0.62:
    return nested_root(rng)
  got = spec_root(rng)
  if got is not None:
    return got[0], got[1]
  d = D.typed_obj(rng, 'Typed')
  return D.show(d), D.build(d)


def snapshot(forest):
  out = []
  for r in forest:
    if isinstance(r, pg.Symbolic):
      try:
        out.append(pg.to_json_str(r))
      except Exception as e:  # pylint: disable=broad-except
        out.append(f'<unserializable {type(e).__name__}>')
    else:
      out.append(None)
  return out


def schema_classes():
  return [c for c in vars(M).values()
          if isinstance(c, type) and issubclass(c, pg.Object) and c is not pg.Object
          and c.__module__ == M.__name__]


def is_typed(n):
  return isinstance(n, pg.Object) or (
      isinstance(n, (pg.Dict, pg.List)) and n.value_spec is not None)


def kind_of(v):
  return O.node_kind(v) or type(v).__name__


# -- scope programs -------------------------------------------------------------
#
# step['scopes'] is a list of scope names, entered outer -> inner around the call.
# Besides the names of O.SCOPES ('partial' = pg.allow_partial(True), ...):
#   'partial=True|False|None'     pg.allow_partial(v) entered (and left after the call)
#   'typecheck=True|False'        pg.enable_type_check(v)
#   'visit:<one of the above>'    entered and LEFT again at this nesting level,
#                                 before the scopes that follow and before the call
# The flag that applies to the call is the one of the innermost scope that is
# still open ("the allow flag of immediate parent context is effective");
# allow_partial(None) = honour the allow_partial flag of the objects themselves.

_VALS = {'True': True, 'False': False, 'None': None}
_FLAGS = {'partial': pg.allow_partial, 'typecheck': pg.enable_type_check}


def parse_scope(name):
  """(visit, flag, has value, value)."""
  visit = name.startswith('visit:')
  base = name[6:] if visit else name
  if '=' in base:
    flag, val = base.split('=')
    return visit, flag, True, _VALS[val]
  return visit, base, False, None


@contextlib.contextmanager
def scopes(names):
  with contextlib.ExitStack() as st:
    for name in names:
      visit, flag, has_val, val = parse_scope(name)
      cm = _FLAGS[flag](val) if has_val else O.SCOPES[flag]()
      if visit:
        with cm:
          pass
      else:
        st.enter_context(cm)
    yield


def effective(names, flag, default):
  """Reference: the value of `flag` that applies inside the scopes `names`."""
  cur = default
  for name in names or ():
    visit, f, has_val, val = parse_scope(name)
    if visit:
      continue
    if name == 'partial' and flag == 'partial':
      cur = True
    elif name == 'no_typecheck' and flag == 'typecheck':
      cur = False
    elif has_val and f == flag:
      cur = val
  return cur


def eff_partial(names):
  """True: partial values were explicitly allowed for the call; False: forbidden;
  None: the objects' own allow_partial flags decide."""
  return effective(names, 'partial', None)


def partial_program(rng, p_simple=0.5):
  """A stack of allow_partial scopes over {True, False, None}, depth 1-3, with
  scopes that were left again before the call."""
  if rng.random() < p_simple:
    return ['partial']
  out = []
  for _ in range(rng.randint(1, 3)):
    tok = f'partial={rng.choice([True, False, None])}'
    out.append('visit:' + tok if rng.random() < 0.25 else tok)
  return out


def typecheck_program(rng):
  """A stack of enable_type_check scopes whose innermost open one is True (the
  property is quantified over type checking on)."""
  out = []
  for _ in range(rng.randint(1, 2)):
    tok = f'typecheck={rng.random() < 0.5}'
    out.append('visit:' + tok if rng.random() < 0.3 else tok)
  if effective(out, 'typecheck', True) is not True:
    out.append('typecheck=True')
  return out


def merge_programs(rng, a, b):
  """Interleaves two programs, each keeping its own order."""
  a, b, out = list(a), list(b), []
  while a or b:
    src = a if (a and (not b or rng.random() < 0.5)) else b
    out.append(src.pop(0))
  return out


def scope_program(rng, p_partial, p_typecheck=0.05, p_simple=0.5):
  out = partial_program(rng, p_simple) if rng.random() < p_partial else []
  if rng.random() < p_typecheck:
    out = merge_programs(rng, out, typecheck_program(rng))
  return out


def scope_suffix(names):
  """'' for no / the plain pg.allow_partial(True) scope, else the reference
  reading of the allow_partial program: effective value, nested or not."""
  toks = [parse_scope(n) for n in names or ()]
  toks = [t for t in toks if t[1] == 'partial' and t[2]]
  if not toks:
    return ''
  return f'@allow_partial[{eff_partial(names)}{",nested" if len(toks) > 1 else ""}]'


# -- related specs / reference diagnosis ------------------------------------------

class _Plan:
  """Which parameters of a spec are changed: every changeable parameter is a
  site (visited in a fixed order); either exactly one site is changed (`pick`)
  or every site with probability `p` (p == 0: only count the sites)."""

  def __init__(self, rng, pick=None, p=0.0):
    self.rng, self.pick, self.p, self.weights = rng, pick, p, []

  def hit(self, weight=1):
    i = len(self.weights)
    self.weights.append(weight)
    if self.pick is not None:
      return i == self.pick
    return self.p > 0 and self.rng.random() < self.p


def _vary_bound(rng, b, isint):
  zero = 0 if isint else rng.choice([0.0, -0.0])
  step = 1 if isint else 0.5
  opts = [None, zero, b + step, b - step] if b is not None else [zero, 3 * step, -step]
  opts = [x for x in opts if x is None or b is None or x != b or str(x) != str(b)]
  return rng.choice(opts)


def _variant(plan, spec, top):
  rng = plan.rng
  if isinstance(spec, (T.Int, T.Float)) and getattr(spec, 'transform', None) is None:
    isint = isinstance(spec, T.Int)
    lo, hi = spec.min_value, spec.max_value
    # bounds are what neighbouring schemas differ in most often
    if plan.hit(3):
      lo = _vary_bound(rng, lo, isint)
    if plan.hit(3):
      hi = _vary_bound(rng, hi, isint)
    if lo is not None and hi is not None and lo > hi:
      lo, hi = spec.min_value, spec.max_value
    s = (T.Int if isint else T.Float)(min_value=lo, max_value=hi)
  elif isinstance(spec, T.Str):
    rx = spec.regex.pattern if spec.regex is not None else None
    if plan.hit():
      rx = rng.choice([x for x in [None] + REGEXES if x != rx])
    s = T.Str(regex=rx)
  elif isinstance(spec, T.List):
    lo, hi = spec.min_size or 0, spec.max_size
    if plan.hit():
      lo = rng.choice([0, lo + 1] if lo else [1, 2])
    if plan.hit():
      hi = rng.choice([None, hi + 1, max(hi - 1, 0)] if hi is not None else [2, 3])
    if hi is not None and lo > hi:
      lo, hi = spec.min_size or 0, spec.max_size
    s = T.List(_variant(plan, spec.element.value, False), min_size=lo, max_size=hi)
  elif isinstance(spec, T.Dict):
    if spec.schema is None:
      return T.Dict()
    fields = []
    for k, f in spec.schema.fields.items():
      fields.append((k.text if isinstance(k, T.ConstStrKey) else copy.deepcopy(k),
                     _variant(plan, f.value, False)))
    s = T.Dict(fields)
  elif isinstance(spec, T.Enum):
    vals = list(spec.values)
    if plan.hit():
      vals = vals + ['zz'] if rng.random() < 0.5 else (vals[:-1] or vals)
    s = T.Enum(vals[0], vals)
  else:
    try:
      return copy.deepcopy(spec)
    except Exception:  # pylint: disable=broad-except
      return spec
  noneable = spec.is_noneable
  if not top and plan.hit():
    noneable = not noneable
  keep_frozen = not (spec.frozen and plan.hit())
  keep_default = not (spec.has_default and not spec.frozen and plan.hit())
  try:
    if noneable:
      s = s.noneable()
    if spec.frozen and spec.has_default:
      if keep_frozen:
        s = s.freeze(copy.deepcopy(spec.default))
    elif spec.has_default and spec.default is not None and not top and keep_default:
      s = s.set_default(copy.deepcopy(spec.default))
  except Exception:  # the kept default does not fit the changed bounds
    pass             # pylint: disable=broad-except
  return s


def variant_spec(rng, spec):
  """A spec RELATED to `spec`: same shape and keys; numeric bounds, regular
  expressions, size bounds, noneable / frozen / default modifiers are kept or
  changed (looser, tighter, dropped, boundary value 0) - in exactly one place
  (a neighbouring schema) or in several. What a user has at hand when a value
  typed for one schema is handed to a neighbouring one."""
  if rng.random() < 0.6:
    count = _Plan(rng)
    _variant(count, spec, True)
    if count.weights:
      pick = rng.choices(range(len(count.weights)), weights=count.weights)[0]
      return _variant(_Plan(rng, pick=pick), spec, True)
  return _variant(_Plan(rng, p=0.3), spec, True)


# Why the typed-operand shortcut (KNOWN defect B) lets a value through: the
# receiving spec's frozen-ness and List.min_size are not compared, and the
# allow_partial flag is trusted over the content.
DEFECT_B_REASONS = frozenset(['frozen', 'min_size', 'missing'])
REASON_ORDER = ['range', 'regex', 'max_size', 'enum', 'none', 'type', 'undeclared']


def diagnose(spec, v, out, depth=0):
  """Adds to `out` WHY `v` is not a value of `spec`, by reference rules over the
  public parameters of the spec only (no ValueSpec.apply)."""
  if depth > 10 or getattr(spec, 'transform', None) is not None:
    return
  if SM.is_missing(v):
    out.add('missing')           # incomplete content (or a default not filled in)
    return
  if spec.frozen:
    if spec.has_default and not pg.eq(v, spec.default):
      out.add('frozen')
    return
  if v is None:
    if not spec.is_noneable:
      out.add('none')
    return
  if isinstance(spec, (T.Int, T.Float)):
    if isinstance(v, bool):
      pass                       # left to the library (bool is an int)
    elif not isinstance(v, (int, float)) or (
        isinstance(spec, T.Int) and not isinstance(v, int)):
      out.add('type')
    elif v == v and ((spec.min_value is not None and v < spec.min_value) or
                     (spec.max_value is not None and v > spec.max_value)):
      out.add('range')
  elif isinstance(spec, T.Str):
    if not isinstance(v, str):
      out.add('type')
    elif spec.regex is not None and not spec.regex.match(v):
      out.add('regex')
  elif isinstance(spec, T.Bool):
    if not isinstance(v, bool):
      out.add('type')
  elif isinstance(spec, T.Enum):
    try:
      if v not in spec.values:
        out.add('enum')
    except Exception:  # pylint: disable=broad-except
      pass
  elif isinstance(spec, T.List):
    if not isinstance(v, list):
      out.add('type')
      return
    items = list(v.sym_values()) if isinstance(v, pg.List) else list(v)
    if len(items) < (spec.min_size or 0):
      out.add('min_size')
    if spec.max_size is not None and len(items) > spec.max_size:
      out.add('max_size')
    for x in items:
      diagnose(spec.element.value, x, out, depth + 1)
  elif isinstance(spec, T.Dict):
    if not isinstance(v, dict):
      out.add('type')
      return
    if spec.schema is None:
      return
    items = list(v.sym_items()) if isinstance(v, pg.Dict) else list(v.items())
    present = set()
    for k, x in items:
      present.add(k)
      f = spec.schema.get_field(k)
      if f is None:
        out.add('undeclared')
      else:
        diagnose(f.value, x, out, depth + 1)
    for k, f in spec.schema.fields.items():
      if isinstance(k, T.ConstStrKey) and k.text not in present and not f.value.has_default:
        out.add('missing')
  elif isinstance(spec, T.Object) and isinstance(spec.cls, type):
    if not isinstance(v, spec.cls):
      out.add('type')
    elif SM.first_missing(v) is not None:
      out.add('missing')


# -- operands -----------------------------------------------------------------

def as_symbolic_desc(v):
  """Schema-less symbolic form of a plain dict/list (members stay plain)."""
  if isinstance(v, dict):
    return ['D', [[k, ['v', x]] for k, x in v.items()]]
  if isinstance(v, list):
    return ['L', [['v', x] for x in v]]
  return None


def base_spec_kind(spec):
  for cls, name in ((T.Object, 'Object'), (T.Dict, 'Dict'), (T.List, 'List')):
    if isinstance(spec, cls):
      return name
  return None


def compatible_nodes(forest, target, spec, used_roots):
  """[(ridx, keys)] of live nodes whose kind fits a container/object spec."""
  kind = base_spec_kind(spec)
  tr, tk = target
  out = []
  for ridx, keys, n in H.all_nodes(forest):
    if ridx == tr and H.is_prefix(keys, tk) and not keys:
      continue                  # the target's own root: would form a cycle
    if not keys and ridx in used_roots:
      continue
    if kind == 'Object':
      cls = spec.cls
      if not (isinstance(cls, type) and isinstance(n, cls)):
        continue
    elif kind == 'Dict':
      if not isinstance(n, pg.Dict):
        continue
    elif not isinstance(n, pg.List):
      continue
    out.append((ridx, keys))
  return out


def typed_operand_desc(rng, spec, partial):
  """['T', ...] description of a pg.Dict / pg.List typed with a spec related to
  the Dict/List spec `spec`, holding a value of ITS OWN spec; None if none found."""
  kind = base_spec_kind(spec)
  if kind not in ('Dict', 'List'):
    return None
  for _ in range(4):
    own = variant_spec(rng, spec)
    try:
      content = V.value_for(own, rng, valid=True)
      for _ in range(5):
        if content is not None:
          break
        content = V.value_for(own, rng, valid=True)
      if not isinstance(content, dict if kind == 'Dict' else list):
        continue
      d = ['T', kind, content, own, bool(partial)]
      build_typed(d)
      return d
    except Exception:  # pylint: disable=broad-except
      continue
  return None


def partial_obj_desc(rng, spec):
  """['O', ...] description of an object of the class of an Object spec whose
  constructor call omits required arguments (legal where partial values are
  allowed, a TypeError elsewhere); None when the class has no required field."""
  cls = spec.cls
  if not (isinstance(cls, type) and issubclass(cls, pg.Object) and
          getattr(M, cls.__name__, None) is cls):
    return None
  d = D.typed_obj(rng, cls.__name__, fill=0.4)
  req = [k.text for k, f in cls.__schema__.fields.items()
         if isinstance(k, T.ConstStrKey) and not f.value.has_default]
  if not req:
    return None
  drop = set(rng.sample(req, rng.randint(1, len(req))))
  return ['O', d[1], [kv for kv in d[2] if kv[0] not in drop]]


class Values(H.ValueSource):
  """Adds to the shared value source, for locations typed with an Object, Dict
  or List spec: live nodes of the forest (roots are moved, inner nodes copied),
  schema-less pg.Dict / pg.List operands (valid or invalid content), pg.Dict /
  pg.List operands typed with a related spec of their own, and objects whose
  constructor call omits required arguments."""

  def __init__(self, forest, target, p_move=0.14, p_symbolic=0.3, stats=None, p_typed=0.08,
               p_partial_obj=0.12, p_huge=0.05, **kw):
    super().__init__(forest, target, **kw)
    self.p_huge = p_huge
    self.p_move, self.p_symbolic, self.stats = p_move, p_symbolic, stats
    self.p_typed, self.p_partial_obj = p_typed, p_partial_obj

  def __call__(self, rng, node, key):
    field = None
    if node is not None and key is not None:
      try:
        field = node.sym_attr_field(key)
      except Exception:  # pylint: disable=broad-except
        field = None
    if (field is not None and isinstance(field.value, T.Float) and not field.value.frozen and
        rng.random() < self.p_huge):
      # an int that no float can represent: not a value of any Float spec
      if self.stats is not None:
        self.stats['huge_int_operands'] += 1
      return ['v', rng.choice([10**400, -10**400])]
    if field is not None and base_spec_kind(field.value):
      r = rng.random()
      if r < self.p_move:
        cands = compatible_nodes(self.forest, self.target, field.value, self.used_roots)
        roots = [c for c in cands if not c[1]]
        if roots and rng.random() < 0.6:
          cands = roots
        if cands:
          ridx, keys = rng.choice(cands)
          if not keys:
            self.used_roots.add(ridx)
          if self.stats is not None:
            self.stats['typed_move_operands'] += 1
          return ['node', ridx, keys]
      elif r < self.p_move + self.p_symbolic and base_spec_kind(field.value) != 'Object':
        v = (V.invalid_for(field.value, rng) if rng.random() < 0.45
             else V.value_for(field.value, rng, valid=True))
        d = as_symbolic_desc(v)
        if d is not None:
          if self.stats is not None:
            self.stats['schemaless_symbolic_operands'] += 1
          return d
      elif (r < self.p_move + self.p_symbolic + self.p_typed and
            base_spec_kind(field.value) != 'Object'):
        flip = rng.random() < 0.15
        d = typed_operand_desc(rng, field.value, SM.effective_partial(node) != flip)
        if d is not None:
          if self.stats is not None:
            self.stats['related_typed_operands'] += 1
          return d
      elif r < self.p_move + self.p_partial_obj and base_spec_kind(field.value) == 'Object':
        d = partial_obj_desc(rng, field.value)
        if d is not None:
          if self.stats is not None:
            self.stats['partial_object_operands'] += 1
          return d
    return super().__call__(rng, node, key)


def build_typed(d):
  """['T', 'Dict'|'List', plain content, value spec, allow_partial]: a symbolic
  container that carries a spec of its own (built inside the scopes of the step)."""
  _, kind, content, spec, partial = d
  return (pg.Dict if kind == 'Dict' else pg.List)(
      copy.deepcopy(content), value_spec=spec, allow_partial=partial)


def execute(forest, step, record=None, replay=None):
  """O.execute that remembers the operand objects it built (`record`), or runs
  the step again with the very same operand objects (`replay`)."""
  o = O.OPS[step['op']]
  node = D.resolve(forest, step['at'][0], step['at'][1])
  if replay is not None:
    it = iter(replay)
    def B(d):
      got = next(it, None)
      return got[1] if got is not None else D.build(d, forest)
  else:
    def B(d):
      if d and d[0] == 'T':
        v = build_typed(d)
      elif d and d[0] == 'ins' and d[1] and d[1][0] == 'T':
        v = pg.Insertion(build_typed(d[1]))
      else:
        v = D.build(d, forest)
      if record is not None:
        x = v.value if isinstance(v, pg.Insertion) else v
        record.append((d, v, getattr(x, 'value_spec', None)))
      return v
  try:
    with scopes(step.get('scopes', ())):
      return 'ok', o.run(node, step['args'], B)
  except Exception as e:  # pylint: disable=broad-except
    return 'raise', e


def operands_of(record):
  """[(description, symbolic operand object, its value_spec before the call)]:
  operands the step built itself and live nodes it passed (`node` aliases)."""
  out = []
  for d, v, pre_spec in record:
    if isinstance(v, pg.Insertion):
      d, v = (d[1] if d and d[0] == 'ins' else d), v.value
    if isinstance(v, pg.Symbolic) and not isinstance(v, pg.Ref) and not any(
        v is x for _, x, _ in out):
      out.append((d, v, pre_spec))
  return out


def foreign_spec_kind(forest, at):
  """'Dict' / 'List' when a container on the path to the written node, or below
  it, carries a value_spec that is not the spec object of the Dict/List-typed
  field it is stored in (the library binds a plain or schema-less value to the
  field's own spec object; only a value that was typed before keeps its own)."""
  def foreign(p, k, ch):
    if not isinstance(ch, (pg.Dict, pg.List)) or ch.value_spec is None:
      return False
    try:
      f = p.sym_attr_field(k)
    except Exception:  # pylint: disable=broad-except
      return False
    return (f is not None and isinstance(f.value, (T.Dict, T.List)) and
            ch.value_spec is not f.value)
  try:
    n = forest[at[0]]
    if not isinstance(n, pg.Symbolic):
      return None
    for k in at[1]:
      ch = n.sym_getattr(k)
      if foreign(n, k, ch):
        return kind_of(ch)
      n = ch
    for p, k, ch, _ in TM.walk(n):
      if foreign(p, k, ch):
        return kind_of(ch)
  except Exception:  # pylint: disable=broad-except
    return None
  return None


def shortcut_reasons(forest, ridx, operands=()):
  """Reference reasons (see diagnose) why typed containers of root `ridx` are not
  values of the Dict/List spec of the field they are stored in: the containers
  that kept a value_spec of their own, the operand objects of the step and (an
  operand that had a parent is stored as a copy) containers with an operand's spec."""
  out = set()
  root = forest[ridx] if ridx < len(forest) else None
  if not isinstance(root, pg.Symbolic):
    return out
  try:
    for p, k, ch, _ in TM.walk(root):
      if not isinstance(ch, (pg.Dict, pg.List)) or ch.value_spec is None:
        continue
      try:
        f = p.sym_attr_field(k)
      except Exception:  # pylint: disable=broad-except
        continue
      if f is not None and isinstance(f.value, (T.Dict, T.List)) and (
          ch.value_spec is not f.value or any(
              ch is x or ch.value_spec is getattr(x, 'value_spec', None) for x in operands)):
        diagnose(f.value, ch, out)
  except Exception:  # pylint: disable=broad-except
    pass
  return out


def srepr(x):
  try:
    return repr(x)[:200]
  except Exception as e:  # pylint: disable=broad-except
    return f'<{type(x).__name__}: repr raised {type(e).__name__}>'


def stored_in_parent(v):
  par = v.sym_parent
  return par is not None and any(c is v for _, c in TM.children(par))


# -- directed steps ---------------------------------------------------------------

def rebind_step(ridx, keys, rel, value, rng, scopes):
  return {'op': 'rebind', 'at': [ridx, list(keys)],
          'args': {'updates': [[list(rel), value]], 'opts': {}, 'form': 'dict',
                   'style': rng.choice(['raw', 'keypath', 'str']),
                   'api': rng.choice(['rebind', 'rebind', 'sym_rebind'])},
          'scopes': scopes}


def address(rng, ridx, keys, rel):
  """The same location addressed from the node itself or from an ancestor."""
  cut = rng.randint(0, len(keys)) if rng.random() < 0.5 else len(keys)
  return ridx, keys[:cut], keys[cut:] + rel


def gen_make_missing(rng, forest):
  """A declared member of a typed Dict/Object is rebound to MISSING_VALUE
  (allowed inside pg.allow_partial(True) or in a partial value only)."""
  cands = []
  for ridx, keys, n in H.all_nodes(forest):
    if isinstance(n, pg.List) or not is_typed(n):
      continue
    for k in n.sym_keys():
      f = n.sym_attr_field(k)
      if f is not None and not f.value.frozen:
        cands.append((ridx, keys, k, not f.value.has_default, len(keys)))
  if not cands:
    return None
  req = [c for c in cands if c[3]]
  deep = [c for c in req if c[4] >= 1]
  pool = deep if deep and rng.random() < 0.6 else (req if req and rng.random() < 0.8 else cands)
  ridx, keys, k, _, _ = rng.choice(pool)
  ridx, at, rel = address(rng, ridx, keys, [k])
  # inside the plain pg.allow_partial(True) scope, a nested stack of scopes, or none
  sc = scope_program(rng, 0.8, p_simple=0.45)
  return rebind_step(ridx, at, rel, ['missing'], rng, sc)


def gen_undeclared(rng, forest):
  """A write to a key the schema does not declare (object / dict without a
  dynamic key), addressed from the node or an ancestor."""
  cands = []
  for ridx, keys, n in H.all_nodes(forest):
    if isinstance(n, pg.List) or not is_typed(n):
      continue
    schema, _ = SM.schema_of(n)
    if schema is None or schema.dynamic_field is not None:
      continue
    cands.append((ridx, keys, n, len(list(schema.fields.keys())) == 0))
  if not cands:
    return None
  zero = [c for c in cands if c[3]]
  ridx, keys, n, _ = rng.choice(zero if zero and rng.random() < 0.5 else cands)
  declared = {str(k) for k in SM.schema_of(n)[0].fields.keys()}
  names = [k for k in ('zz', 'nk', 'x1', 'undeclared_') if k not in declared]
  k = rng.choice(names)
  ridx, at, rel = address(rng, ridx, keys, [k])
  sc = scope_program(rng, 0.12) + (['notify_off'] if rng.random() < 0.05 else [])
  return rebind_step(ridx, at, rel, ['v', rng.choice([1, 'v', None, [1], {'a': 1}])], rng, sc)


def gen_move(rng, forest, stats, prefer=()):
  """A live root (or inner node) is assigned to a location typed with an
  Object/Dict/List spec of another (or the same) tree, outside any partial scope.
  prefer: root indices to use as the moved value when some location fits."""
  targets = []
  for ridx, keys, n in H.all_nodes(forest):
    if not is_typed(n):
      continue
    if isinstance(n, pg.List):
      f = n.sym_attr_field(0)
      if f is not None and base_spec_kind(f.value):
        targets.append((ridx, keys, n, len(n), f))
      continue
    schema, _ = SM.schema_of(n)
    if schema is None:
      continue
    for ks, f in schema.fields.items():
      if base_spec_kind(f.value) and not f.value.frozen:
        k = str(ks) if isinstance(ks, T.ConstStrKey) else rng.choice(['p', 'q', 'r1'])
        targets.append((ridx, keys, n, k, f))
  rng.shuffle(targets)
  if prefer:
    fits = []
    for t in targets:
      cands = [c for c in compatible_nodes(forest, (t[0], t[1] + [t[3]]), t[4].value, set())
               if not c[1] and c[0] in prefer]
      if cands:
        fits.append((t, cands))
    if not fits:
      return None
    targets = [rng.choice(fits)[0]]
  for ridx, keys, n, k, f in targets[:8]:
    cands = compatible_nodes(forest, (ridx, keys + [k]), f.value, set())
    roots = [c for c in cands if not c[1]]
    if prefer:
      cands = [c for c in roots if c[0] in prefer]
    elif roots and rng.random() < 0.75:
      cands = roots
    if not cands:
      continue
    sr, sk = rng.choice(cands)
    v = ['node', sr, sk]
    stats['typed_move_operands'] += 1
    form = rng.random()
    if isinstance(n, pg.List):
      if form < 0.4:
        return {'op': 'List.append', 'at': [ridx, keys], 'args': {'v': v}, 'scopes': []}
      if form < 0.6 and len(n):
        return {'op': 'List.__setitem__[int]', 'at': [ridx, keys],
                'args': {'i': rng.randrange(len(n)), 'v': v}, 'scopes': ['writable']}
      return rebind_step(*address(rng, ridx, keys, [len(n)]), v, rng, [])
    if form < 0.35:
      op = 'Dict.__setitem__' if isinstance(n, pg.Dict) else 'Object.__setattr__'
      if isinstance(n, pg.Dict) or k in set(n.sym_keys()):
        return {'op': op, 'at': [ridx, keys], 'args': {'k': k, 'v': v}, 'scopes': ['writable']}
    return rebind_step(*address(rng, ridx, keys, [k]), v, rng, [])
  return None


def gen_typed_operand(rng, forest, stats):
  """A pg.Dict / pg.List typed with a spec of its own that is RELATED to the
  Dict/List spec of a location (same shape; bounds, expressions, sizes, modifiers
  kept or changed) and holding a value of its own spec is written to that
  location: every write form, allow_partial flag mostly that of the receiver."""
  targets = []
  for ridx, keys, n in H.all_nodes(forest):
    if not is_typed(n):
      continue
    if isinstance(n, pg.List):
      f = n.sym_attr_field(0)
      if f is not None and base_spec_kind(f.value) in ('Dict', 'List'):
        targets.append((ridx, keys, n, len(n), f))
      continue
    schema, _ = SM.schema_of(n)
    if schema is None:
      continue
    for ks, f in schema.fields.items():
      if base_spec_kind(f.value) in ('Dict', 'List') and not f.value.frozen:
        k = ks.text if isinstance(ks, T.ConstStrKey) else rng.choice(['p', 'q', 'r1'])
        targets.append((ridx, keys, n, k, f))
  if not targets:
    return None
  ridx, keys, n, k, f = rng.choice(targets)
  flip = rng.random() < 0.15
  v = typed_operand_desc(rng, f.value, SM.effective_partial(n) != flip)
  if v is None:
    return None
  stats['related_typed_operands'] += 1
  form = rng.random()
  if isinstance(n, pg.List):
    if form < 0.3:
      return {'op': 'List.append', 'at': [ridx, keys], 'args': {'v': v}, 'scopes': []}
    if form < 0.45:
      return {'op': 'List.insert', 'at': [ridx, keys],
              'args': {'i': rng.randint(0, len(n)), 'v': v}, 'scopes': []}
    if form < 0.65 and len(n):
      return {'op': 'List.__setitem__[int]', 'at': [ridx, keys],
              'args': {'i': rng.randrange(len(n)), 'v': v}, 'scopes': ['writable']}
    if form < 0.8:
      return rebind_step(*address(rng, ridx, keys, [rng.randint(0, len(n))]), ['ins', v], rng, [])
    return rebind_step(*address(rng, ridx, keys, [len(n)]), v, rng, [])
  if form < 0.4:
    op = 'Dict.__setitem__' if isinstance(n, pg.Dict) else 'Object.__setattr__'
    if isinstance(n, pg.Dict) or k in set(n.sym_keys()):
      return {'op': op, 'at': [ridx, keys], 'args': {'k': k, 'v': v}, 'scopes': ['writable']}
  if form < 0.5 and isinstance(n, pg.Dict):
    return {'op': 'Dict.update', 'at': [ridx, keys],
            'args': {'items': [[k, v]], 'form': 'dict'}, 'scopes': []}
  return rebind_step(*address(rng, ridx, keys, [k]), v, rng, [])


def gen_step(rng, forest, p_scope, stats, max_nodes=60):
  """H.gen_step over the typed nodes of the forest with the widened value source."""
  nodes = H.all_nodes(forest)
  typed = [x for x in nodes if is_typed(x[2])]
  nodes = typed or nodes
  if not nodes:
    return None
  for _ in range(20):
    ridx, keys, node = rng.choice(nodes)
    cands = [o for o in O.ops_for(node, ('mutate', 'new')) if o.name != 'json-roundtrip']
    if len(nodes) > max_nodes:
      cands = [o for o in cands if o.effect != 'new'] or cands
    if not cands:
      continue
    o = rng.choice(cands)
    vs = Values(forest, (ridx, keys), stats=stats, p_alias=0.08, p_invalid=0.2, typed=True,
                allow_root_alias=True)
    args = o.gen(O.GenEnv(rng, vs, forest), node)
    if args is None:
      continue
    sc = [name for name, p in p_scope.items() if name != 'partial' and rng.random() < p]
    sc += scope_program(rng, p_scope.get('partial', 0.0), p_simple=0.4)
    return {'op': o.name, 'at': [ridx, keys], 'args': args, 'scopes': sc}
  return None


def zero_field_count(forest):
  n = 0
  for _, _, node in SM.typed_nodes(forest):
    schema, _ = SM.schema_of(node)
    if schema is not None and not list(schema.fields.keys()):
      n += 1
  return n


def observe(ctx, rng, forest):
  """Derived-state queries a user can issue at any time; they must not matter."""
  nodes = H.all_nodes(forest)
  picked = [x for x in nodes if not x[1]]
  picked += [rng.choice(nodes) for _ in range(min(2, len(nodes)))]
  for _, _, n in picked:
    g = rng.choice(OBSERVERS)
    ctx.label = 'observe:' + g
    if g == 'sym_missing[flat]':
      n.sym_missing(flatten=True)
    else:
      a = getattr(n, g)
      if callable(a):
        a()
    ctx.label = None
    ctx.counters['observations'] += 1


def setup(ctx):
  ctx.class_defaults = SM.defaults_snapshot(schema_classes())


def cases(ctx):
  return ctx.params['cases']


def run_case(ctx, i):
  rng = ctx.rng
  c = ctx.counters
  label, root = make_root(rng)
  case_cls = type(root) if type(root).__name__ == 'FrozenHolder' else None
  frozen_case = label.startswith('[frozen-members]')
  case_defaults = SM.defaults_snapshot([case_cls]) if case_cls else None
  forest = [root]
  labels = [label]
  if rng.random() < 0.55:
    # companions: values that can be moved into / hold members of the first root
    kinds = [rng.choice(NESTED_KINDS) for _ in range(rng.choice([1, 1, 2]))]
    if rng.random() < 0.6:
      # a value with required members nested two or more levels and a typed
      # location that can receive it
      kinds[0] = rng.choice(['ReqMid', 'ReqMid', 'ReqTop'])
      if not isinstance(root, (M.ReqHolder, M.ReqTop)) and len(kinds) < 2:
        kinds.append(rng.choice(['ReqHolder', 'ReqHolder', 'HolderDict', 'MidList', 'ReqTop']))
    for kind in kinds:
      l2, r2 = nested_root(rng, kind)
      forest.append(r2)
      labels.append(l2)
  label = ' ; '.join(labels)
  for r in forest:
    c['root:' + type(r).__name__] += 1
  taint = set()        # indices of roots that were explicitly made partial
  tainted_objs = {}    # id -> those root objects: they stay "explicitly made
                       # partial" when they are moved into another tree

  def mark_partial(j):
    taint.add(j)
    if isinstance(forest[j], pg.Symbolic):
      tainted_objs[id(forest[j])] = forest[j]

  def under_tainted(node):
    n, hops = node, 0
    while n is not None and hops < 200:
      if id(n) in tainted_objs:
        return True
      n, hops = n.sym_parent, hops + 1
    return False

  related_objs = {}    # id -> operands that were typed with a related spec
  flipped = {}         # id -> typed containers whose allow_partial flag was set by
                       # the library while they were only READ as an operand

  def unflipped_flags(forest_):
    return [n for _, _, n in H.all_nodes(forest_)
            if isinstance(n, (pg.Dict, pg.List)) and n.value_spec is not None
            and not n.allow_partial]

  def note_flips(pre, step):
    """Containers of OTHER trees than the written one whose flag is set now."""
    target = forest[step['at'][0]] if step['at'][0] < len(forest) else None
    for n in pre:
      try:
        if n.allow_partial and n.sym_root is not target and any(
            n.sym_root is r for r in forest):
          flipped[id(n)] = n
          c['operand_flag_flips'] += 1
      except Exception:  # pylint: disable=broad-except
        pass

  def flipped_kind(ridx):
    root = forest[ridx] if ridx < len(forest) else None
    if not flipped or not isinstance(root, pg.Symbolic):
      return None
    for n, _ in TM.nodes_of(root):
      if id(n) in flipped and flipped[id(n)] is n and n.allow_partial:
        return kind_of(n)
    return None

  def tolerate(ridx, keys, node):
    return (ridx in taint or SM.reached_unconstrained(forest[ridx], keys) or
            (bool(tainted_objs) and under_tainted(node)))

  def check():
    c['schema_ok_evals'] += 1
    return SM.schema_ok_nodes(forest, c, tolerate, object_flags=True)

  c['zero_field_nodes'] += zero_field_count(forest)
  first = check()
  for clause, detail in first:
    ctx.violation(clause, 'construction', detail, {'root': label})
  if first:
    return
  trace, kinds, n_ok, n_rej = [], [], 0, 0
  scope_p = {'writable': 0.45, 'notify_off': 0.08, 'partial': 0.12}
  n_steps = rng.randint(ctx.params['steps'] // 2, ctx.params['steps'])

  def heal_root(j):
    r = forest[j]
    try:
      forest[j] = pg.from_json(pg.to_json(r), allow_partial=bool(r.allow_partial or j in taint))
    except Exception:  # pylint: disable=broad-except
      forest[j] = None

  def after_step(step, status, result, before, mech, record):
    """All checks after one executed step; returns (clauses found, clean
    parentless operands of a rejected write)."""
    nonlocal n_ok, n_rej
    o = O.OPS[step['op']]
    witness = {'root': label, 'history': trace[-12:]}
    found = collections.OrderedDict()
    in_partial = eff_partial(step['scopes']) is True
    if in_partial:
      mark_partial(step['at'][0])    # values were explicitly made partial
      c['partial_scope_writes'] += 1
    if scope_suffix(step['scopes']):
      c['scope_programs'] += 1
      c['scope_program:' + scope_suffix(step['scopes'])[1:]] += 1
    # Operands of a rejected write are values of their own: if they carry a
    # schema afterwards they must satisfy it. (Their content is a don't-care.)
    clean, skip, flagged = [], set(), False
    if status == 'raise':
      tol = (lambda *_: True) if in_partial else None
      for d, x, pre_spec in operands_of(record):
        fresh = d[0] != 'node'
        if fresh and stored_in_parent(x):
          continue                 # stored by the valid prefix of a batch
        if not fresh and not isinstance(x, (pg.Dict, pg.List)):
          continue                 # a live object: covered by the forest check
        c['rejected_operand_checks'] += 1
        if fresh or pre_spec is None:
          # built by the step, or schema-less before it: nobody made it partial
          probs = SM.schema_ok_nodes([x], None, tol, use_flags=fresh)
        else:
          # a live node passed as operand (the library validates it in place and
          # stores a copy unless it is a root): judged where it lives
          ar, ak = d[1], list(d[2])
          probs = SM.schema_ok_nodes(
              [x], None, tol or (lambda _r, k, n, ar=ar, ak=ak: tolerate(ar, ak + k, n)))
        if not probs and pre_spec is None and getattr(x, 'value_spec', None) is not None:
          # bound by the rejected write: as a value of that spec it must also be
          # what the spec maps it to (defaults filled in, members converted)
          try:
            mapped = x.value_spec.apply(SM.detach(x), allow_partial=bool(tol))
            if not SM.contains_ref(x) and not pg.eq(mapped, x):
              probs = [('not-fixpoint', f'it maps to {SM.safe_repr(mapped, 120)}')]
          except (TypeError, ValueError, KeyError) as e:
            probs = [('member-rejected', f'{type(e).__name__}: {e!s:.160}')]
        if not probs:
          if fresh:
            clean.append(x)
          continue
        cl, detail = probs[0]
        ctx.violation(
            'rejected-operand-invalid', kind_of(x),
            f'after step {len(trace)}: {trace[-1]}\nthe operand {srepr(x)} of the rejected '
            f'write (value_spec before: {pre_spec!r:.80}) now has allow_partial='
            f'{x.allow_partial}, value_spec='
            f'{getattr(x, "value_spec", None)!r:.200} and violates it ({cl}): {detail}', witness)
        c['rejected_operands_invalid'] += 1
        flagged = True
        if not fresh:
          skip.add(d[1])           # the root it lives in is judged by this finding
    view = [None if j in skip else r for j, r in enumerate(forest)]
    if status == 'raise':
      n_rej += 1
      c['steps_rejected'] += 1
      c['rejected:' + type(result).__name__] += 1
      if not isinstance(result, ALLOWED_ERRORS):
        found['error-class'] = (f'{type(result).__name__}: {result!s:.300} is not a '
                                'type/value/key (or index/write-permission) error')
      if not o.batch and o.effect == 'mutate':
        c['rejected_unchanged_checks'] += 1
        after = snapshot(view)
        was = [None if j in skip else b for j, b in enumerate(before)]
        if after[:len(was)] != was:
          found['rejected-write-stored'] = (
              'the call raised but the tree changed:\n before=' + str(was)[:400] +
              '\n after =' + str(after)[:400])
    else:
      n_ok += 1
      c['steps_ok'] += 1
      if o.effect == 'new' and any(result is r for r in forest) and (
          step['at'][0] in taint or in_partial or step.get('src_partial')):
        # derived from a value that was explicitly made partial
        mark_partial(next(j for j, r in enumerate(forest) if r is result))
    c['schema_ok_evals'] += 1
    for clause, detail in SM.schema_ok_nodes(view, c, tolerate, object_flags=True):
      found.setdefault(clause, detail)
    if found and not mech.startswith('typed-operand['):
      fk = foreign_spec_kind(forest, step['at'])
      if fk:
        # the written subtree holds a container that kept a spec of its own
        # (it was stored through the typed-operand path), not the field's
        mech = f'foreign-spec[{fk}]'
    mechs = {}
    if found and mech.startswith(('typed-operand[', 'foreign-spec[')):
      # WHY the content is not a value of the receiving spec, by reference rules:
      # the mechanisms of known defect B keep the plain key, anything else (a
      # numeric range, a regular expression, ...) is a mechanism of its own.
      why = set()
      for j in range(len(forest)):
        why |= shortcut_reasons(forest, j, [x for _, x, _ in operands_of(record)])
      witness['reference_reasons'] = sorted(why)
      c['typed_operand_diagnoses'] += 1
      other = [x for x in REASON_ORDER if x in why]
      if other:
        mech += '/' + other[0]
      elif not why and mech.startswith('typed-operand['):
        # (for foreign-spec the kept spec itself is the explanation: later writes
        # were validated against it)
        mech += '/unexplained'
    elif found and (flipped or scope_suffix(step['scopes'])):
      # Clauses that would not fire if every value counted as explicitly made
      # partial are attributed to (a) a typed container of this tree whose
      # allow_partial flag the LIBRARY set when the container was passed as an
      # operand of a write to another tree, else (b) the stack of allow_partial
      # scopes of the step.
      relaxed = {cl for cl, _ in SM.schema_ok_nodes(view, None, lambda *_: True)}
      fk = flipped_kind(step['at'][0])
      for clause in found:
        if clause in ('missing-required', 'member-rejected') and clause not in relaxed:
          mechs[clause] = f'flag-flipped[{fk}]' if fk else mech + scope_suffix(step['scopes'])
    if 'frozen-changed' in found:
      fmk = next((k for k in (frozen_member_kind(r) for r in view
                              if isinstance(r, pg.Symbolic)) if k), None)
      if fmk:
        # the INTERIOR of a value stored under a frozen field was written
        mechs['frozen-changed'] = f'frozen-interior[{fmk}]'
    if 'error-class' in found:
      # one key per exception class, whatever the operation
      mechs['error-class'] = type(result).__name__
    for clause, detail in found.items():
      ctx.violation(clause, mechs.get(clause, mech),
                    f'after step {len(trace)}: {trace[-1]}\n{detail}', witness)
    for j in skip:
      heal_root(j)
      c['operand_root_heals'] += 1
    return found, clean, bool(skip) or flagged

  made_partial = []     # roots below which a directed step made a member missing
  for _ in range(n_steps):
    directed_missing = False
    if rng.random() < 0.5:
      observe(ctx, rng, forest)
    r = rng.random()
    step = None
    made_partial[:] = [j for j in made_partial if isinstance(forest[j], pg.Symbolic)]
    if made_partial and rng.random() < 0.3:
      # a root below which a member was made partial is used as a value elsewhere
      step = gen_move(rng, forest, c, prefer=made_partial)
      c['directed:move-partial'] += step is not None
    if step is not None:
      pass
    elif r < 0.09:
      step = gen_make_missing(rng, forest)
      c['directed:make-missing'] += step is not None
      directed_missing = step is not None
    elif r < 0.16:
      step = gen_undeclared(rng, forest)
      c['directed:undeclared-key'] += step is not None
    elif r < 0.26:
      step = gen_move(rng, forest, c)
      c['directed:move'] += step is not None
    elif r < 0.40:
      step = gen_typed_operand(rng, forest, c)
      c['directed:related-typed-operand'] += step is not None
    if step is not None and r >= 0.16 and rng.random() < 0.2:
      # moves / typed operands inside a stack of allow_partial scopes
      step['scopes'] = step['scopes'] + scope_program(rng, 1.0, p_simple=0.3)
    if step is None:
      step = gen_step(rng, forest, scope_p, c)
    if step is None:
      break
    record = []
    single = not O.OPS[step['op']].batch and O.OPS[step['op']].effect == 'mutate'
    if O.OPS[step['op']].effect == 'new':
      src = D.resolve(forest, step['at'][0], step['at'][1])
      step['src_partial'] = bool(SM.effective_partial(src) or
                                 tolerate(step['at'][0], list(step['at'][1]), src))
    before = snapshot(forest) if single else None
    pre_flags = unflipped_flags(forest)
    ctx.label = step['op']
    status, result = execute(forest, step, record=record)
    ctx.label = None
    H.adopt_result(forest, step, status, result)
    H.drop_moved_roots(forest)
    note_flips(pre_flags, step)
    if any(d and d[0] == 'node' for d, _, _ in record):
      c['typed_moves'] += 1
    trace.append(O.show_step(step) + (f' -> {type(result).__name__}' if status == 'raise' else ''))
    kinds.append((step['op'], status))
    c['op:' + step['op']] += 1
    mech = H.mechanism(step, status)
    typed_ops = [kind_of(x) for _, x, pre in operands_of(record)
                 if isinstance(x, (pg.Dict, pg.List)) and pre is not None]
    if typed_ops and status == 'ok':
      # an operand that already carries a spec of its own: the entry point is the
      # typed-operand path of the write, whatever the operation
      mech = f'typed-operand[{typed_ops[0]}]'
      c['typed_container_operands'] += 1
    found, clean, flagged = after_step(step, status, result, before, mech, record)
    for d, x, _ in operands_of(record):
      if d[0] == 'T':
        related_objs[id(x)] = x
    if status == 'ok' and not found and any(id(x) in related_objs for _, x, _ in operands_of(record)):
      # An accepted operand that was typed with a related spec keeps that spec
      # (KNOWN defect B, foreign-spec: later writes to it are validated against the
      # kept spec). The tree is rebuilt so that later findings in this tree are
      # not attributed to the kept spec; moves of other typed roots still leave
      # such containers in place.
      heal_root(step['at'][0])
      for j, r in enumerate(forest):
        if r is result and isinstance(r, pg.Symbolic):
          heal_root(j)             # the value returned by clone(override=...) etc.
      c['related_operand_trees_rebuilt'] += 1
    if directed_missing and status == 'ok' and step['at'][0] not in made_partial:
      made_partial.append(step['at'][0])
    if status == 'raise' and not found and not flagged and record and rng.random() < 0.5 and (
        clean or any(d and d[0] == 'node' and not d[2] for d, _, _ in record)):
      # The same write again with the very same operand objects.
      c['retries'] += 1
      before = snapshot(forest) if single else None
      ctx.label = step['op']
      status2, result2 = execute(forest, step, replay=record)
      ctx.label = None
      H.adopt_result(forest, step, status2, result2)
      H.drop_moved_roots(forest)
      trace.append('retry of the previous step with the same operand objects' +
                   (f' -> {type(result2).__name__}' if status2 == 'raise' else ' -> accepted'))
      kinds.append((step['op'] + '@retry', status2))
      c['retry:' + status2] += 1
      mech = step['op'] + '@retry' + ('!rejected' if status2 == 'raise' else '')
      if typed_ops and status2 == 'ok':
        mech = f'typed-operand[{typed_ops[0]}]'
      found, clean, flagged = after_step(step, status2, result2, before, mech, record)
    if case_cls is not None:
      # the schema of the class of this case (its frozen values are class state)
      c['case_class_default_checks'] += 1
      changed = SM.defaults_changed(case_defaults, SM.defaults_snapshot([case_cls]))
      for cname, path, was, is_now in changed[:1]:
        ctx.violation('schema-default-mutated', cname,
                      f'after step {len(trace)}: {trace[-1]}\nfrozen value of {cname}.{path} '
                      f'was {was}, is now {is_now}', {'root': label, 'history': trace[-12:]})
      if changed:
        c['abandoned'] += 1
        break                      # values of the class cannot be trusted any more
    if 'frozen-changed' in found and frozen_case:
      c['abandoned'] += 1
      break
    # Rejected operands stay available: later steps may use them elsewhere.
    if not found:
      for x in clean:
        if len(forest) < 7 and rng.random() < 0.5 and not stored_in_parent(x) and (
            x.sym_parent is None):
          forest.append(x)
          if eff_partial(step['scopes']) is True:
            mark_partial(len(forest) - 1)
          c['operands_kept'] += 1
    if found:
      c['heals'] += 1
      for j, r in enumerate(forest):
        if isinstance(r, pg.Symbolic):
          heal_root(j)
        else:
          forest[j] = None
      if check() or not any(isinstance(r, pg.Symbolic) for r in forest):
        c['abandoned'] += 1
        break
    if H.total_size(forest) > 300:
      break
  # Class-level state: the defaults declared by the schemas must be what they
  # were (a default object that became a member of a tree can be written to).
  c['class_default_checks'] += 1
  now = SM.defaults_snapshot(schema_classes())
  for cname, path, was, is_now in SM.defaults_changed(ctx.class_defaults, now)[:3]:
    ctx.violation('schema-default-mutated', cname,
                  f'default of {cname}.{path} was {was}, is now {is_now}\nhistory: {trace[-10:]}',
                  {'root': label, 'history': trace[-12:]})
  ctx.class_defaults = now
  if n_ok >= 3 and n_rej >= 2:
    ctx.mark_nontrivial((type(root).__name__, tuple(kinds)))
  ctx.seen('root_labels', label)
  if i < 2:
    ctx.sample({'root': label[:300], 'history': trace[:10]})
