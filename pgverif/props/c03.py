"""C03 — a typed symbolic value always satisfies its declared schema."""
import collections
import copy

import pyglove as pg
from pgverif import models as M
from pgverif.gen import desc as D
from pgverif.gen import history as H
from pgverif.gen import ops as O
from pgverif.gen import values as V
from pgverif.monitors import schema as SM
from pgverif.monitors import tree as TM

T = pg.typing

TIERS = {
    'quick': dict(shards=4, cases=200, steps=30),
    'thorough': dict(shards=16, cases=1200, steps=60),
}
RULE = ('case = a typed root (object of a schema class, pg.Dict or pg.List bound to a '
        'generated value spec; flags allow_partial x pg.allow_partial scope) and a '
        'history mixing valid and invalid writes through every write path of the '
        'operation table; schema_ok re-validates every typed node after every step, '
        'rejected writes are checked for exception class and for leaving the tree '
        'unchanged. Non-trivial = at least 3 accepted and 2 rejected writes; distinct '
        'by (root kind, operation/outcome sequence).')
REQUIRED_COUNTERS = ['schema_ok_evals', 'schema_ok_members', 'steps_ok', 'class_default_checks',
                     'steps_rejected', 'rejected_unchanged_checks']
ASSUMPTIONS = [
    'type checking is on (pg.enable_type_check(False) is never entered)',
    'acceptance oracle: ValueSpec.apply on a detached plain copy of the stored member',
    'for batch operations (multi-path rebind, update, extend, slice assignment, |=, +=) a valid prefix may have been applied; only single-target rejected writes must leave the JSON of the tree unchanged',
]
ALLOWED_ERRORS = (TypeError, ValueError, KeyError, IndexError, pg.WritePermissionError)


def rand_spec(rng, depth=0):
  r = rng.random()
  if depth >= 2 or r < 0.45:
    k = rng.choice(['int', 'int', 'float', 'str', 'enum', 'bool', 'any', 'union', 'obj'])
    if k == 'int':
      lo = rng.choice([None, 0, -2]); hi = rng.choice([None, 5, 9])
      s = T.Int(min_value=lo, max_value=hi)
    elif k == 'float':
      s = T.Float(min_value=rng.choice([None, 0.0]), max_value=rng.choice([None, 1.0, 4.0]))
    elif k == 'str':
      s = T.Str()
    elif k == 'enum':
      s = T.Enum('a', ['a', 'b', 3])
    elif k == 'bool':
      s = T.Bool()
    elif k == 'any':
      s = T.Any()
    elif k == 'union':
      s = T.Union([T.Int(min_value=0), T.Str()])
    else:
      s = T.Object(M.Inner)
    if rng.random() < 0.25 and k != 'any':
      s = s.noneable()
    if rng.random() < 0.12 and k not in ('any', 'obj'):
      # frozen (alone or together with noneable): the frozen value is the only
      # acceptable one, None included.
      try:
        fv = V.value_for(s, rng, valid=True)
        if fv is not None:
          s = s.freeze(fv)
      except Exception:  # pylint: disable=broad-except
        pass
    return s
  if r < 0.75:
    lo = rng.choice([0, 0, 1, 2]); hi = rng.choice([None, lo + 1, lo + 3])
    return T.List(rand_spec(rng, depth + 1), min_size=lo, max_size=hi)
  fields = []
  for name in rng.sample(['a', 'b', 'c', 'd'], rng.randint(1, 3)):
    fs = rand_spec(rng, depth + 1)
    if rng.random() < 0.5:
      try:
        fs = fs.set_default(V.value_for(fs, rng, valid=True))
      except Exception:  # pylint: disable=broad-except
        pass
    fields.append((name, fs))
  if rng.random() < 0.4:
    fields.append((T.StrKey(), rand_spec(rng, depth + 1)))
  return T.Dict(fields)


def make_root(rng):
  """Returns (description, value)."""
  r = rng.random()
  if r < 0.45:
    d = D.typed_obj(rng, 'Typed2' if rng.random() < 0.3 else None)
    return D.show(d), D.build(d)
  if r < 0.55:
    kw = {}
    if rng.random() < 0.6:
      kw['r'] = rng.randint(0, 5)
    if rng.random() < 0.5:
      kw['rd'] = {'a': 1} if rng.random() < 0.5 else {}
    return f'Required.partial({kw})', M.Required.partial(**kw)
  for _ in range(20):
    spec = rand_spec(rng, 0)
    while not isinstance(spec, (T.List, T.Dict)):
      spec = rand_spec(rng, 0)
    partial = rng.random() < 0.3
    try:
      if isinstance(spec, T.List):
        v = pg.List(V.value_for(spec, rng, valid=True), value_spec=spec, allow_partial=partial)
      else:
        v = pg.Dict(V.value_for(spec, rng, valid=True), value_spec=spec, allow_partial=partial)
      return f'{type(v).__name__}(value_spec={spec!r}, allow_partial={partial})', v
    except (TypeError, ValueError, KeyError):
      continue
  d = D.typed_obj(rng, 'Typed')
  return D.show(d), D.build(d)


def snapshot(forest):
  out = []
  for r in forest:
    if isinstance(r, pg.Symbolic):
      try:
        out.append(pg.to_json_str(r))
      except Exception as e:  # pylint: disable=broad-except
        out.append(f'<unserializable {type(e).__name__}>')
    else:
      out.append(None)
  return out


def any_partial(forest):
  return any(n.allow_partial for _, _, n in H.all_nodes(forest))


def schema_classes():
  return [c for c in vars(M).values()
          if isinstance(c, type) and issubclass(c, pg.Object) and c is not pg.Object
          and c.__module__ == M.__name__]


def setup(ctx):
  ctx.class_defaults = SM.defaults_snapshot(schema_classes())


def cases(ctx):
  return ctx.params['cases']


def run_case(ctx, i):
  rng = ctx.rng
  c = ctx.counters
  label, root = make_root(rng)
  forest = [root]
  c['root:' + type(root).__name__] += 1
  first = SM.schema_ok(forest, c)
  c['schema_ok_evals'] += 1
  for clause, detail in first:
    ctx.violation(clause, 'construction', detail, {'root': label})
  if first:
    return
  trace, kinds, n_ok, n_rej = [], [], 0, 0
  scope_p = {'writable': 0.45, 'notify_off': 0.08, 'partial': 0.1}
  partial_used = False
  n_steps = rng.randint(ctx.params['steps'] // 2, ctx.params['steps'])
  for _ in range(n_steps):
    step = H.gen_step(
        rng, forest, effects=('mutate', 'new'), p_scope=scope_p,
        op_filter=lambda o: o.name not in ('json-roundtrip',),
        value_source_kwargs=dict(
            # copies of explicitly partial values are not generated (their
            # partiality outside the partial tree is not specified)
            p_alias=0.0 if (partial_used or any_partial(forest)) else 0.08,
            p_invalid=0.2, typed=True, allow_root_alias=False))
    if step is None:
      break
    o = O.OPS[step['op']]
    before = snapshot(forest)
    ctx.label = step['op']
    status, result = O.execute(forest, step)
    ctx.label = None
    H.adopt_result(forest, step, status, result)
    H.drop_moved_roots(forest)
    trace.append(O.show_step(step) + (f' -> {type(result).__name__}' if status == 'raise' else ''))
    kinds.append((step['op'], status))
    c['op:' + step['op']] += 1
    mech = H.mechanism(step, status)
    witness = {'root': label, 'history': trace[-12:]}
    found = collections.OrderedDict()
    if status == 'raise':
      n_rej += 1
      c['steps_rejected'] += 1
      c['rejected:' + type(result).__name__] += 1
      if not isinstance(result, ALLOWED_ERRORS):
        found['error-class'] = (f'{type(result).__name__}: {result!s:.300} is not a '
                                'type/value/key (or index/write-permission) error')
      if not o.batch and o.effect == 'mutate':
        c['rejected_unchanged_checks'] += 1
        after = snapshot(forest)
        if after[:len(before)] != before:
          found['rejected-write-stored'] = (
              'the call raised but the tree changed:\n before=' + str(before)[:400] +
              '\n after =' + str(after)[:400])
    else:
      n_ok += 1
      c['steps_ok'] += 1
    if 'partial' in step['scopes']:
      partial_used = True          # values were explicitly made partial
      c['partial_scope_writes'] += 1
    for clause, detail in SM.schema_ok(forest, c, tolerate_partial=partial_used):
      found.setdefault(clause, detail)
    c['schema_ok_evals'] += 1
    for clause, detail in found.items():
      ctx.violation(clause, mech, f'after step {len(trace)}: {trace[-1]}\n{detail}', witness)
    if found:
      c['heals'] += 1
      healed = []
      for r in forest:
        try:
          healed.append(pg.from_json(pg.to_json(r)) if isinstance(r, pg.Symbolic) else None)
        except Exception:  # pylint: disable=broad-except
          healed.append(None)
      forest[:] = healed
      if SM.schema_ok(forest, tolerate_partial=partial_used) or not any(isinstance(r, pg.Symbolic) for r in forest):
        c['abandoned'] += 1
        break
    if H.total_size(forest) > 300:
      break
  # Class-level state: the defaults declared by the schemas must be what they
  # were (a default object that became a member of a tree can be written to).
  c['class_default_checks'] += 1
  now = SM.defaults_snapshot(schema_classes())
  for cname, path, was, is_now in SM.defaults_changed(ctx.class_defaults, now)[:3]:
    ctx.violation('schema-default-mutated', cname,
                  f'default of {cname}.{path} was {was}, is now {is_now}\nhistory: {trace[-10:]}',
                  {'root': label, 'history': trace[-12:]})
  ctx.class_defaults = now
  if n_ok >= 3 and n_rej >= 2:
    ctx.mark_nontrivial((type(root).__name__, tuple(kinds)))
  ctx.seen('root_labels', label)
  if i < 2:
    ctx.sample({'root': label[:300], 'history': trace[:10]})
