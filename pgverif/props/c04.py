"""C04 — value-spec algebra: idempotent apply, acceptable defaults, apply leaves
the spec unchanged, is_compatible / extend only narrow."""
import copy

import pyglove as pg
from pgverif.gen import specs as S

T = pg.typing
MISSING = pg.MISSING_VALUE

TIERS = {
    'quick': dict(shards=8, cases=16, family=7, strangers=3, values=40, envelopes=2, cross=12),
    'thorough': dict(shards=16, cases=330, family=8, strangers=4, values=48, envelopes=2, cross=16),
}
RULE = ('case = a pool of value specs: one generated spec (Bool/Int/Float/Str/Enum/List/'
        'Tuple fixed+variable/Dict const+dynamic keys/Object/Union/Any, ranges, sizes, '
        'noneable/default/frozen, depth <= 3), `family` same-family variants of it (bounds '
        'and sizes moved by +-1/+-2 or dropped, enum sub/supersets, fields added/removed, '
        'flags flipped, one nested spec varied; or a relaxed twin that leaves bounds / sizes '
        'unspecified, as a subclass overriding a field does) and `strangers` unrelated specs. Every spec: '
        'apply idempotence, default acceptable, spec unchanged by apply. Every ordered pair '
        '(A,B): if A.is_compatible(B) then every candidate value B accepts must be accepted '
        'by A; C=copy(A).extend(B): every value C accepts must be accepted by B on the shared '
        'fields, B.is_compatible(C), C accepts its own default. Candidate values are derived '
        'from the parameters of both specs (each bound and +-1, each size +-1, enum members '
        'and a non-member, defaults, None, other types, partial / over-full dicts; plus `cross` '
        'containers built around the boundary values of the nested specs of both); '
        'acceptance is always decided by the real apply on a deep copy. Histories: about half '
        'of the pools carry idempotent, self-recording user transforms (identity, list/tuple/'
        'dict conversion, sorting, a length validator) on List/Tuple/Dict/Object/Any nodes; a '
        'child spec is, at random, used (applied, rendered, compared) before it is extended, '
        'and the extension is performed either by `extend` or by a pg.Object subclass that '
        'overrides the field of its base class; specs are used before is_compatible. Ownership '
        'of results: every value an apply returned is checked not to contain (by identity) a '
        'mutable object held by a default of the spec, is then changed in place, and the spec '
        '(rendering, ==, every nested default) must be what its snapshot says; per case '
        '`envelopes` Dict specs whose fields are default-heavy specs (defaults holding lists/'
        'dicts inside tuples, Any, Union; frozen/noneable at every level) and pool members, '
        'optionally inside List/Tuple/Dict, complete a partial input from defaults, after which '
        'a widened spec (Int->Float, converts in place) is applied to the completed value, the '
        'spec re-applies it / completes again with a rewriting child_transform, and the value '
        'is changed directly: after each the snapshot must still hold and the same input must '
        'complete to the same value. Non-trivial = at least one non-identical compatible pair '
        'or successful extension whose containment was evaluated on >= 1 accepted value; '
        'distinct by the rendered pool.')
REQUIRED_COUNTERS = ['idempotence_checks', 'default_checks', 'spec_unchanged_checks',
                     'compat_true_pairs', 'compat_value_checks', 'extend_ok',
                     'extend_value_checks', 'extend_compat_checks',
                     'extend_ok_warmed', 'extend_ok_transform', 'extend_ok_class',
                     'alias_checks', 'post_op_spec_checks', 'envelope_ops']
ASSUMPTIONS = [
    'Str specs with a regex take part only in the single-spec laws (compatibility of regexes is documented as unchecked)',
    'a default is acceptable when apply(default, allow_partial=True) succeeds (defaults are applied with allow_partial by the library); non-partial defaults must also pass the strict apply',
    'for extension, dict keys whose field is not declared by both specs (same key spec) are removed from the value before it is offered to the base, and base.is_compatible(extended) is demanded only when the extended spec declares no extra dict fields',
    'a dict value that omits a field is a don\'t-care when the rejecting spec merely lacks a default for that field (completion by defaults is not part of the claim)',
    'containment of infinite acceptance sets is sampled at parameter-derived boundary values',
    'exceptions TypeError/ValueError/KeyError from apply and extend are rejections/refusals; any other exception is a violation',
    'a user transform is arbitrary code: a value is judged in the pair laws only when every transform that ran returned its input unchanged, an extension only when extend() itself ran no transform that changed or refused a value, and no transform changes a default at construction; the spec must then behave like the same spec without transforms (the control that decides the `spec-with-transform:` / `after-prior-use:` / `class-inheritance:` prefix of a mechanism)',
    'in class-inheritance mode acceptance is still decided by apply of the field specs of the two classes; what the class constructors accept is counted, not judged',
    'a value returned by apply belongs to the caller: changing it in place (directly, through another spec\'s apply, through a child_transform) must not change the spec; symbolic objects inside values are left alone',
]

SKIP = object()


class Lazy:
  """A witness dict that is rendered only when a violation is reported."""

  def __init__(self, make):
    self.make = make

  def __call__(self, **extra):
    return dict(self.make(), **extra)


def wit(w, **extra):
  return w(**extra) if isinstance(w, Lazy) else dict(w, **extra)


def cases(ctx):
  return ctx.params['cases']


def cname(spec):
  return type(spec).__name__


def same(a, b):
  if type(a) is not type(b):
    return False
  try:
    return bool(pg.eq(a, b))
  except Exception:  # pylint: disable=broad-except
    return False


def has_missing(v):
  if MISSING == v:
    return True
  if isinstance(v, dict):
    return any(has_missing(x) for x in v.values())
  if isinstance(v, (list, tuple)):
    return any(has_missing(x) for x in v)
  if isinstance(v, pg.Symbolic):
    return v.is_partial
  return False


def untyped(v, depth=0):
  """`v` with every typed missing value (which compares unequal to the typed
  missing value of any other spec instance) replaced by MISSING_VALUE."""
  if depth > 12 or isinstance(v, pg.Object):
    return v
  if MISSING == v:
    return MISSING
  if isinstance(v, dict):
    return {k: untyped(x, depth + 1) for k, x in v.items()}
  if isinstance(v, list):
    return [untyped(x, depth + 1) for x in v]
  if isinstance(v, tuple):
    return tuple(untyped(x, depth + 1) for x in v)
  return v


def short(v):
  r = repr(v)
  return r if len(r) < 200 else r[:200] + '…'


# -- single-spec laws ---------------------------------------------------------------

def idem_outcome(spec, v):
  """None (rejected or idempotent) | 'rej' | 'diff' for one value."""
  ok, r = S.accepts(spec, v)
  if not ok:
    return None
  ok2, r2 = S.accepts(spec, r)
  if not ok2:
    return 'rej'
  return None if same(r, r2) else 'diff'


def single_laws(ctx, rng, d, spec, tag=None):
  c = ctx.counters
  name = cname(spec)
  witness = Lazy(lambda: {'spec': S.show(d), 'built': short(spec)})
  has_tf = S.has_transform(d)
  if has_tf:
    c['transform_specs'] += 1
  plain_twin = [None]
  def tf_prefix(kind, v):
    """'spec-with-transform:' when the same spec without its user transforms
    does not show the violation on this value."""
    if not has_tf:
      return ''
    if plain_twin[0] is None:
      plain_twin[0] = S.build(S.strip_transforms(d))
    try:
      return '' if idem_outcome(plain_twin[0], v) == kind else 'spec-with-transform:'
    except Exception:  # pylint: disable=broad-except
      return 'spec-with-transform:'
  kept = []
  snap = copy.deepcopy(spec)
  fmt = spec.format()
  # `==` of specs is demanded after the applies only where it held before them
  # (a Union with two Enum candidates differs from its own deep copy).
  ctx.label = f'spec-eq:{name}'
  eq_before = (spec == snap) and (snap == spec)
  ctx.label = None
  if not eq_before:
    c['snapshot_eq_unavailable'] += 1
  fired = set()
  for v in S.candidates(rng, [spec], ctx.params['values']):
    ctx.label = f'apply:{name}'
    ok, r = S.accepts(spec, v)
    ctx.label = None
    c['apply_evals'] += 1
    if not ok:
      c['apply_rejected'] += 1
      continue
    c['idempotence_checks'] += 1
    ctx.label = f'apply:{name}'
    ok2, r2 = S.accepts(spec, r)
    ctx.label = None
    if len(kept) < 12:
      kept.append(r)
    if not ok2 and 'rej' not in fired:
      fired.add('rej')
      rule = ''
      if isinstance(spec, T.Union):
        why = S.why_rejected(spec, r) or 'unexplained'
        rule = ':' + (why[len('Union.'):].split('/', 1)[0] if why.startswith('Union.') else why)
      ctx.violation('apply-not-idempotent', f'{tf_prefix("rej", v)}{name}:reapply-rejected{rule}',
                    f'{spec!r}: apply({short(v)}) -> {short(r)}, which is rejected: {r2!r:.300}',
                    wit(witness, value=short(v)))
    elif ok2 and not same(r, r2) and 'diff' not in fired:
      fired.add('diff')
      ctx.violation('apply-not-idempotent', f'{tf_prefix("diff", v)}{name}:reapply-differs',
                    f'{spec!r}: apply({short(v)}) -> {short(r)}; apply of that -> {short(r2)}',
                    wit(witness, value=short(v)))
  default_law(ctx, spec, 'fresh', witness,
              control=(lambda: S.build(S.strip_transforms(d))) if has_tf else None)
  c['spec_unchanged_checks'] += 1
  ctx.label = f'spec-eq:{name}'
  unchanged = spec.format() == fmt and (
      not eq_before or ((spec == snap) and (snap == spec)))
  ctx.label = None
  if not unchanged:
    ctx.violation('spec-mutated-by-apply', name,
                  f'before: {fmt}\nafter: {spec.format()}', wit(witness))
    return
  # The values the applies returned belong to the caller: changing them must
  # not reach the spec either.
  c['alias_checks'] += 1
  alias_law(ctx, spec, kept, witness)
  for r in kept:
    mutate_plain(r)
  post_op_law(ctx, spec, snap, fmt, eq_before, 'direct-mutation', witness)


def default_accepted(spec, counters=None):
  """(accepted?, result, a user transform changed or refused the default?)"""
  d = spec.default
  ok, r, seen = S.accepts_tracked(spec, d, allow_partial=True)
  if ok and not has_missing(d):
    if counters is not None:
      counters['default_strict_checks'] += 1
    ok, r, seen2 = S.accepts_tracked(spec, d)
    seen = seen or seen2
  return ok, r, seen


def default_law(ctx, spec, origin, witness, control=None, prefix=''):
  """`control`: builds the spec of the same history-free, transform-free case;
  when that one accepts its own default the mechanism gets `prefix` (default
  'spec-with-transform:')."""
  if not spec.has_default:
    return
  c = ctx.counters
  name = cname(spec)
  c['default_checks'] += 1
  d = spec.default
  ctx.label = f'apply-default:{name}'
  ok, r, seen = default_accepted(spec, c)
  ctx.label = None
  if not ok and seen:
    # E.g. a transform inherited from the base refuses the child's default:
    # decided by user code.
    c['dontcare_transform_visible'] += 1
    return
  if not ok:
    reason = S.why_rejected(spec, d) or 'unexplained'
    mech = name if origin == 'fresh' else 'after-extend:' + default_category(reason)
    if control is not None:
      try:
        twin = control()
        if twin is None or not twin.has_default or default_accepted(twin)[0]:
          mech = (prefix or 'spec-with-transform:') + mech
      except Exception:  # pylint: disable=broad-except
        mech = (prefix or 'spec-with-transform:') + mech
    ctx.violation('default-rejected', mech,
                  f'{spec!r} rejects its own default {short(d)}: {r!r:.300}',
                  wit(witness, default=short(d), origin=origin))


# -- what apply returns belongs to the caller ---------------------------------------------

def spec_nodes(spec, path=(), depth=0):
  """(path, value spec) of a spec and of every nested value spec (public
  accessors only)."""
  yield path, spec
  if depth > 8:
    return
  if isinstance(spec, T.List):
    yield from spec_nodes(spec.element.value, path + ('[]',), depth + 1)
  elif isinstance(spec, T.Tuple):
    for i, e in enumerate(spec.elements):
      yield from spec_nodes(e.value, path + (i,), depth + 1)
  elif isinstance(spec, T.Dict) and spec.schema is not None:
    for key, f in spec.schema.items():
      yield from spec_nodes(f.value, path + (str(key),), depth + 1)
  elif isinstance(spec, T.Union):
    for i, x in enumerate(spec.candidates):
      yield from spec_nodes(x, path + (f'|{i}',), depth + 1)


def mutables(v, parent='top', depth=0):
  """(object, type name of its container) for every plain list/dict reachable
  through lists, dicts and tuples."""
  if depth > 12 or isinstance(v, pg.Symbolic):
    return
  if isinstance(v, (list, dict)):
    yield v, parent
  if isinstance(v, (list, tuple)):
    for x in v:
      yield from mutables(x, type(v).__name__, depth + 1)
  elif isinstance(v, dict):
    for x in v.values():
      yield from mutables(x, 'dict', depth + 1)


def default_owners(spec):
  """id -> (object, [(depth, node, container type)]) of the mutable objects
  reachable from the default of the spec or of a nested spec."""
  owners = {}
  for path, node in spec_nodes(spec):
    try:
      if not node.has_default:
        continue
      dv = node.default
    except Exception:  # pylint: disable=broad-except
      continue
    for obj, parent in mutables(dv):
      owners.setdefault(id(obj), (obj, []))[1].append((len(path), node, parent))
  return owners


def alias_law(ctx, spec, results, witness):
  """No mutable object reachable from a value that apply returned is an
  object reachable from a default held by the spec."""
  owners = default_owners(spec)
  if not owners:
    return
  fired = set()
  for r in results:
    for obj, _ in mutables(r):
      rec = owners.get(id(obj))
      if rec is None or rec[0] is not obj:
        continue
      ctx.counters['alias_found'] += 1
      if any(node.frozen for _, node, _ in rec[1]):
        mech = 'frozen-default-returned'
      else:
        _, node, parent = max(rec[1], key=lambda t: t[0])
        mech = f'default-shared:{cname(node)}'
      if mech in fired:
        continue
      fired.add(mech)
      ctx.violation('result-aliases-spec-default', mech,
                    f'{spec!r}: the applied value {short(r)} contains the very object '
                    f'{short(obj)} that a default of the spec holds', wit(witness))


def mutate_plain(v, depth=0):
  """User code changing a plain value it got back from apply, in place."""
  if depth > 12 or isinstance(v, pg.Symbolic):
    return
  if isinstance(v, list):
    for x in v:
      mutate_plain(x, depth + 1)
    if v and isinstance(v[0], (int, float)) and not isinstance(v[0], bool):
      v[0] = v[0] + 1000
    v.append('__mutated__')
  elif isinstance(v, dict):
    for x in list(v.values()):
      mutate_plain(x, depth + 1)
    if v:
      del v[next(iter(v))]
    v['__mutated__'] = ['__mutated__']
  elif isinstance(v, tuple):
    for x in v:
      mutate_plain(x, depth + 1)


def rewriting_child_transform(path, field, value):
  """A child_transform that rewrites leaves and reorders lists in place."""
  del path, field
  if isinstance(value, bool) or value is None:
    return value
  if isinstance(value, int):
    return value * 2 + 1
  if isinstance(value, float):
    return value + 0.5
  if isinstance(value, str):
    return value + '!'
  if isinstance(value, list) and not isinstance(value, pg.Symbolic):
    value.reverse()
  return value


def changed_default_nodes(spec, snap):
  """Innermost nested specs whose default differs from the snapshot's."""
  changed = []
  for (path, node), (_, old) in zip(spec_nodes(spec), spec_nodes(snap)):
    try:
      if node.has_default != old.has_default or (
          node.has_default and not strict_same(node.default, old.default)):
        changed.append((path, node))
    except Exception:  # pylint: disable=broad-except
      changed.append((path, node))
  return [(p, n) for p, n in changed
          if not any(q != p and q[:len(p)] == p for q, _ in changed)]


def post_op_law(ctx, spec, snap, fmt, eq_before, op, witness, recheck=None):
  """After user code / other specs worked on values that `spec.apply`
  returned, the spec is still what its snapshot says."""
  c = ctx.counters
  c['post_op_spec_checks'] += 1
  name = cname(spec)
  ctx.label = f'spec-eq:{name}'
  fmt_ok = spec.format() == fmt
  eq_ok = not eq_before or ((spec == snap) and (snap == spec))
  ctx.label = None
  inner = changed_default_nodes(spec, snap)
  redo_ok = True
  if recheck is not None and fmt_ok and eq_ok and not inner:
    redo_ok = recheck()
  if fmt_ok and eq_ok and not inner and redo_ok:
    return True
  if inner:
    loose = [n for _, n in inner if not n.frozen]
    mech = ('default-shared:' + cname(loose[0])) if loose else 'frozen-default-returned'
  elif not redo_ok:
    mech = 'same-input-other-result'
  else:
    mech = 'other-parameter'
  ctx.violation(
      'spec-mutated-by-apply', 'via-result:' + mech,
      f'after {op} on a value that apply returned:\nbefore: {fmt}\nafter: {spec.format()}\n'
      f'changed defaults at {[".".join(map(str, p)) or "$" for p, _ in inner]}',
      wit(witness, op=op))
  return False


BOUND_PARAMS = {'min-value', 'max-value', 'min-size', 'max-size', 'length',
                'enum-member', 'regex', 'type', 'key'}


def default_category(reason):
  """Why an extended spec rejects its own default, by kind of parameter."""
  param = reason.rsplit('.', 1)[-1]
  if param in BOUND_PARAMS or param == 'required':
    return 'own-default-outside-narrowed-spec'
  if param == 'none':
    return 'none-default-not-noneable'
  if param == 'frozen':
    return 'nested-frozen-default-replaced'
  return param


def same_default(a, b):
  """`same`, or equal as containers (a class definition turns plain default
  containers into symbolic ones)."""
  if same(a, b):
    return True
  try:
    return (isinstance(a, type(b)) or isinstance(b, type(a))) and bool(a == b)
  except Exception:  # pylint: disable=broad-except
    return False


def strict_same(a, b):
  """Equal and of identical types at every level."""
  if type(a) is not type(b):
    return False
  if isinstance(a, (list, tuple)):
    return len(a) == len(b) and all(strict_same(x, y) for x, y in zip(a, b))
  if isinstance(a, dict):
    return set(a) == set(b) and all(strict_same(a[k], b[k]) for k in a)
  try:
    return bool(pg.eq(a, b))
  except Exception:  # pylint: disable=broad-except
    return False


def enum_takes_frozen(a, b):
  """`a` is an Enum (or a Union with an Enum candidate) that declares itself
  compatible with the frozen spec `b` because b's frozen value `==` a member."""
  if not b.frozen:
    return False
  enums = [a] if isinstance(a, T.Enum) else (
      [c for c in a.candidates if isinstance(c, T.Enum)] if isinstance(a, T.Union) else [])
  for e in enums:
    try:
      if b.default in e.values and e.is_compatible(b):
        return True
    except Exception:  # pylint: disable=broad-except
      pass
  return False


def frozen_shortcut(spec, v, depth=0):
  """True when `spec` can accept `v` only because a frozen (sub)spec takes any
  value that compares equal to its default (e.g. 1 for a frozen True)."""
  if depth > 8:
    return False
  if spec.frozen:
    # equal by `==` but not the frozen value itself (another type); a frozen
    # spec that takes a value which is not even `==` to its default is a
    # different mechanism and must not be filed under the shortcut.
    try:
      loosely_equal = bool(v == spec.default)
    except Exception:  # pylint: disable=broad-except
      loosely_equal = False
    return MISSING != v and loosely_equal and not strict_same(v, spec.default)
  if isinstance(spec, T.List) and isinstance(v, list):
    return any(frozen_shortcut(spec.element.value, x, depth + 1) for x in v)
  if isinstance(spec, T.Tuple) and isinstance(v, tuple):
    for i, x in enumerate(v):
      try:
        if frozen_shortcut(elem_spec(spec, i), x, depth + 1):
          return True
      except IndexError:
        return False
    return False
  if isinstance(spec, T.Dict) and isinstance(v, dict) and spec.schema is not None:
    for k, x in v.items():
      f = spec.schema.get_field(k)
      if f is not None and frozen_shortcut(f.value, x, depth + 1):
        return True
    return False
  if isinstance(spec, T.Union):
    return any(frozen_shortcut(x, v, depth + 1) for x in spec.candidates)
  return False


# -- compatibility ---------------------------------------------------------------------

def compat(ctx, a, b):
  ctx.label = f'is_compatible:{cname(a)}'
  r = a.is_compatible(b)
  ctx.label = None
  return bool(r)


def elem_spec(t, i):
  return t.elements[i if t.fixed_length else 0].value


def localize(ctx, a, b, v, depth=0):
  """Descends to the innermost (a, b, v) that still shows `a.is_compatible(b)`,
  b accepts v, a rejects v."""
  def bad(x, y, w):
    try:
      if not x.is_compatible(y):
        return False
      ok, _, seen = S.accepts_tracked(y, w)
      return ok and not seen and not S.accepts(x, w)[0]
    except Exception:  # pylint: disable=broad-except
      return False
  if depth > 8 or a.frozen or v is None:
    return a, b, v
  if isinstance(b, T.Union):
    for oc in b.candidates:
      if bad(a, oc, v):
        return localize(ctx, a, oc, v, depth + 1)
    return a, b, v
  if isinstance(a, T.Union):
    for c in a.candidates:
      if bad(c, b, v):
        return localize(ctx, c, b, v, depth + 1)
    return a, b, v
  if isinstance(a, T.List) and isinstance(b, T.List) and isinstance(v, list):
    for x in v:
      if bad(a.element.value, b.element.value, x):
        return localize(ctx, a.element.value, b.element.value, x, depth + 1)
  elif isinstance(a, T.Tuple) and isinstance(b, T.Tuple) and isinstance(v, tuple):
    for i, x in enumerate(v):
      try:
        ea, eb = elem_spec(a, i), elem_spec(b, i)
      except IndexError:
        break
      if bad(ea, eb, x):
        return localize(ctx, ea, eb, x, depth + 1)
  elif (isinstance(a, T.Dict) and isinstance(b, T.Dict) and isinstance(v, dict)
        and a.schema is not None and b.schema is not None):
    for k, x in v.items():
      fa, fb = a.schema.get_field(k), b.schema.get_field(k)
      if fa is not None and fb is not None and bad(fa.value, fb.value, x):
        return localize(ctx, fa.value, fb.value, x, depth + 1)
  return a, b, v


def pair_mechanism(x, y, reason, arrow):
  """`<X><arrow><Y>:<param>`; a Union's own dispatch rules are a
  class-independent cause."""
  if reason.startswith('Union.'):
    return 'Union:' + reason[len('Union.'):].split('/', 1)[0]
  param = reason.rsplit('.', 1)[-1]
  return f'{cname(x)}{arrow}{cname(y)}:{param}'


def reason_key(spec, v):
  r = S.why_rejected(spec, v) or 'unexplained'
  return r


def warm(ctx, rng, spec, n=3):
  """Prior use of a spec instance: a few applies (accepted and rejected values,
  strict and partial), rendering, comparison."""
  if rng.random() < 0.25:
    vs = S.own_values(rng, spec, 0)
    rng.shuffle(vs)
  else:
    vs = rng.sample(S.UNIVERSAL, n - 1)
    if spec.has_default:
      vs.insert(0, spec.default)
  ctx.label = f'apply:{cname(spec)}'
  for v in vs[:n]:
    S.accepts(spec, v, allow_partial=rng.random() < 0.3)
  ctx.label = f'spec-eq:{cname(spec)}'
  spec.format()
  _ = spec == spec
  ctx.label = None
  ctx.counters['warmups'] += 1


def history_prefix(hist):
  """Names the harness-made circumstance without which (transform-free,
  never-used specs, plain `extend`) a violation does not show."""
  if hist.get('tf'):
    return 'spec-with-transform:'
  if hist.get('warmed'):
    return 'after-prior-use:'
  if hist.get('mode') == 'class':
    return 'class-inheritance:'
  return ''


def compat_law(ctx, rng, da, db, a, b, state):
  c = ctx.counters
  c['compat_evals'] += 1
  hist = {'tf': S.has_transform(da) or S.has_transform(db)}
  if rng.random() < 0.25:
    hist['warmed'] = True
    warm(ctx, rng, a)
    warm(ctx, rng, b)
  if not compat(ctx, a, b):
    return
  c['compat_true_pairs'] += 1
  fired = set()
  checked = 0
  control = []
  def prefix(v):
    if not history_prefix(hist):
      return ''
    if not control:
      control.extend([S.build(S.strip_transforms(da)), S.build(S.strip_transforms(db))])
    a0, b0 = control
    try:
      v = untyped(v)
      again = (a0.is_compatible(b0) and S.accepts(b0, v)[0] and not S.accepts(a0, v)[0])
    except Exception:  # pylint: disable=broad-except
      again = False
    return '' if again else history_prefix(hist)
  for v in (S.candidates(rng, [b, a], ctx.params['values'])
            + S.cross_values(rng, [b, a], ctx.params.get('cross', 12))):
    okb, _, seen_b = S.accepts_tracked(b, v)
    if not okb:
      continue
    if seen_b:
      # A user transform changed the value: what the spec accepts is then
      # decided by user code, which the claim does not cover.
      c['dontcare_transform_visible'] += 1
      continue
    checked += 1
    c['compat_value_checks'] += 1
    ctx.label = f'apply:{cname(a)}'
    oka, err, seen_a = S.accepts_tracked(a, v)
    ctx.label = None
    if oka:
      continue
    if seen_a:
      c['dontcare_transform_visible'] += 1
      continue
    la, lb, lv = localize(ctx, a, b, v)
    reason = reason_key(la, lv)
    if reason.endswith('.required'):
      # A dict value that omits a field for which only B has a default: whether
      # "accepts" covers values completed by defaults is left open.
      c['dontcare_omitted_field'] += 1
      continue
    if la.frozen or reason.endswith('.frozen'):
      mech = 'frozen'
    elif frozen_shortcut(lb, lv):
      mech = 'frozen-shortcut'
    elif (reason.endswith('.type') or reason.endswith('.no-candidate')) and enum_takes_frozen(la, lb):
      # Enum.is_compatible accepts ANY frozen spec whose frozen value `==` one
      # of its members (True == 1), whatever the class of that spec: one
      # mechanism, not one per partner class.
      mech = 'Enum<-frozen:type' if isinstance(la, T.Enum) else 'Union[Enum]<-frozen:type'
    else:
      mech = pair_mechanism(la, lb, reason, '<-')
    mech = prefix(v) + mech
    if mech in fired:
      continue
    fired.add(mech)
    ctx.violation(
        'compat-unsound', mech,
        f'A={a!r}\nB={b!r}\nA.is_compatible(B) is True; value {short(v)} is accepted by B '
        f'and rejected by A: {err!r:.300}\ninnermost: {la!r} <- {lb!r} on {short(lv)}',
        {'A': S.show(da), 'B': S.show(db), 'value': short(v)})
  if checked and da is not db:
    state['nontrivial'] = True


# -- extension -----------------------------------------------------------------------------

def has_schema_dict(spec, depth=0):
  if depth > 8:
    return True
  if isinstance(spec, T.Dict):
    return spec.schema is not None
  if isinstance(spec, T.List):
    return has_schema_dict(spec.element.value, depth + 1)
  if isinstance(spec, T.Tuple):
    return any(has_schema_dict(e.value, depth + 1) for e in spec.elements)
  if isinstance(spec, T.Union):
    return any(has_schema_dict(x, depth + 1) for x in spec.candidates)
  return False


def project(v, cspec, base):
  """`v` restricted to the dict fields both specs declare (same key spec)."""
  if (isinstance(cspec, T.Dict) and isinstance(base, T.Dict) and isinstance(v, dict)
      and cspec.schema is not None and base.schema is not None):
    out = {}
    for k, x in v.items():
      fc, fb = cspec.schema.get_field(k), base.schema.get_field(k)
      if fc is None:
        return SKIP
      if fb is None:
        continue          # a field only the extended spec declares
      if fb.key != fc.key:
        # The base governs this key through another key spec (e.g. a constant
        # key of the child that a dynamic key of the base matches): whether the
        # two "share" the field is left open, the value is not judged.
        return SKIP
      y = project(x, fc.value, fb.value)
      if y is SKIP:
        return SKIP
      out[k] = y
    return out
  if isinstance(cspec, T.List) and isinstance(base, T.List) and isinstance(v, list):
    ys = [project(x, cspec.element.value, base.element.value) for x in v]
    return SKIP if any(y is SKIP for y in ys) else ys
  if isinstance(cspec, T.Tuple) and isinstance(base, T.Tuple) and isinstance(v, tuple):
    ys = []
    for i, x in enumerate(v):
      try:
        ys.append(project(x, elem_spec(cspec, i), elem_spec(base, i)))
      except IndexError:
        return SKIP if has_schema_dict(cspec) else v
    return SKIP if any(y is SKIP for y in ys) else tuple(ys)
  if has_schema_dict(cspec):
    return SKIP
  return v


def no_extra_fields(cspec, base, depth=0):
  """True when `cspec` provably declares no dict field that `base` lacks;
  None when the harness cannot tell."""
  if depth > 8:
    return None
  if isinstance(cspec, T.Dict) and isinstance(base, T.Dict):
    if cspec.schema is None or base.schema is None:
      return True if cspec.schema is None or base.schema is None else None
    for key, f in cspec.schema.items():
      if key not in base.schema:
        return False
      r = no_extra_fields(f.value, base.schema[key].value, depth + 1)
      if not r:
        return r
    return True
  if isinstance(cspec, T.List) and isinstance(base, T.List):
    return no_extra_fields(cspec.element.value, base.element.value, depth + 1)
  if isinstance(cspec, T.Tuple) and isinstance(base, T.Tuple):
    n = len(cspec.elements) if cspec.fixed_length else 1
    for i in range(n):
      try:
        r = no_extra_fields(elem_spec(cspec, i), elem_spec(base, i), depth + 1)
      except IndexError:
        return None
      if not r:
        return r
    return True
  if has_schema_dict(cspec):
    return None
  return True


def union_counterpart(base, spec):
  try:
    return base.get_candidate(spec)
  except Exception:  # pylint: disable=broad-except
    return None


def union_candidate_of_class(union, spec, depth=0):
  """First non-Union candidate of `union` (nested Unions flattened) of the
  class of `spec` (an Object spec: of a base class of its class)."""
  if depth > 8:
    return None
  for x in union.candidates:
    if isinstance(x, T.Union):
      r = union_candidate_of_class(x, spec, depth + 1)
      if r is not None:
        return r
    elif type(x) is type(spec):
      if isinstance(x, T.Object):
        try:
          if not issubclass(spec.cls, x.cls):
            continue
        except Exception:  # pylint: disable=broad-except
          continue
      return x
  return None


def localize_ext(ext, child, base, v, depth=0, through_union=False):
  """Descends to the innermost (extended, child, base, value) where the extended
  spec accepts the value and the base rejects it; `child` is the corresponding
  part of the un-extended child spec (None when it has none)."""
  def bad(e, b, w):
    ok, _, seen = S.accepts_tracked(e, w)
    return ok and not seen and not S.accepts(b, w)[0]
  same_kind = lambda x, cls: x if isinstance(x, cls) else None
  if (through_union and depth <= 8 and v is not None and not ext.frozen
      and isinstance(ext, T.Union) and isinstance(base, T.Union)):
    # Candidate by candidate, paired as extend() pairs them.
    # (A Union extends a Union candidate-wise: each candidate extends the first
    # base candidate of its own class.)
    aligned = (isinstance(child, T.Union) and len(child.candidates) == len(ext.candidates)
               and all(type(x) is type(y) for x, y in zip(child.candidates, ext.candidates)))
    for i, ec in enumerate(ext.candidates):
      cc = child.candidates[i] if aligned else None
      bc = union_candidate_of_class(base, ec)
      if bc is not None and bad(ec, bc, v):
        return localize_ext(ec, cc, bc, v, depth + 1, through_union)
  if depth > 8 or ext.frozen or v is None or isinstance(ext, T.Union):
    return ext, child, base, v
  if isinstance(base, T.Union):
    # Descend only into the candidate that extend() itself pairs the child with
    # (public `Union.get_candidate`); if that counterpart accepts the value, the
    # rejection comes from the Union's own dispatch rule and is attributed to it.
    bc = union_counterpart(base, child if child is not None else ext)
    if bc is not None and bad(ext, bc, v):
      return localize_ext(ext, child, bc, v, depth + 1, through_union)
    return ext, child, base, v
  if isinstance(ext, T.List) and isinstance(base, T.List) and isinstance(v, list):
    ch = same_kind(child, T.List)
    for x in v:
      if bad(ext.element.value, base.element.value, x):
        return localize_ext(ext.element.value, ch.element.value if ch is not None else None,
                            base.element.value, x, depth + 1, through_union)
  elif isinstance(ext, T.Tuple) and isinstance(base, T.Tuple) and isinstance(v, tuple):
    ch = same_kind(child, T.Tuple)
    for i, x in enumerate(v):
      try:
        ee, eb = elem_spec(ext, i), elem_spec(base, i)
      except IndexError:
        break
      if bad(ee, eb, x):
        try:
          ec = elem_spec(ch, i) if ch is not None else None
        except IndexError:
          ec = None
        return localize_ext(ee, ec, eb, x, depth + 1, through_union)
  elif (isinstance(ext, T.Dict) and isinstance(base, T.Dict) and isinstance(v, dict)
        and ext.schema is not None and base.schema is not None):
    ch = same_kind(child, T.Dict)
    for k, x in v.items():
      fe, fb = ext.schema.get_field(k), base.schema.get_field(k)
      if fe is not None and fb is not None and fe.key == fb.key and bad(fe.value, fb.value, x):
        fc = ch.schema.get_field(k) if ch is not None and ch.schema is not None else None
        return localize_ext(fe.value, fc.value if fc is not None else None,
                            fb.value, x, depth + 1, through_union)
    # The value was restricted to the shared fields: a frozen nested Dict of the
    # extended spec need not accept its own restricted value any more. The
    # component that the base field rejects under a frozen field is the place.
    for k, x in v.items():
      fe, fb = ext.schema.get_field(k), base.schema.get_field(k)
      fc = ch.schema.get_field(k) if ch is not None and ch.schema is not None else None
      if (fe is not None and fb is not None and fe.key == fb.key and fe.value.frozen
          and fc is not None and fc.value.frozen and not S.accepts(fb.value, x)[0]):
        return fe.value, fc.value, fb.value, x
  return ext, child, base, v


def localize_incompatible(ext, base, depth=0):
  """Innermost (extended, base) part with `base.is_compatible(extended)` False."""
  def inc(e, b):
    try:
      return not b.is_compatible(e)
    except Exception:  # pylint: disable=broad-except
      return False
  pairs = []
  if depth > 8:
    return ext, base
  if isinstance(base, T.Union):
    # Candidate by candidate, paired as extend() pairs them.
    for ec in (ext.candidates if isinstance(ext, T.Union) else [ext]):
      bc = union_counterpart(base, ec)
      if bc is not None and not isinstance(bc, T.Union):
        pairs.append((ec, bc))
      elif bc is None:
        # No candidate of the base takes this (extended) candidate any more:
        # compare it with the base candidates of its own class.
        pairs.extend((ec, c) for c in base.candidates if type(c) is type(ec))
  elif isinstance(ext, T.List) and isinstance(base, T.List):
    pairs = [(ext.element.value, base.element.value)]
  elif isinstance(ext, T.Tuple) and isinstance(base, T.Tuple):
    for i in range(len(ext.elements) if ext.fixed_length else 1):
      try:
        pairs.append((elem_spec(ext, i), elem_spec(base, i)))
      except IndexError:
        break
  elif (isinstance(ext, T.Dict) and isinstance(base, T.Dict)
        and ext.schema is not None and base.schema is not None):
    for key, f in ext.schema.items():
      if key in base.schema:
        pairs.append((f.value, base.schema[key].value))
  for e, b in pairs:
    if inc(e, b):
      return localize_incompatible(e, b, depth + 1)
  return ext, base


def extend_mechanism(ext, child, base, v, dependent=False):
  """`dependent`: the violation does not show for transform-free, never-used
  specs; the mechanism then names the level of the spec pair at which the
  extended spec behaves unlike what it renders, not a nested parameter."""
  le, lc, lb, lv = localize_ext(ext, child, base, v, through_union=dependent)
  if dependent and not le.frozen:
    reason = S.why_rejected(lb, lv) or 'unexplained'
    if reason.endswith('.required'):
      return None
    if (isinstance(le, T.Dict) and isinstance(lc, T.Dict) and lc.schema is None
        and le.schema is not None):
      return f'{cname(le)}->{cname(lb)}:schema-inherited'
    own = reason.startswith(cname(lb) + '.') or reason.startswith('Union.')
    return pair_mechanism(le, lb, reason, '->') if own else f'{cname(le)}->{cname(lb)}:nested'
  if le.frozen:
    if lc is not None and lc.has_default and not same_default(le.default, lc.default):
      return f'frozen-default-replaced:{cname(le)}'
    if frozen_shortcut(le, lv):
      return 'frozen-shortcut'
    return 'frozen-default-not-validated'
  if frozen_shortcut(le, lv):
    return 'frozen-shortcut'
  reason = S.why_rejected(lb, lv) or 'unexplained'
  if reason.endswith('.required'):
    return None       # omitted field that only the child gives a default: left open
  if isinstance(lb, T.Union) and not isinstance(le, T.Union):
    paired = union_counterpart(lb, lc if lc is not None else le)
    if paired is not None and paired.frozen:
      # The candidate extend() paired the child with is frozen (and took the
      # child's values through the frozen short cut).
      return 'frozen-candidate-of-base-union'
  if lb.frozen and lb is not base:
    # extend() tests `frozen` on the base it is given, not on the Union
    # candidate it then extends.
    return 'frozen-candidate-of-base-union'
  return pair_mechanism(le, lb, reason, '->')


_CLASS_SERIAL = [0]


def class_extend(child, base):
  """Schema inheritance as users write it: a pg.Object subclass overrides the
  field of its base class. Returns the two classes."""
  _CLASS_SERIAL[0] += 1
  n = _CLASS_SERIAL[0]
  base_cls = type(f'PgvBase{n}', (pg.Object,),
                  {'__annotations__': {'x': base}, '__module__': __name__})
  child_cls = type(f'PgvChild{n}', (base_cls,),
                   {'__annotations__': {'x': child}, '__module__': __name__})
  return base_cls, child_cls


def extend_law(ctx, rng, da, db, a, base, state):
  c = ctx.counters
  child = S.build(da)
  c['extend_evals'] += 1
  hist = {'tf': S.has_transform(da) or S.has_transform(db), 'mode': 'spec'}
  if rng.random() < 0.65:
    # The child spec was in use before it is extended.
    hist['warmed'] = True
    warm(ctx, rng, child)
  if rng.random() < 0.12:
    hist['mode'] = 'class'
    base = S.build(db)       # class creation re-applies defaults symbolically
    if hist.get('warmed'):
      warm(ctx, rng, base)
  ctx.label = f'extend:{cname(child)}'
  del S.TF_EVENTS[:]
  try:
    if hist['mode'] == 'class':
      base_cls, child_cls = class_extend(child, base)
      ext, base = child_cls.__schema__['x'].value, base_cls.__schema__['x'].value
    else:
      ext = child.extend(base)
  except S.APPLY_ERRORS:
    ctx.label = None
    c['extend_refused'] += 1
    return
  ctx.label = None
  if S.TF_EVENTS:
    # extend() itself ran a user transform that changed or refused a value
    # (an Enum offers its members to the base spec): the outcome was decided
    # by user code.
    del S.TF_EVENTS[:]
    c['dontcare_transform_visible'] += 1
    return
  c['extend_ok'] += 1
  if hist.get('warmed'):
    c['extend_ok_warmed'] += 1
  if hist['mode'] == 'class':
    c['extend_ok_class'] += 1
  if hist['tf']:
    c['extend_ok_transform'] += 1
  if da.get('tf'):
    c['extend_ok_own_transform:' + cname(ext)] += 1
  pair = f'{cname(child)}->{cname(base)}'
  witness = Lazy(lambda: {'child': S.show(da), 'base': S.show(db), 'extended': short(ext),
                          'history': {k: v for k, v in hist.items() if v}})
  control = []
  def plain_extension():
    """(extended, base) of the same descriptions without transforms, never
    used before, extended with `extend`; (None, None) when refused."""
    if not control:
      try:
        b0 = S.build(S.strip_transforms(db))
        control.extend([S.build(S.strip_transforms(da)).extend(b0), b0])
      except Exception:  # pylint: disable=broad-except
        control.extend([None, None])
    return control
  def dependent(v):
    """True when the plain extension does not show the violation on `v`."""
    if not history_prefix(hist):
      return False
    e0, b0 = plain_extension()
    if e0 is None:
      return True
    try:
      v = untyped(v)
      if not S.accepts(e0, v)[0]:
        return True
      pv0 = project(v, e0, b0)
      return pv0 is SKIP or S.accepts(b0, pv0)[0]
    except Exception:  # pylint: disable=broad-except
      return True
  fired = set()
  checked = 0
  for v in (S.candidates(rng, [ext, base, a], ctx.params['values'])
            + S.cross_values(rng, [ext, base, a], ctx.params.get('cross', 12))):
    okc, _, seen_c = S.accepts_tracked(ext, v)
    if not okc:
      continue
    if seen_c:
      c['dontcare_transform_visible'] += 1
      continue
    pv = project(v, ext, base)
    if pv is SKIP:
      c['extend_value_skipped'] += 1
      continue
    checked += 1
    c['extend_value_checks'] += 1
    if hist['mode'] == 'class':
      # Not judged (the constructor is the subject of other properties).
      try:
        child_cls(x=S.detached(v))
        c['class_ctor_agrees'] += 1
      except Exception:  # pylint: disable=broad-except
        c['class_ctor_rejects_what_spec_accepts'] += 1
    ctx.label = f'apply:{cname(base)}'
    okb, err, seen_b = S.accepts_tracked(base, pv)
    ctx.label = None
    if okb:
      continue
    if seen_b:
      c['dontcare_transform_visible'] += 1
      continue
    dep = dependent(v)
    mech = extend_mechanism(ext, a, base, pv, dependent=dep)
    if mech is None:
      c['dontcare_omitted_field'] += 1
      continue
    if dep:
      mech = history_prefix(hist) + mech
    if mech in fired:
      continue
    fired.add(mech)
    ctx.violation(
        'extend-unsound', mech,
        f'child={a!r}\nbase={base!r}\nextended={ext!r}\nvalue {short(v)} (on shared fields: '
        f'{short(pv)}) is accepted by the extended spec and rejected by the base: {err!r:.300}',
        wit(witness, value=short(v)))
  extras = no_extra_fields(ext, base)
  if extras:
    c['extend_compat_checks'] += 1
    if not compat(ctx, base, ext):
      le, lb = localize_incompatible(ext, base)
      if isinstance(lb, T.Union) and not isinstance(le, T.Union) and lb is base:
        lb = union_counterpart(lb, a) or lb
      pair = f'{cname(le)}->{cname(lb)}'
      if isinstance(le, T.Enum) and not isinstance(lb, (T.Enum, T.Union, T.Any)):
        pair = 'Enum->other-class'
      if history_prefix(hist):
        e0, b0 = plain_extension()
        try:
          if e0 is None or b0.is_compatible(e0):
            pair = history_prefix(hist) + pair
        except Exception:  # pylint: disable=broad-except
          pair = history_prefix(hist) + pair
      ctx.violation('extend-not-compatible', pair,
                    f'child={a!r}\nbase={base!r}\nextended={ext!r}\n'
                    'extend() succeeded but base.is_compatible(extended) is False', wit(witness))
  else:
    c['extend_compat_skipped'] += 1
  default_law(ctx, ext, 'extend', witness,
              control=(lambda: plain_extension()[0]) if history_prefix(hist) else None,
              prefix=history_prefix(hist))
  if checked:
    state['nontrivial'] = True


# -- case ---------------------------------------------------------------------------------------

def make_pool(rng, params):
  regex = rng.random() < 0.12
  base = S.gen_spec(rng, 0, 3, regex=regex)
  if rng.random() < 0.6:
    base = S.add_transforms(rng, base, 0.5)
  pool = [base]
  for _ in range(params['family']):
    src = rng.choice(pool)
    # A relaxed twin (bounds / sizes left unspecified, as in a subclass that
    # overrides a field and inherits the rest) or a same-family variant.
    v = S.relax(rng, src) if rng.random() < 0.3 else S.variant(rng, src)
    r = rng.random()
    if r < 0.3:
      v = S.add_transforms(rng, v, 0.5)
    elif r < 0.45:
      v = S.strip_transforms(v)
    pool.append(S.settle_transforms(v))
  for _ in range(params['strangers']):
    pool.append(S.gen_spec(rng, 0, 2))
  return pool


# -- completion by defaults, then work on the completed value ----------------------------

def make_envelope(rng, pool):
  """A Dict spec whose fields are default-heavy specs and members of the pool
  (so that apply completes omitted keys from defaults), possibly inside a
  List / Tuple / Dict."""
  fields = [[f'h{i}', S.gen_defaulted(rng)] for i in range(rng.randint(1, 3))]
  for i, d in enumerate(rng.sample(pool, min(2, len(pool)))):
    fields.append([f'p{i}', copy.deepcopy(d)])
  rng.shuffle(fields)
  env = {'k': 'dict', 'fields': fields}
  r = rng.random()
  if r < 0.2:
    env = {'k': 'list', 'el': env, 'min': None, 'max': None}
  elif r < 0.35:
    env = {'k': 'tuple', 'els': [env]}
  elif r < 0.5:
    env = {'k': 'dict', 'fields': [['e', env]]}
  if rng.random() < 0.3:
    env = S.add_transforms(rng, env, 0.25)
  return env


def make_input(rng, d, spec):
  """A (mostly partial) input for the envelope: omitted keys are completed."""
  k = d['k']
  if k == 'list':
    return [make_input(rng, d['el'], spec.element.value) for _ in range(rng.randint(1, 2))]
  if k == 'tuple':
    return tuple(make_input(rng, e, spec.elements[i].value) for i, e in enumerate(d['els']))
  if k == 'dict' and d['fields'] and d['fields'][0][0] == 'e':
    if rng.random() < 0.4:
      return {}
    return {'e': make_input(rng, d['fields'][0][1], spec.schema['e'].value)}
  out = {}
  for name, fd in d['fields']:
    f = spec.schema[name].value
    if rng.random() < (0.25 if f.has_default else 0.8):
      ok, _ = S._pick_ok(rng, f, 1, 2)       # pylint: disable=protected-access
      if ok:
        out[name] = S.detached(ok[0])
  return out


ENVELOPE_OPS = ['widened-spec-apply', 'child-transform-reapply',
                'child-transform-completion', 'direct-mutation']


def envelope_law(ctx, rng, pool):
  """Completes a partial value from defaults, then lets other code work on
  the completed value; after every such operation the spec (rendering, ==,
  every nested default, the completion of the same input) is what it was."""
  c = ctx.counters
  de = make_envelope(rng, pool)
  witness = {'envelope': S.show(de)}
  try:
    wide = S.build(S.widen(de))
  except Exception:  # pylint: disable=broad-except
    wide = None
  inp = None
  for op in ENVELOPE_OPS:
    spec = S.build(de)
    name = cname(spec)
    if inp is None:
      inp = make_input(rng, de, spec)
      witness['input'] = short(inp)
    snap = copy.deepcopy(spec)
    fmt = spec.format()
    ctx.label = f'spec-eq:{name}'
    eq_before = (spec == snap) and (snap == spec)
    ctx.label = None
    partial = False
    ctx.label = f'apply:{name}'
    ok, r = S.accepts(spec, inp)
    if not ok:
      partial = True
      ok, r = S.accepts(spec, inp, allow_partial=True)
    ctx.label = None
    if not ok:
      c['envelope_input_rejected'] += 1
      return
    c['envelope_completions'] += 1
    first = copy.deepcopy(r)
    c['alias_checks'] += 1
    alias_law(ctx, spec, [r], witness)
    def recheck():
      ok2, r2 = S.accepts(spec, inp, allow_partial=partial)
      return ok2 and strict_same(r2, first)
    if op == ENVELOPE_OPS[0] and not post_op_law(
        ctx, spec, snap, fmt, eq_before, 'apply', witness, recheck):
      return
    # The operations are stimuli (user code / other specs working on a value
    # they were handed); what they raise is not judged.
    try:
      if op == 'widened-spec-apply':
        if wide is None:
          continue
        wide.apply(r, allow_partial=True)
      elif op == 'child-transform-reapply':
        spec.apply(r, allow_partial=True, child_transform=rewriting_child_transform)
      elif op == 'child-transform-completion':
        spec.apply(S.detached(inp), allow_partial=partial,
                   child_transform=rewriting_child_transform)
        spec.apply(S.detached(inp), allow_partial=partial,
                   child_transform=rewriting_child_transform)
      else:
        mutate_plain(r)
    except Exception:  # pylint: disable=broad-except
      c['envelope_op_raised'] += 1
    c['envelope_ops'] += 1
    if not post_op_law(ctx, spec, snap, fmt, eq_before, op, witness, recheck):
      return


def run_case(ctx, i):
  rng = ctx.rng
  c = ctx.counters
  pool = make_pool(rng, ctx.params)
  state = {'nontrivial': False}
  for d in pool:
    c['specs'] += 1
    c['kind:' + d['k']] += 1
    ctx.seen('spec_descriptions', S.show(d))
    single_laws(ctx, rng, d, S.build(d))
  for ia, da in enumerate(pool):
    for ib, db in enumerate(pool):
      if S.has_regex(da) or S.has_regex(db):
        c['pairs_skipped_regex'] += 1
        continue
      c['pairs'] += 1
      a, b = S.build(da), S.build(db)
      compat_law(ctx, rng, da, db, a, b, state)
      extend_law(ctx, rng, da, db, a, b, state)
  for _ in range(ctx.params.get('envelopes', 2)):
    envelope_law(ctx, rng, pool)
  if state['nontrivial']:
    ctx.mark_nontrivial(tuple(S.show(d) for d in pool))
  if i < 2:
    ctx.sample({'pool': [S.show(d) for d in pool]})
