"""C04 — value-spec algebra: idempotent apply, acceptable defaults, apply leaves
the spec unchanged, is_compatible / extend only narrow."""
import copy

import pyglove as pg
from pgverif.gen import specs as S

T = pg.typing
MISSING = pg.MISSING_VALUE

TIERS = {
    'quick': dict(shards=8, cases=18, family=7, strangers=3, values=40),
    'thorough': dict(shards=16, cases=330, family=8, strangers=4, values=48),
}
RULE = ('case = a pool of value specs: one generated spec (Bool/Int/Float/Str/Enum/List/'
        'Tuple fixed+variable/Dict const+dynamic keys/Object/Union/Any, ranges, sizes, '
        'noneable/default/frozen, depth <= 3), `family` same-family variants of it (bounds '
        'and sizes moved by +-1/+-2 or dropped, enum sub/supersets, fields added/removed, '
        'flags flipped, one nested spec varied) and `strangers` unrelated specs. Every spec: '
        'apply idempotence, default acceptable, spec unchanged by apply. Every ordered pair '
        '(A,B): if A.is_compatible(B) then every candidate value B accepts must be accepted '
        'by A; C=copy(A).extend(B): every value C accepts must be accepted by B on the shared '
        'fields, B.is_compatible(C), C accepts its own default. Candidate values are derived '
        'from the parameters of both specs (each bound and +-1, each size +-1, enum members '
        'and a non-member, defaults, None, other types, partial / over-full dicts); '
        'acceptance is always decided by the real apply on a deep copy. Non-trivial = at '
        'least one non-identical compatible pair or successful extension whose containment '
        'was evaluated on >= 1 accepted value; distinct by the rendered pool.')
REQUIRED_COUNTERS = ['idempotence_checks', 'default_checks', 'spec_unchanged_checks',
                     'compat_true_pairs', 'compat_value_checks', 'extend_ok',
                     'extend_value_checks', 'extend_compat_checks']
ASSUMPTIONS = [
    'Str specs with a regex take part only in the single-spec laws (compatibility of regexes is documented as unchecked)',
    'a default is acceptable when apply(default, allow_partial=True) succeeds (defaults are applied with allow_partial by the library); non-partial defaults must also pass the strict apply',
    'for extension, dict keys whose field is not declared by both specs (same key spec) are removed from the value before it is offered to the base, and base.is_compatible(extended) is demanded only when the extended spec declares no extra dict fields',
    'a dict value that omits a field is a don\'t-care when the rejecting spec merely lacks a default for that field (completion by defaults is not part of the claim)',
    'containment of infinite acceptance sets is sampled at parameter-derived boundary values',
    'exceptions TypeError/ValueError/KeyError from apply and extend are rejections/refusals; any other exception is a violation',
]

SKIP = object()


def cases(ctx):
  return ctx.params['cases']


def cname(spec):
  return type(spec).__name__


def same(a, b):
  if type(a) is not type(b):
    return False
  try:
    return bool(pg.eq(a, b))
  except Exception:  # pylint: disable=broad-except
    return False


def has_missing(v):
  if MISSING == v:
    return True
  if isinstance(v, dict):
    return any(has_missing(x) for x in v.values())
  if isinstance(v, (list, tuple)):
    return any(has_missing(x) for x in v)
  if isinstance(v, pg.Symbolic):
    return v.is_partial
  return False


def short(v):
  r = repr(v)
  return r if len(r) < 200 else r[:200] + '…'


# -- single-spec laws ---------------------------------------------------------------

def single_laws(ctx, rng, d, spec, tag=None):
  c = ctx.counters
  name = cname(spec)
  witness = {'spec': S.show(d), 'built': short(spec)}
  snap = copy.deepcopy(spec)
  fmt = spec.format()
  # `==` of specs is demanded after the applies only where it held before them
  # (a Union with two Enum candidates differs from its own deep copy).
  ctx.label = f'spec-eq:{name}'
  eq_before = (spec == snap) and (snap == spec)
  ctx.label = None
  if not eq_before:
    c['snapshot_eq_unavailable'] += 1
  fired = set()
  for v in S.candidates(rng, [spec], ctx.params['values']):
    ctx.label = f'apply:{name}'
    ok, r = S.accepts(spec, v)
    ctx.label = None
    c['apply_evals'] += 1
    if not ok:
      c['apply_rejected'] += 1
      continue
    c['idempotence_checks'] += 1
    ctx.label = f'apply:{name}'
    ok2, r2 = S.accepts(spec, r)
    ctx.label = None
    if not ok2 and 'rej' not in fired:
      fired.add('rej')
      ctx.violation('apply-not-idempotent', f'{name}:reapply-rejected',
                    f'{spec!r}: apply({short(v)}) -> {short(r)}, which is rejected: {r2!r:.300}',
                    dict(witness, value=short(v)))
    elif ok2 and not same(r, r2) and 'diff' not in fired:
      fired.add('diff')
      ctx.violation('apply-not-idempotent', f'{name}:reapply-differs',
                    f'{spec!r}: apply({short(v)}) -> {short(r)}; apply of that -> {short(r2)}',
                    dict(witness, value=short(v)))
  default_law(ctx, spec, 'fresh', witness)
  c['spec_unchanged_checks'] += 1
  ctx.label = f'spec-eq:{name}'
  unchanged = spec.format() == fmt and (
      not eq_before or ((spec == snap) and (snap == spec)))
  ctx.label = None
  if not unchanged:
    ctx.violation('spec-mutated-by-apply', name,
                  f'before: {fmt}\nafter: {spec.format()}', witness)


def default_law(ctx, spec, origin, witness):
  if not spec.has_default:
    return
  c = ctx.counters
  name = cname(spec)
  c['default_checks'] += 1
  d = spec.default
  ctx.label = f'apply-default:{name}'
  ok, r = S.accepts(spec, d, allow_partial=True)
  strict_ok = True
  if ok and not has_missing(d):
    c['default_strict_checks'] += 1
    strict_ok, r = S.accepts(spec, d)
  ctx.label = None
  if not (ok and strict_ok):
    reason = S.why_rejected(spec, d) or 'unexplained'
    mech = name if origin == 'fresh' else 'after-extend:' + default_category(reason)
    ctx.violation('default-rejected', mech,
                  f'{spec!r} rejects its own default {short(d)}: {r!r:.300}',
                  dict(witness, default=short(d), origin=origin))


BOUND_PARAMS = {'min-value', 'max-value', 'min-size', 'max-size', 'length',
                'enum-member', 'regex', 'type', 'key'}


def default_category(reason):
  """Why an extended spec rejects its own default, by kind of parameter."""
  param = reason.rsplit('.', 1)[-1]
  if param in BOUND_PARAMS or param == 'required':
    return 'own-default-outside-narrowed-spec'
  if param == 'none':
    return 'none-default-not-noneable'
  if param == 'frozen':
    return 'nested-frozen-default-replaced'
  return param


def strict_same(a, b):
  """Equal and of identical types at every level."""
  if type(a) is not type(b):
    return False
  if isinstance(a, (list, tuple)):
    return len(a) == len(b) and all(strict_same(x, y) for x, y in zip(a, b))
  if isinstance(a, dict):
    return set(a) == set(b) and all(strict_same(a[k], b[k]) for k in a)
  try:
    return bool(pg.eq(a, b))
  except Exception:  # pylint: disable=broad-except
    return False


def enum_takes_frozen(a, b):
  """`a` is an Enum (or a Union with an Enum candidate) that declares itself
  compatible with the frozen spec `b` because b's frozen value `==` a member."""
  if not b.frozen:
    return False
  enums = [a] if isinstance(a, T.Enum) else (
      [c for c in a.candidates if isinstance(c, T.Enum)] if isinstance(a, T.Union) else [])
  for e in enums:
    try:
      if b.default in e.values and e.is_compatible(b):
        return True
    except Exception:  # pylint: disable=broad-except
      pass
  return False


def frozen_shortcut(spec, v, depth=0):
  """True when `spec` can accept `v` only because a frozen (sub)spec takes any
  value that compares equal to its default (e.g. 1 for a frozen True)."""
  if depth > 8:
    return False
  if spec.frozen:
    # equal by `==` but not the frozen value itself (another type); a frozen
    # spec that takes a value which is not even `==` to its default is a
    # different mechanism and must not be filed under the shortcut.
    try:
      loosely_equal = bool(v == spec.default)
    except Exception:  # pylint: disable=broad-except
      loosely_equal = False
    return MISSING != v and loosely_equal and not strict_same(v, spec.default)
  if isinstance(spec, T.List) and isinstance(v, list):
    return any(frozen_shortcut(spec.element.value, x, depth + 1) for x in v)
  if isinstance(spec, T.Tuple) and isinstance(v, tuple):
    for i, x in enumerate(v):
      try:
        if frozen_shortcut(elem_spec(spec, i), x, depth + 1):
          return True
      except IndexError:
        return False
    return False
  if isinstance(spec, T.Dict) and isinstance(v, dict) and spec.schema is not None:
    for k, x in v.items():
      f = spec.schema.get_field(k)
      if f is not None and frozen_shortcut(f.value, x, depth + 1):
        return True
    return False
  if isinstance(spec, T.Union):
    return any(frozen_shortcut(x, v, depth + 1) for x in spec.candidates)
  return False


# -- compatibility ---------------------------------------------------------------------

def compat(ctx, a, b):
  ctx.label = f'is_compatible:{cname(a)}'
  r = a.is_compatible(b)
  ctx.label = None
  return bool(r)


def elem_spec(t, i):
  return t.elements[i if t.fixed_length else 0].value


def localize(ctx, a, b, v, depth=0):
  """Descends to the innermost (a, b, v) that still shows `a.is_compatible(b)`,
  b accepts v, a rejects v."""
  def bad(x, y, w):
    try:
      return (x.is_compatible(y) and S.accepts(y, w)[0] and not S.accepts(x, w)[0])
    except Exception:  # pylint: disable=broad-except
      return False
  if depth > 8 or a.frozen or v is None:
    return a, b, v
  if isinstance(b, T.Union):
    for oc in b.candidates:
      if bad(a, oc, v):
        return localize(ctx, a, oc, v, depth + 1)
    return a, b, v
  if isinstance(a, T.Union):
    for c in a.candidates:
      if bad(c, b, v):
        return localize(ctx, c, b, v, depth + 1)
    return a, b, v
  if isinstance(a, T.List) and isinstance(b, T.List) and isinstance(v, list):
    for x in v:
      if bad(a.element.value, b.element.value, x):
        return localize(ctx, a.element.value, b.element.value, x, depth + 1)
  elif isinstance(a, T.Tuple) and isinstance(b, T.Tuple) and isinstance(v, tuple):
    for i, x in enumerate(v):
      try:
        ea, eb = elem_spec(a, i), elem_spec(b, i)
      except IndexError:
        break
      if bad(ea, eb, x):
        return localize(ctx, ea, eb, x, depth + 1)
  elif (isinstance(a, T.Dict) and isinstance(b, T.Dict) and isinstance(v, dict)
        and a.schema is not None and b.schema is not None):
    for k, x in v.items():
      fa, fb = a.schema.get_field(k), b.schema.get_field(k)
      if fa is not None and fb is not None and bad(fa.value, fb.value, x):
        return localize(ctx, fa.value, fb.value, x, depth + 1)
  return a, b, v


def pair_mechanism(x, y, reason, arrow):
  """`<X><arrow><Y>:<param>`; a Union's own dispatch rules are a
  class-independent cause."""
  if reason.startswith('Union.'):
    return 'Union:' + reason[len('Union.'):].split('/', 1)[0]
  param = reason.rsplit('.', 1)[-1]
  return f'{cname(x)}{arrow}{cname(y)}:{param}'


def reason_key(spec, v):
  r = S.why_rejected(spec, v) or 'unexplained'
  return r


def compat_law(ctx, rng, da, db, a, b, state):
  c = ctx.counters
  c['compat_evals'] += 1
  if not compat(ctx, a, b):
    return
  c['compat_true_pairs'] += 1
  fired = set()
  checked = 0
  for v in S.candidates(rng, [b, a], ctx.params['values']):
    okb, _ = S.accepts(b, v)
    if not okb:
      continue
    checked += 1
    c['compat_value_checks'] += 1
    ctx.label = f'apply:{cname(a)}'
    oka, err = S.accepts(a, v)
    ctx.label = None
    if oka:
      continue
    la, lb, lv = localize(ctx, a, b, v)
    reason = reason_key(la, lv)
    if reason.endswith('.required'):
      # A dict value that omits a field for which only B has a default: whether
      # "accepts" covers values completed by defaults is left open.
      c['dontcare_omitted_field'] += 1
      continue
    if la.frozen or reason.endswith('.frozen'):
      mech = 'frozen'
    elif frozen_shortcut(lb, lv):
      mech = 'frozen-shortcut'
    elif (reason.endswith('.type') or reason.endswith('.no-candidate')) and enum_takes_frozen(la, lb):
      # Enum.is_compatible accepts ANY frozen spec whose frozen value `==` one
      # of its members (True == 1), whatever the class of that spec: one
      # mechanism, not one per partner class.
      mech = 'Enum<-frozen:type' if isinstance(la, T.Enum) else 'Union[Enum]<-frozen:type'
    else:
      mech = pair_mechanism(la, lb, reason, '<-')
    if mech in fired:
      continue
    fired.add(mech)
    ctx.violation(
        'compat-unsound', mech,
        f'A={a!r}\nB={b!r}\nA.is_compatible(B) is True; value {short(v)} is accepted by B '
        f'and rejected by A: {err!r:.300}\ninnermost: {la!r} <- {lb!r} on {short(lv)}',
        {'A': S.show(da), 'B': S.show(db), 'value': short(v)})
  if checked and da is not db:
    state['nontrivial'] = True


# -- extension -----------------------------------------------------------------------------

def has_schema_dict(spec, depth=0):
  if depth > 8:
    return True
  if isinstance(spec, T.Dict):
    return spec.schema is not None
  if isinstance(spec, T.List):
    return has_schema_dict(spec.element.value, depth + 1)
  if isinstance(spec, T.Tuple):
    return any(has_schema_dict(e.value, depth + 1) for e in spec.elements)
  if isinstance(spec, T.Union):
    return any(has_schema_dict(x, depth + 1) for x in spec.candidates)
  return False


def project(v, cspec, base):
  """`v` restricted to the dict fields both specs declare (same key spec)."""
  if (isinstance(cspec, T.Dict) and isinstance(base, T.Dict) and isinstance(v, dict)
      and cspec.schema is not None and base.schema is not None):
    out = {}
    for k, x in v.items():
      fc, fb = cspec.schema.get_field(k), base.schema.get_field(k)
      if fc is None:
        return SKIP
      if fb is None:
        continue          # a field only the extended spec declares
      if fb.key != fc.key:
        # The base governs this key through another key spec (e.g. a constant
        # key of the child that a dynamic key of the base matches): whether the
        # two "share" the field is left open, the value is not judged.
        return SKIP
      y = project(x, fc.value, fb.value)
      if y is SKIP:
        return SKIP
      out[k] = y
    return out
  if isinstance(cspec, T.List) and isinstance(base, T.List) and isinstance(v, list):
    ys = [project(x, cspec.element.value, base.element.value) for x in v]
    return SKIP if any(y is SKIP for y in ys) else ys
  if isinstance(cspec, T.Tuple) and isinstance(base, T.Tuple) and isinstance(v, tuple):
    ys = []
    for i, x in enumerate(v):
      try:
        ys.append(project(x, elem_spec(cspec, i), elem_spec(base, i)))
      except IndexError:
        return SKIP if has_schema_dict(cspec) else v
    return SKIP if any(y is SKIP for y in ys) else tuple(ys)
  if has_schema_dict(cspec):
    return SKIP
  return v


def no_extra_fields(cspec, base, depth=0):
  """True when `cspec` provably declares no dict field that `base` lacks;
  None when the harness cannot tell."""
  if depth > 8:
    return None
  if isinstance(cspec, T.Dict) and isinstance(base, T.Dict):
    if cspec.schema is None or base.schema is None:
      return True if cspec.schema is None or base.schema is None else None
    for key, f in cspec.schema.items():
      if key not in base.schema:
        return False
      r = no_extra_fields(f.value, base.schema[key].value, depth + 1)
      if not r:
        return r
    return True
  if isinstance(cspec, T.List) and isinstance(base, T.List):
    return no_extra_fields(cspec.element.value, base.element.value, depth + 1)
  if isinstance(cspec, T.Tuple) and isinstance(base, T.Tuple):
    n = len(cspec.elements) if cspec.fixed_length else 1
    for i in range(n):
      try:
        r = no_extra_fields(elem_spec(cspec, i), elem_spec(base, i), depth + 1)
      except IndexError:
        return None
      if not r:
        return r
    return True
  if has_schema_dict(cspec):
    return None
  return True


def union_counterpart(base, spec):
  try:
    return base.get_candidate(spec)
  except Exception:  # pylint: disable=broad-except
    return None


def localize_ext(ext, child, base, v, depth=0):
  """Descends to the innermost (extended, child, base, value) where the extended
  spec accepts the value and the base rejects it; `child` is the corresponding
  part of the un-extended child spec (None when it has none)."""
  def bad(e, b, w):
    return S.accepts(e, w)[0] and not S.accepts(b, w)[0]
  same_kind = lambda x, cls: x if isinstance(x, cls) else None
  if depth > 8 or ext.frozen or v is None or isinstance(ext, T.Union):
    return ext, child, base, v
  if isinstance(base, T.Union):
    # Descend only into the candidate that extend() itself pairs the child with
    # (public `Union.get_candidate`); if that counterpart accepts the value, the
    # rejection comes from the Union's own dispatch rule and is attributed to it.
    bc = union_counterpart(base, child if child is not None else ext)
    if bc is not None and bad(ext, bc, v):
      return localize_ext(ext, child, bc, v, depth + 1)
    return ext, child, base, v
  if isinstance(ext, T.List) and isinstance(base, T.List) and isinstance(v, list):
    ch = same_kind(child, T.List)
    for x in v:
      if bad(ext.element.value, base.element.value, x):
        return localize_ext(ext.element.value, ch.element.value if ch else None,
                            base.element.value, x, depth + 1)
  elif isinstance(ext, T.Tuple) and isinstance(base, T.Tuple) and isinstance(v, tuple):
    ch = same_kind(child, T.Tuple)
    for i, x in enumerate(v):
      try:
        ee, eb = elem_spec(ext, i), elem_spec(base, i)
      except IndexError:
        break
      if bad(ee, eb, x):
        try:
          ec = elem_spec(ch, i) if ch else None
        except IndexError:
          ec = None
        return localize_ext(ee, ec, eb, x, depth + 1)
  elif (isinstance(ext, T.Dict) and isinstance(base, T.Dict) and isinstance(v, dict)
        and ext.schema is not None and base.schema is not None):
    ch = same_kind(child, T.Dict)
    for k, x in v.items():
      fe, fb = ext.schema.get_field(k), base.schema.get_field(k)
      if fe is not None and fb is not None and fe.key == fb.key and bad(fe.value, fb.value, x):
        fc = ch.schema.get_field(k) if ch is not None and ch.schema is not None else None
        return localize_ext(fe.value, fc.value if fc is not None else None,
                            fb.value, x, depth + 1)
  return ext, child, base, v


def localize_incompatible(ext, base, depth=0):
  """Innermost (extended, base) part with `base.is_compatible(extended)` False."""
  def inc(e, b):
    try:
      return not b.is_compatible(e)
    except Exception:  # pylint: disable=broad-except
      return False
  pairs = []
  if depth > 8:
    return ext, base
  if isinstance(base, T.Union):
    # Candidate by candidate, paired as extend() pairs them.
    for ec in (ext.candidates if isinstance(ext, T.Union) else [ext]):
      bc = union_counterpart(base, ec)
      if bc is not None and not isinstance(bc, T.Union):
        pairs.append((ec, bc))
      elif bc is None:
        # No candidate of the base takes this (extended) candidate any more:
        # compare it with the base candidates of its own class.
        pairs.extend((ec, c) for c in base.candidates if type(c) is type(ec))
  elif isinstance(ext, T.List) and isinstance(base, T.List):
    pairs = [(ext.element.value, base.element.value)]
  elif isinstance(ext, T.Tuple) and isinstance(base, T.Tuple):
    for i in range(len(ext.elements) if ext.fixed_length else 1):
      try:
        pairs.append((elem_spec(ext, i), elem_spec(base, i)))
      except IndexError:
        break
  elif (isinstance(ext, T.Dict) and isinstance(base, T.Dict)
        and ext.schema is not None and base.schema is not None):
    for key, f in ext.schema.items():
      if key in base.schema:
        pairs.append((f.value, base.schema[key].value))
  for e, b in pairs:
    if inc(e, b):
      return localize_incompatible(e, b, depth + 1)
  return ext, base


def extend_mechanism(ext, child, base, v):
  le, lc, lb, lv = localize_ext(ext, child, base, v)
  if le.frozen:
    if lc is not None and lc.has_default and not same(le.default, lc.default):
      return f'frozen-default-replaced:{cname(le)}'
    if frozen_shortcut(le, lv):
      return 'frozen-shortcut'
    return 'frozen-default-not-validated'
  if frozen_shortcut(le, lv):
    return 'frozen-shortcut'
  reason = S.why_rejected(lb, lv) or 'unexplained'
  if reason.endswith('.required'):
    return None       # omitted field that only the child gives a default: left open
  if lb.frozen and lb is not base:
    # extend() tests `frozen` on the base it is given, not on the Union
    # candidate it then extends.
    return 'frozen-candidate-of-base-union'
  return pair_mechanism(le, lb, reason, '->')


def extend_law(ctx, rng, da, db, a, base, state):
  c = ctx.counters
  child = S.build(da)
  c['extend_evals'] += 1
  ctx.label = f'extend:{cname(child)}'
  try:
    ext = child.extend(base)
  except S.APPLY_ERRORS:
    ctx.label = None
    c['extend_refused'] += 1
    return
  ctx.label = None
  c['extend_ok'] += 1
  pair = f'{cname(child)}->{cname(base)}'
  witness = {'child': S.show(da), 'base': S.show(db), 'extended': short(ext)}
  fired = set()
  checked = 0
  for v in S.candidates(rng, [ext, base, a], ctx.params['values']):
    okc, _ = S.accepts(ext, v)
    if not okc:
      continue
    pv = project(v, ext, base)
    if pv is SKIP:
      c['extend_value_skipped'] += 1
      continue
    checked += 1
    c['extend_value_checks'] += 1
    ctx.label = f'apply:{cname(base)}'
    okb, err = S.accepts(base, pv)
    ctx.label = None
    if okb:
      continue
    mech = extend_mechanism(ext, a, base, pv)
    if mech is None:
      c['dontcare_omitted_field'] += 1
      continue
    if mech in fired:
      continue
    fired.add(mech)
    ctx.violation(
        'extend-unsound', mech,
        f'child={a!r}\nbase={base!r}\nextended={ext!r}\nvalue {short(v)} (on shared fields: '
        f'{short(pv)}) is accepted by the extended spec and rejected by the base: {err!r:.300}',
        dict(witness, value=short(v)))
  extras = no_extra_fields(ext, base)
  if extras:
    c['extend_compat_checks'] += 1
    if not compat(ctx, base, ext):
      le, lb = localize_incompatible(ext, base)
      if isinstance(lb, T.Union) and not isinstance(le, T.Union) and lb is base:
        lb = union_counterpart(lb, a) or lb
      pair = f'{cname(le)}->{cname(lb)}'
      if isinstance(le, T.Enum) and not isinstance(lb, (T.Enum, T.Union, T.Any)):
        pair = 'Enum->other-class'
      ctx.violation('extend-not-compatible', pair,
                    f'child={a!r}\nbase={base!r}\nextended={ext!r}\n'
                    'extend() succeeded but base.is_compatible(extended) is False', witness)
  else:
    c['extend_compat_skipped'] += 1
  default_law(ctx, ext, 'extend', witness)
  if checked:
    state['nontrivial'] = True


# -- case ---------------------------------------------------------------------------------------

def make_pool(rng, params):
  regex = rng.random() < 0.12
  base = S.gen_spec(rng, 0, 3, regex=regex)
  pool = [base]
  for _ in range(params['family']):
    src = rng.choice(pool)
    pool.append(S.variant(rng, src))
  for _ in range(params['strangers']):
    pool.append(S.gen_spec(rng, 0, 2))
  return pool


def run_case(ctx, i):
  rng = ctx.rng
  c = ctx.counters
  pool = make_pool(rng, ctx.params)
  state = {'nontrivial': False}
  for d in pool:
    c['specs'] += 1
    c['kind:' + d['k']] += 1
    ctx.seen('spec_descriptions', S.show(d))
    single_laws(ctx, rng, d, S.build(d))
  for ia, da in enumerate(pool):
    for ib, db in enumerate(pool):
      if S.has_regex(da) or S.has_regex(db):
        c['pairs_skipped_regex'] += 1
        continue
      c['pairs'] += 1
      a, b = S.build(da), S.build(db)
      compat_law(ctx, rng, da, db, a, b, state)
      extend_law(ctx, rng, da, db, a, b, state)
  if state['nontrivial']:
    ctx.mark_nontrivial(tuple(S.show(d) for d in pool))
  if i < 2:
    ctx.sample({'pool': [S.show(d) for d in pool]})
