"""C05 — serialization and persistence round trip: what is saved is what is loaded."""
import atexit
import copy
import itertools
import json
import os
import pickle
import random
import re
import shutil
import tempfile
import types

import pyglove as pg
from pgverif.gen import serial as S
from pgverif.gen import values as V
from pgverif.monitors import persist as P
from pgverif.monitors import schema as SM
from pgverif.monitors import tree as TM

TIERS = {
    'quick': dict(shards=8, values=190, histories=25, steps=44),
    # DESIGN.md asks for 16 x (8000 + 1000); a value costs ~30 ms (4 codecs + monitors) and a
    # history ~0.6 s (two file systems, every path re-read after every operation), so the
    # counts are scaled to stay below 10 min per shard.
    'thorough': dict(shards=16, values=4000, histories=320, steps=60, timeout_s=9000),
}
RULE = ('value case = one described serializable value (primitives incl. special floats and '
        'hostile strings - control characters, NUL, every kind of line break, unpaired '
        'surrogates, non-BMP text, JSON look-alikes, 5k/70k characters - as values and as dict '
        'keys, tuples, plain/symbolic lists and dicts with str and int keys, '
        'objects of pgverif.models (typed, untyped, partial), functor instances, hyper '
        'primitives, opaque leaves, classes/functions/methods/annotations (also with typed '
        'default arguments), lambdas and locally defined functions whose positional and '
        'keyword-only defaults are values of every serializable kind (nested, as roots and as '
        'leaves of containers and objects), typed root '
        'containers (also with members that have the default value of a constant or dynamic '
        'field), value specs, fields, schemas, DNASpecs and DNAs; values with a user-defined '
        'equality - pg.Object subclasses overriding sym_eq (equal to anything, to the wrapped '
        'value as in the pg.eq doc-string, to nothing; complete and partial) and opaque '
        'picklable objects with a hostile __eq__ (always, never, by one attribute, no truth '
        'value, raising) - in untyped and typed schema-backed fields with defaults, dict, '
        'tuple and list members; pg.KeyPath values over hostile keys (negative ints, '
        'int-looking strings, the empty string, dots/brackets) in pg.KeyPath-typed slots '
        '(field, list element, dict value) and untyped ones, and pg.dna_spec of search spaces '
        'whose hyper values sit under such keys; members inferred from an ancestor '
        '(ValueFromParentChain) in objects and dicts) sent through six '
        'codecs (to_json/from_json, to_json_str/from_json_str, a file of the standard and of '
        'the in-memory file system written by pg.save/Symbolic.save (new path or overwrite) or '
        'as a record of open_jsonl/open_sequence (new file or append), pickle, copy.deepcopy; '
        'the string form with and without hide_default_values) '
        'with equality (NaN-aware; functions carried as code: same code, same defaults, same '
        'result of a call that relies on the defaults; values with a user-defined equality: '
        'member by member / by type and attributes against the value built from the same '
        'description, never by their own ==), type, pg.hash, tree_ok, schema_ok and a '
        'differential invalid-write monitor, and the read path repeated: the same in-memory '
        'JSON value (to_json output or the json.loads of its text) loaded two or three times '
        'by pg.from_json and Dict/List/Object.from_json, every load equal to the original; non-trivial = the value has at least 2 description nodes, '
        'distinct by description. history case = one history of save/overwrite/rm/'
        'writefile/sequence write+append operations, interleaved with reader handles that '
        'stay open over later operations (pg.io.open read in pieces by read(n)/read()/'
        'readline, open_jsonl/open_sequence readers iterated record by record, several per '
        'path, closed late or never, writes directed at paths with an unclosed reader), '
        'over 6-15 paths on the standard file '
        'system (fresh temp dir, which is the working directory: some paths are written by a '
        'relative spelling - bare file name, ./name, dir/name - and read back by the absolute '
        'one) and then on the in-memory one (incl. names that collide '
        'with the /mem/ prefix), text, binary and JSON writes now and then overwriting a path '
        'that holds another kind of content, checked after every operation against a path -> last '
        'value model through path_exists, readfile, pg.load, listdir/isdir and sequence '
        'iteration (a path with an open reader is read back immediately after a write, '
        'otherwise only now and then), and every read of an open handle against the content '
        'its path had when it was opened; non-trivial = at least 8 successful writes with an overwrite and an '
        'append, distinct by (file system, operation sequence).')
REQUIRED_COUNTERS = ['roundtrips', 'file_roundtrips', 'reload_checks', 'roundtrips_with_function_defaults',
                     'eq_checks', 'type_checks', 'hash_checks', 'tree_ok_evals',
                     'schema_ok_evals', 'invalid_writes_rejected', 'persist_ops',
                     'persist_content_checks', 'persist_load_checks',
                     'persist_listdir_checks', 'persist_seq_checks',
                     'persist_reader_checks', 'persist_writes_with_open_reader']
ASSUMPTIONS = [
    'documented mappings are part of the oracle: from_json maps dict/list to pg.Dict/pg.List, '
    'partial values need allow_partial=True, a typed root container gets its spec back '
    'through from_json(value_spec=...)',
    'not generated (the property is silent): pg.Ref, local classes, functions with a closure, '
    'partial objects or typed root containers inside default arguments, bool or float '
    'dict keys, keys with unbalanced brackets, MISSING_VALUE members, raw text records with '
    'line breaks, raw text files with carriage returns or non-ASCII characters (every str is '
    'generated inside JSON values, where the encoding is the library\'s business)',
    'a lambda / local function is restored from its code: pg.eq and pg.hash look at the byte '
    'code only, so the harness also compares __defaults__, __kwdefaults__ and the result of a '
    'call (containers inside defaults may come back plain or symbolic); __module__, '
    'annotations and attributes are not compared; pickle is skipped for such values (Python '
    'pickles functions by qualified name)',
    'a file codec is layered over the string form (skipped when that failed) and judged by '
    'no exception, record count, type, equality and hash only',
    'whether from_json leaves its input textually unchanged is left open (type names are '
    'resolved in place); only the values of repeated loads are judged',
    'a write that raised: the path must afterwards hold the previous or the new content '
    '(which of the two is left open); then the path is forgotten',
    'pickle drops the value spec of a root pg.Dict/pg.List (stated in the library); the '
    'invalid-write monitor therefore uses typed roots only with the JSON codecs and deepcopy',
    'the string form is layered over the object form: a value that already fails in object '
    'form is not reported again for the string form',
    'mechanism = codec (+hide_default_values when the same round trip passes without the '
    'option) + class of the greedily minimised value description',
    'values with a user-defined equality: pg.eq / == / pg.hash of such a value are whatever '
    'the user defined, so the restored value is compared member by member (pg.Object) or by '
    'type and attributes (opaque objects) and the whole-value pg.eq is not judged; a '
    'description whose constructor does not keep the described members (pg.List drops a '
    'member that equals MISSING_VALUE, a plain list whose first member equals the tuple '
    'marker is re-read as a tuple) is not a case of this property (construction: C01/C02); '
    'hide_default_values is not combined with such values (which members "have the default '
    'value" is a statement of their own equality)',
    'a pg.KeyPath is written as its path string (registered type conversion) and converted '
    'back by a pg.KeyPath-typed slot only: in an untyped slot a pg.KeyPath or the equal '
    'path string is accepted; keys with unbalanced brackets are not generated (C10)',
    'inferential members are generated only where an ancestor other than the value itself '
    'has a member of that name (an unresolvable or self-referring inference is not a '
    'serializable value)',
    'open handles: only readers are left open (the content of a path whose writer is not '
    'closed is not "saved" yet: not generated); a reader is judged from its own position '
    'against the content at the time it was opened until the path is written or removed '
    '(then it is stale: read and closed, results not judged); a write/overwrite/append while '
    'readers are open means the same as without them',
]

CODECS = ['json', 'json-str', 'file-std', 'file-mem', 'pickle', 'deepcopy']
FILE_CODECS = ('file-std', 'file-mem')
HIDE_DEFAULTS = 16       # variant bit: to_json(hide_default_values=True)
SCHEMA_FAMILIES = ('container', 'object', 'typed-root', 'usereq', 'keypath')


def cases(ctx):
  return ctx.params['values'] + ctx.params['histories']


def run_case(ctx, i):
  if i < ctx.params['values']:
    value_case(ctx, i)
  else:
    history_case(ctx, i)


# ---------------------------------------------------------------------------
# Half 1: round-trip laws.
# ---------------------------------------------------------------------------

def run_codec(codec, v, d, variant=0):
  kw = {}
  if S.is_partial(d):
    kw['allow_partial'] = True
  if codec in ('json', 'json-str') + FILE_CODECS:
    vs = S.root_value_spec(d)
    if vs is not None:
      kw['value_spec'] = vs
  sym = isinstance(v, pg.Symbolic)
  # bit 4: members that have the default value of their field are left out of
  # the JSON (the schema puts them back on load)
  # (string form only: the plain object form decides what the other codecs,
  # which are layered over it, are spared)
  opts = {'hide_default_values': True} if variant & HIDE_DEFAULTS else {}
  if codec == 'json':
    j = v.to_json() if (sym and variant & 1) else pg.to_json(v)
    return pg.from_json(j, **kw)
  if codec == 'json-str':
    if sym and variant & 1:
      s = v.to_json_str(json_indent=2 if variant & 2 else None, **opts)
    else:
      s = pg.to_json_str(v, json_indent=2 if variant & 2 else None, **opts)
    return pg.from_json_str(s, **kw)
  if codec in FILE_CODECS:
    return run_file(codec, v, kw, variant)
  if codec == 'pickle':
    return pickle.loads(pickle.dumps(v, protocol=(2 if variant & 1 else pickle.HIGHEST_PROTOCOL)))
  return copy.deepcopy(v)


_STD = {}
_SERIAL = itertools.count()


def std_dir():
  if 'dir' not in _STD:
    _STD['dir'] = tempfile.mkdtemp(prefix='pgverif-c05v-')
    atexit.register(shutil.rmtree, _STD['dir'], True)
  return _STD['dir']


class RecordCount:
  """What a record file returned when it is not one record per add."""

  def __init__(self, got, added):
    self.got, self.added = got, added


def run_file(codec, v, kw, variant):
  """The value through a file of the standard / the in-memory file system.
  Bits 2-3 of `variant` select the route: pg.save + pg.load of a new path, the
  same as an overwrite of another value, one record of a new record file,
  a record appended to an existing record file."""
  n = next(_SERIAL)
  route = (variant >> 2) & 3
  root = std_dir() if codec == 'file-std' else f'/mem/c05v{os.getpid()}'
  path = f'{root}/r{n % 5}/v{n}' + ('.json' if route < 2 else '.jsonl')
  sym = isinstance(v, pg.Symbolic)
  try:
    if route < 2:
      if route == 1:
        pg.save(pg.Dict(previous=['value'] * (n % 40)), path)
      skw = {'indent': 2} if variant & 2 else {}
      if sym and variant & 1:
        v.save(path, **skw)
      else:
        pg.save(v, path, **skw)
      # (pg.load passes allow_partial=True itself)
      return pg.load(path, **{k: x for k, x in kw.items() if k != 'allow_partial'})
    if kw or variant & 1:
      opener = lambda m: pg.io.open_sequence(
          path, m, serializer=pg.to_json_str,
          deserializer=lambda text: pg.from_json_str(text, **kw))
    else:
      opener = lambda m: pg.open_jsonl(path, m)
    if route == 3:
      with opener('w') as f:
        f.add(v)          # (the reader hands `kw` to every record)
      with opener('a') as f:
        f.add(v)
    else:
      with opener('w') as f:
        f.add(v)
    with opener('r') as f:
      got = list(iter(f))
    if len(got) != route - 1:
      return RecordCount(got, route - 1)
    return got[-1]
  finally:
    try:
      pg.io.rm(path)
    except Exception:  # pylint: disable=broad-except
      pass


def is_model_object(v):
  return isinstance(v, pg.Object) and type(v).__module__ in ('pgverif.models',
                                                             'pgverif.gen.serial')


def compare_fn(a, b, where, out):
  """Two functions that are carried as code + defaults: same code, same
  default arguments (positional and keyword-only), same result of a call that
  relies on the defaults. (pg.eq compares the byte code only.)"""
  where = where or '<root>'
  if a.__code__ != b.__code__:
    out.append(('not-equal', f'at {where}: the code of the function differs'))
    return
  n = len(out)
  da, db = a.__defaults__ or (), b.__defaults__ or ()
  compare(da, db, 'loose', f'{where}.__defaults__', out)
  ka, kb = dict(a.__kwdefaults__ or {}), dict(b.__kwdefaults__ or {})
  compare(ka, kb, 'loose', f'{where}.__kwdefaults__', out)
  if len(out) > n:
    return
  try:
    ra = ('returns', S.call_probe(a))
  except Exception as e:  # pylint: disable=broad-except
    ra = ('raises', type(e).__name__)
  try:
    rb = ('returns', S.call_probe(b))
  except Exception as e:  # pylint: disable=broad-except
    rb = ('raises', type(e).__name__)
  if ra[0] != rb[0] or (ra[0] == 'raises' and ra[1] != rb[1]):
    out.append(('not-equal', f'at {where}: the call {ra[0]} {ra[1]!r:.80} -> {rb[0]} {rb[1]!r:.80}'))
  elif ra[0] == 'returns':
    compare(ra[1], rb[1], 'loose', f'{where}(...)', out)


def untyped_slot(holder, key):
  """The member `key` of `holder` is not governed by a value spec that says
  what it is (no field, or pg.typing.Any)."""
  if not isinstance(holder, pg.Symbolic):
    return True
  try:
    f = holder.sym_attr_field(key)
  except Exception:  # pylint: disable=broad-except
    return True
  return f is None or isinstance(f.value, pg.typing.Any)


def converted(x, y, mapped, holder, key, where, out):
  """JSON carries a pg.KeyPath as its path string (the registered type
  conversion); only a pg.KeyPath-typed slot converts it back. In an untyped
  slot both outcomes are accepted, but the string must be the path."""
  if not (mapped and isinstance(x, pg.KeyPath) and type(y) is str
          and (holder is None or untyped_slot(holder, key))):
    return False
  if y != x.path:
    out.append(('not-equal', f'at {where or "<root>"}: the path {x.path!r} came back as {y!r}'))
  return True


def compare(a, b, mapped, where, out):
  """NaN-aware structural comparison with exact types. Appends
  (clause, detail) with clause 'type-differs' or 'not-equal'. Members with a
  user-defined equality are compared member by member / by type and
  attributes, never through their own `==`."""
  if where == '' and converted(a, b, mapped, None, None, where, out):
    return
  ta, tb = type(a), type(b)
  if mapped and tb is not ta:
    # from_json maps dict/list to pg.Dict/pg.List (documented); a plain
    # container restored from a spec default may also stay plain.
    ta = pg.Dict if ta is dict else (pg.List if ta is list else ta)
    if mapped == 'loose':
      # default arguments of a function are restored as plain containers
      tb = pg.Dict if tb is dict else (pg.List if tb is list else tb)
  if ta is not tb:
    out.append(('type-differs', f'at {where or "<root>"}: {type(a).__name__} came back as '
                f'{type(b).__name__} ({a!r:.80} -> {b!r:.80})'))
    return
  if isinstance(a, float):
    if not V.same_float(a, b):
      out.append(('not-equal', f'at {where or "<root>"}: {a!r} -> {b!r}'))
    return
  if isinstance(a, S.OPAQUE_EQ_TYPES):
    compare(dict(vars(a)), dict(vars(b)), False, f'{where}.__dict__', out)
    return
  if isinstance(a, dict) or is_model_object(a):
    ka = list(a.sym_keys()) if isinstance(a, pg.Symbolic) else list(a.keys())
    kb = list(b.sym_keys()) if isinstance(b, pg.Symbolic) else list(b.keys())
    if set(map(repr, ka)) != set(map(repr, kb)):
      out.append(('not-equal', f'at {where or "<root>"}: keys {ka!r:.120} -> {kb!r:.120}'))
      return
    for k in ka:
      x = a.sym_getattr(k) if isinstance(a, pg.Symbolic) else a[k]
      y = b.sym_getattr(k) if isinstance(b, pg.Symbolic) else b[k]
      if not converted(x, y, mapped, a, k, f'{where}[{k!r}]', out):
        compare(x, y, mapped, f'{where}[{k!r}]', out)
    return
  if isinstance(a, (list, tuple)):
    if len(a) != len(b):
      out.append(('not-equal', f'at {where or "<root>"}: length {len(a)} -> {len(b)} '
                  f'({a!r:.80} -> {b!r:.80})'))
      return
    for i in range(len(a)):
      x = a.sym_getattr(i) if isinstance(a, pg.Symbolic) else a[i]
      y = b.sym_getattr(i) if isinstance(b, pg.Symbolic) else b[i]
      if not converted(x, y, mapped, a, i, f'{where}[{i}]', out):
        compare(x, y, mapped, f'{where}[{i}]', out)
    return
  if (a is not b and isinstance(a, types.FunctionType) and isinstance(b, types.FunctionType)
      and S.is_code_function(a)):
    compare_fn(a, b, where, out)
    return
  try:
    ok = (a is b) or bool(pg.eq(a, b))
  except Exception as e:  # pylint: disable=broad-except
    out.append(('not-equal', f'at {where or "<root>"}: comparison raised {type(e).__name__}'))
    return
  if not ok:
    out.append(('not-equal', f'at {where or "<root>"}: {a!r:.120} -> {b!r:.120}'))


def resolve(root, keys):
  node = root
  for k in keys:
    node = node.sym_getattr(k)
  return node


def write_targets(root):
  """(keys of a typed node, member key, member spec) of every schema-backed member."""
  out = []
  for _, keys, node in SM.typed_nodes([root]):
    schema, lspec = SM.schema_of(node)
    if lspec is not None:
      if len(node):
        out.append((keys, 0, lspec.element.value))
    elif schema is not None:
      for k in node.sym_keys():
        f = node.sym_attr_field(k)
        if f is not None and isinstance(k, str) and k.isidentifier():
          out.append((keys, k, f.value))
  return out


def try_write(root, keys, k, bad):
  """True when the write is rejected (raises)."""
  try:
    node = resolve(root, keys)
    node.rebind({k: copy.deepcopy(bad)})
    return False
  except Exception:  # pylint: disable=broad-except
    return True


_REBUILD = {}


def check(codec, d, family, c=None, variant=0, wseed=0):
  """The round-trip monitors of one codec on one description, in stages:
  no exception; type and equality; hash; tree; schema; invalid write. A later
  stage presupposes the earlier ones, so the first stage that fails decides.
  Returns [(clause, detail)] (one entry per clause of that stage)."""
  count = (lambda n: None) if c is None else (lambda n: c.update([n]))
  if codec == 'pickle' and S.has_code_fn(d):
    # pickle refers to functions by qualified name (Python): lambdas and local
    # functions cannot be pickled
    count('pickle_skipped_local_function')
    return []
  v = S.build(d)
  # Values with a user-defined equality: pg.eq of the value says nothing about
  # its content; the comparison goes member by member instead (`compare`).
  ueq = S.has_user_eq(d)
  if ueq and not S.reflects(d, v):
    count('skipped_constructor_does_not_keep_the_described_members')
    return []
  # pickle drops the value spec of a typed root (see ASSUMPTIONS): plain
  # containers kept plain by that spec (frozen defaults) then become symbolic.
  mapped = (codec in ('json', 'json-str') + FILE_CODECS
            or (codec == 'pickle' and d[0] in ('TD', 'TL')))
  nan = S.has_nan(d)
  # The laws compare the restored value with the original by pg.eq / pg.hash.
  # Where two identical constructions are not equal (or hash differently) to
  # begin with, equality (hashing) of that value is not something a codec can
  # preserve: C04/C06 territory, not judged here.
  # (a fact about the description, independent of the codec: decided once)
  hash_defined = not nan and not S.hash_undefined(d)
  twin = None
  if not nan:
    key = repr(d)
    if key not in _REBUILD:
      if len(_REBUILD) > 4000:
        _REBUILD.clear()
      twin = S.build(d)
      diffs = []
      compare(v, twin, False, '', diffs)
      try:
        same = not diffs and (ueq or (pg.eq(v, twin) and pg.eq(twin, v)))
      except Exception:  # pylint: disable=broad-except
        same = False
      same_hash = True
      if same and hash_defined:
        try:
          same_hash = pg.hash(v) == pg.hash(twin)
        except Exception:  # pylint: disable=broad-except
          pass            # (unhashable member, or one whose == raises)
      _REBUILD[key] = (same, same_hash)
    same, same_hash = _REBUILD[key]
    if not same:
      count('skipped_equality_not_reflexive_on_rebuild')
      return []
    if hash_defined and not same_hash:
      hash_defined = False
      count('hash_skipped_differs_on_rebuild')
  count('roundtrips')
  if codec in FILE_CODECS:
    count('file_roundtrips')
    count(f'file_route:{codec}/{("save", "overwrite", "record", "append")[(variant >> 2) & 3]}')
  if S.has_code_fn(d):
    count('roundtrips_with_function_defaults')
  try:
    back = run_codec(codec, v, d, variant)
  except Exception as e:  # pylint: disable=broad-except
    return [('roundtrip-raises', f'{type(e).__name__}: {e!s:.300}')]
  if isinstance(back, RecordCount):
    return [('not-equal', f'{back.added} record(s) added to a new record file, '
             f'{len(back.got)} read: {back.got!r:.200}')]
  problems = []
  partial = S.is_partial(d)
  # -- equality and type -------------------------------------------------------
  count('type_checks')
  compare(v, back, mapped, '', problems)
  count('eq_checks')
  if ueq:
    count('eq_checks_member_by_member(user-defined equality)')
  if not nan and not problems and not ueq:
    try:
      if not (pg.eq(v, back) and pg.eq(back, v)):
        problems.append(('not-equal', 'pg.eq(original, restored) is False: '
                         f'{v!r:.150} -> {back!r:.150}'))
    except Exception as e:  # pylint: disable=broad-except
      problems.append(('not-equal', f'pg.eq raised {type(e).__name__}: {e!s:.200}'))
  if problems:
    return problems[:1]
  # -- hash ----------------------------------------------------------------------
  if hash_defined:
    try:
      h = pg.hash(v)
    except Exception as e:  # pylint: disable=broad-except
      if not (isinstance(e, TypeError) or ueq):
        raise
      h = None
      count('hash_skipped_unhashable')
    if h is not None:
      count('hash_checks')
      try:
        hb = pg.hash(back)
      except Exception as e:  # pylint: disable=broad-except
        if not (isinstance(e, TypeError) or ueq):
          raise
        hb = f'unhashable ({type(e).__name__}: {e!s:.80})'
      if h != hb:
        problems.append(('hash-differs', f'pg.hash {h} -> {hb} for {v!r:.150}'))
  if problems or codec in FILE_CODECS:
    # (a file holds the string form: tree, schema and invalid writes of the
    # loaded value are judged with the json-str codec)
    return problems[:1]
  # -- tree ----------------------------------------------------------------------
  if isinstance(back, pg.Symbolic):
    count('tree_ok_evals')
    for clause, detail in TM.tree_ok([back]):
      problems.append(('tree-' + clause, detail))
    spec_dropped = codec == 'pickle' and d[0] in ('TD', 'TL')
    if (isinstance(v, pg.Symbolic) and not spec_dropped
        and TM.shape([v]) != TM.shape([back])):
      problems.append(('tree-shape-differs', f'{TM.shape([v])} -> {TM.shape([back])}'))
  if problems:
    return first_per_clause(problems)
  # -- schema ----------------------------------------------------------------------
  if family in SCHEMA_FAMILIES and isinstance(back, pg.Symbolic) and isinstance(v, pg.Symbolic):
    try:
      original_ok = not SM.schema_ok([v], tolerate_partial=partial)
    except Exception:  # pylint: disable=broad-except
      if not ueq:
        raise
      # (the schema monitor compares members by pg.eq: a member whose == raises)
      count('schema_skipped_member_cannot_be_compared')
      return first_per_clause(problems)
    if original_ok:
      count('schema_ok_evals')
      for clause, detail in SM.schema_ok([back], tolerate_partial=partial):
        problems.append(('schema-' + clause, detail))
      if d[0] in ('TD', 'TL') and codec != 'pickle':
        count('root_spec_checks')
        if (twin or S.build(d)).value_spec != v.value_spec:
          count('root_spec_equality_not_reflexive_on_rebuild')
        elif back.value_spec is None or back.value_spec != v.value_spec:
          problems.append(('schema-spec-lost', f'value_spec {v.value_spec!r:.100} -> '
                           f'{back.value_spec!r:.100}'))
      # an invalid write must still be rejected
      if not problems and not (d[0] in ('TD', 'TL') and codec == 'pickle'):
        wr = random.Random(f'{wseed}/w')
        targets = write_targets(v)
        wr.shuffle(targets)
        done = 0
        for keys, k, spec in targets[:6]:
          try:
            bad = V.invalid_for(spec, wr)
            if V._accepts(spec, bad):         # pylint: disable=protected-access
              continue
          except Exception:  # pylint: disable=broad-except
            count('invalid_value_generator_failed')
            continue
          if not try_write(S.build(d), keys, k, bad):
            count('invalid_write_accepted_by_original')
            continue
          count('invalid_write_checks')
          if try_write(back, keys, k, bad):
            count('invalid_writes_rejected')
          else:
            problems.append(('invalid-write-accepted',
                             f'after the round trip {type(resolve(back, keys)).__name__}'
                             f'.rebind({{{k!r}: {bad!r:.60}}}) at {keys} succeeds; the '
                             f'original rejects it (spec {spec!r:.100})'))
            break
          done += 1
          if done >= 2:
            break
    else:
      count('schema_skipped_original_not_ok')
  return first_per_clause(problems)


# -- the read path: one JSON value loaded more than once ---------------------------

def _loaders(d, v):
  """{name: load(json, kw)} of the documented ways to load the object form."""
  out = {'pg.from_json': lambda j, kw: pg.from_json(j, **kw)}
  if d[0] in ('D', 'd', 'TD'):
    out['Dict.from_json'] = lambda j, kw: pg.Dict.from_json(j, **kw)
  elif d[0] in ('L', 'l', 'TL'):
    out['List.from_json'] = lambda j, kw: pg.List.from_json(j, **kw)
  elif d[0] in ('O', 'P'):
    # (the documented input of cls.from_json is the dict without '_type')
    out['Object.from_json'] = lambda j, kw: type(v).from_json(
        {k: x for k, x in j.items() if k != '_type'}, **kw)
  return out


def reload_check(d, c=None, variant=0, only=None):
  """Loads the same in-memory JSON value (the output of to_json, or what
  json.loads returns for its text) two or three times, by pg.from_json and by
  cls.from_json: every load must return the original value. Returns
  [(clause, mechanism, detail)]; `only` restricts the loaders to one."""
  count = (lambda n: None) if c is None else (lambda n: c.update([n]))
  if not S.has_nan(d) and not _REBUILD.get(repr(d), (True, True))[0]:
    return []
  v = S.build(d)
  ueq = S.has_user_eq(d)
  if ueq and not S.reflects(d, v):
    return []
  j = v.to_json() if (isinstance(v, pg.Symbolic) and variant & 1) else pg.to_json(v)
  if variant & 4:
    try:
      j2 = json.loads(json.dumps(j))
      if j2 == j:                       # (no int keys, no NaN: the same JSON value)
        j = j2
        count('reload_inputs_from_json_loads')
    except Exception:  # pylint: disable=broad-except
      pass
  loaders = _loaders(d, v)
  names = [only] if only else sorted(loaders)
  n = 2 + ((variant >> 3) & 1)
  nan = S.has_nan(d)
  count('reload_checks')
  used = []
  for i in range(n):
    name = names[((variant >> (i + 1)) & 1) % len(names)]
    used.append(name)
    kw = {}
    if S.is_partial(d):
      kw['allow_partial'] = True
    vs = S.root_value_spec(d)
    if vs is not None:
      kw['value_spec'] = vs
    count('reload_loads')
    count('reload_loader:' + name)
    # the first load is an ordinary load by that entry point, the later ones
    # are loads of an input that has been loaded before
    mech = f'json/{name}' if i == 0 else 'json/reload-same-input'
    if i and only is None and any(u != 'pg.from_json' for u in used):
      # does it take cls.from_json? (the same loads by pg.from_json only)
      if not reload_check(d, None, variant, only='pg.from_json'):
        mech += '(cls.from_json)'
    try:
      back = loaders[name](j, kw)
    except Exception as e:  # pylint: disable=broad-except
      return [('roundtrip-raises', mech, f'load {i + 1} of the same JSON value by '
               f'{" then ".join(used)} raised {type(e).__name__}: {e!s:.200}')]
    problems = []
    compare(v, back, True, '', problems)
    if not problems and not nan and not ueq:
      try:
        if not (pg.eq(v, back) and pg.eq(back, v)):
          problems.append(('not-equal', f'pg.eq(original, restored) is False: '
                           f'{v!r:.120} -> {back!r:.120}'))
      except Exception as e:  # pylint: disable=broad-except
        problems.append(('not-equal', f'pg.eq raised {type(e).__name__}: {e!s:.200}'))
    if problems:
      clause, detail = problems[0]
      return [(clause, mech, f'load {i + 1} of the same JSON value by {" then ".join(used)}: '
               f'{detail}')]
  return []


def group(clause):
  return 'differs' if clause in ('type-differs', 'not-equal') else clause


def family_of(d, family):
  """Shrinking may turn e.g. a spec into one of its default values."""
  if d[0] in ('TD', 'TL'):
    return 'typed-root'
  if d[0] in ('v', 'D', 'd', 'L', 'l', 't', 'leaf', 'oeq', 'kp'):
    return 'container'
  if d[0] in ('O', 'P', 'F', 'H'):
    return 'object'
  return family


def printable(text):
  """Details are printed: an unpaired surrogate cannot be encoded."""
  return text.encode('ascii', 'backslashreplace').decode('ascii')


def first_per_clause(problems):
  first = {}
  for clause, detail in problems:
    first.setdefault(clause, detail)
  return list(first.items())


def value_case(ctx, i):
  rng, c = ctx.rng, ctx.counters
  family, d = S.gen_value(rng)
  c['family:' + family] += 1
  ctx.seen('value_kinds', S.kind(d))
  variant = rng.randint(0, 31)
  if S.has_user_eq(d):
    # which members "have the default value" is a statement of their own equality
    variant &= ~HIDE_DEFAULTS
  wseed = rng.randint(0, 10**9)
  failed_json = failed_str = False
  summary = {}
  for codec in CODECS:
    if codec == 'json-str' and failed_json:
      c['json_str_subsumed_by_json'] += 1
      continue
    if codec in FILE_CODECS and (failed_json or failed_str):
      c['file_subsumed_by_string_form'] += 1
      continue
    c['codec:' + codec] += 1
    ctx.label = f'{codec}/monitors'
    problems = check(codec, d, family, c, variant, wseed)
    ctx.label = None
    if problems and codec == 'json':
      failed_json = True
    if codec == 'json-str' and variant & HIDE_DEFAULTS:
      c['roundtrips_hiding_default_values'] += 1
    for clause, detail in problems:
      var, label = variant, codec
      if codec == 'json-str' and variant & HIDE_DEFAULTS:
        # does it take the option? (the same round trip without it)
        try:
          plain = [cl for cl, _ in check(codec, d, family, None, variant & ~HIDE_DEFAULTS, wseed)
                   if group(cl) == group(clause)]
        except Exception:  # pylint: disable=broad-except
          plain = []
        if plain:
          var = variant & ~HIDE_DEFAULTS
        else:
          label = codec + '+hide_default_values'
      if codec == 'json-str' and '+' not in label:
        failed_str = True       # (the plain string form fails: files are spared)
      def observed(cand, clause=clause, codec=codec, var=var):
        """Clauses of the same group that `cand` shows with this codec."""
        try:
          return [cl for cl, _ in check(codec, cand, family_of(cand, family), None, var,
                                        wseed) if group(cl) == group(clause)]
        except Exception:  # pylint: disable=broad-except
          return []
      small = S.minimise(d, observed, budget=120)
      c['minimisations'] += 1
      # inside an opaque member a changed type shows up as inequality: the
      # clause reported is the one the minimal value shows by itself
      clause = (observed(small) or [clause])[0]
      kind = S.kind(small)
      if '+' in label:
        # every way of giving a field a default value (default, noneable,
        # frozen, defaults of members) is the same to the option
        kind = re.sub(r'\+(none|default|frozen)', '', kind)
      ctx.violation(
          clause, f'{label}/{kind}',
          printable(f'{detail}\nvalue: {S.show(d):.600}\nminimal: {S.show(small):.300}'),
          {'family': family, 'desc': d, 'minimal': small, 'codec': codec,
           'variant': var})
      summary[f'{clause}:{label}'] = kind
  if not failed_json:
    ctx.label = 'json/reload'
    found = reload_check(d, c, variant)
    ctx.label = None
    for clause, mech, detail in found:
      if mech.startswith('json/reload-same-input'):
        small = d
      else:
        # a first load by cls.from_json: the class of value decides
        def observed(cand, clause=clause, mech=mech):
          try:
            return [cl for cl, m, _ in reload_check(cand, None, variant)
                    if group(cl) == group(clause) and m.split('.')[-1] == mech.split('.')[-1]]
          except Exception:  # pylint: disable=broad-except
            return []
        small = S.minimise(d, observed, budget=80)
        mech = f'{mech}/{S.kind(small)}'
      ctx.violation(clause, mech,
                    printable(f'{detail}\nvalue: {S.show(d):.600}\nminimal: {S.show(small):.300}'),
                    {'family': family, 'desc': d, 'minimal': small, 'codec': 'json-reload',
                     'variant': variant})
      summary[f'{clause}:reload'] = mech
  else:
    c['reload_subsumed_by_json'] += 1
  if S.size(d) >= 2 or family not in ('prim', 'symbol'):
    ctx.mark_nontrivial(('value', d))
  if i < 2:
    ctx.sample({'family': family, 'value': printable(S.show(d)[:400]), 'violations': summary})


# ---------------------------------------------------------------------------
# Half 2: persistence histories.
# ---------------------------------------------------------------------------

def storable(rng, c, size=None, partial_ok=True):
  """(description, value builder) of a value that survives the string form
  in memory, so that any difference after load is due to persistence."""
  for _ in range(8):
    fam, d = S.gen_storable(rng, size)
    if not partial_ok and S.is_partial(d):
      continue
    try:
      v = S.build(d)
      back = pg.from_json_str(pg.to_json_str(v), allow_partial=True)
      diffs = []
      compare(v, back, True, '', diffs)
    except Exception:  # pylint: disable=broad-except
      diffs = [('raises', '')]
    if not diffs:
      return d
    c['persist_value_skipped(does not survive the string form)'] += 1
  return ['v', rng.randint(0, 99)]


def values_same(expected, got):
  diffs = []
  compare(expected, got, True, '', diffs)
  return diffs


def history_case(ctx, i):
  rng, c = ctx.rng, ctx.counters
  tag = f'{ctx.seed}s{ctx.shard}i{i}'
  summary = {}
  for fsname in ('std', 'mem'):
    root = tempfile.mkdtemp(prefix='pgverif-c05-') if fsname == 'std' else None
    cwd = os.getcwd()
    if root is not None:
      # some paths of the history are spelled relative to the working directory
      os.chdir(root)
    world = P.World(fsname, root, tag, values_same, relative=root is not None)
    try:
      ops, stats = run_history(ctx, world, rng, ctx.params['steps'])
    finally:
      os.chdir(cwd)
      world.cleanup()
      if root is not None:
        shutil.rmtree(root, ignore_errors=True)
    if stats['writes'] >= 8 and stats['overwrites'] and stats['appends']:
      ctx.mark_nontrivial(('history', fsname, tuple(ops)))
    summary[fsname] = ops[:14]
  if i - ctx.params['values'] < 2:
    ctx.sample({'history': summary})


def run_history(ctx, world, rng, steps):
  c = ctx.counters
  n_steps = rng.randint(max(4, steps // 2), steps)
  ops, stats = [], dict(writes=0, overwrites=0, appends=0)
  for _ in range(n_steps):
    op = gen_op(world, rng, c)
    c['persist_ops'] += 1
    c['persist_op:' + op.name] += 1
    ops.append(op.name)
    ctx.label = f'{world.fs}/{op.name}'
    problems = world.apply(op, rng, c)
    ctx.label = None
    if op.is_write and not any(cl == 'write-raises' for cl, _, _ in problems):
      stats['writes'] += 1
      if op.last.startswith('overwrite'):
        stats['overwrites'] += 1
      if op.name.endswith('seq-a') and op.last == 'append-existing':
        stats['appends'] += 1
    reported = set()
    for clause, mech, detail in problems:
      if (clause, mech) in reported:
        continue
      reported.add((clause, mech))
      ctx.violation(clause, mech, printable(f'{detail}\nlast operations: {ops[-8:]}'),
                    {'fs': world.fs, 'history': world.trace[-12:]})
  return ops, stats


def gen_reader_op(world, rng):
  """Opens a reader and reads part of the path, continues reading on an open
  reader, or closes one (None: nothing to read yet)."""
  r = rng.random()
  if world.handles and r < 0.3:
    return P.close_reader(rng.choice(world.handles))
  if world.handles and r < 0.55:
    h = rng.choice(world.handles)
    return P.read_more(h, P.gen_read(rng, h))
  readable = world.readable_paths()
  if not readable or len(world.handles) >= 6:
    return P.close_reader(rng.choice(world.handles)) if world.handles else None
  busy = [(p, lv) for p, lv in readable if world.handles_of(p)]
  path, level = rng.choice(busy if busy and rng.random() < 0.25 else readable)
  api = 'io.open'
  if level == 'seq':
    api = ('open_sequence-raw' if world.seq_is_raw(path)
           else rng.choice(['open_jsonl', 'open_sequence']))
  e = world.seqs.get(path) if path in world.seqs else world.files.get(path)
  content = e.items if level == 'seq' else (
      e.content() if isinstance(e, P.SeqEntry) else e.content)
  probe = P.Handle(path, level, api, None, content)
  return P.open_reader(path, level, api, P.gen_read(rng, probe))


def gen_op(world, rng, c):
  target = None
  if rng.random() < 0.24:
    op = gen_reader_op(world, rng)
    if op is not None:
      return op
  elif world.handles and rng.random() < 0.3:
    # write to a path that has an unclosed reader
    target = rng.choice(world.handles).path
  r = rng.random()
  if target is not None:
    r = (0.0 if target in world.json_paths else 0.5 if target in world.txt_paths
         else 0.57 if target in world.bin_paths else 0.9)
  pick = lambda paths: target if target is not None else world.pick(rng, paths)
  if r < 0.42 or not (world.txt_paths and world.bin_paths and world.seq_paths):
    path = pick(world.json_paths)
    if path is None:
      return P.mkdirs(world.base + '/spare')
    old = world.files.get(path)
    size = None
    if old is not None:
      # overwrite by deliberately shorter / longer content
      size = rng.choice([0, 0, 3, 3, None])
    d = storable(rng, c, size)
    return P.save_json(path, d, indent=rng.choice([None, None, 2]),
                       method=rng.random() < 0.4)
  # A path holds whatever was written last: now and then text, binary and JSON
  # writes go to a path that the other kinds of write use.
  anyfile = world.json_paths + world.txt_paths + world.bin_paths
  cross = lambda paths: anyfile if target is None and rng.random() < 0.25 else paths
  if r < 0.47:
    return P.save_txt(pick(cross(world.txt_paths)), P.text(rng))
  if r < 0.55:
    return P.writefile(pick(cross(world.txt_paths)), P.text(rng))
  if r < 0.6:
    return P.writefile_bytes(pick(cross(world.bin_paths)), P.blob(rng))
  if r < 0.67:
    existing = [p for p in world.all_file_paths() if p in world.files or p in world.seq_files()]
    if existing:
      return P.rm(rng.choice(existing))
    return P.mkdirs(rng.choice(world.dir_universe()))
  if r < 0.7:
    return P.mkdirs(rng.choice(world.dir_universe()))
  # sequences
  path = pick(world.seq_paths)
  raw = world.seq_is_raw(path)
  n = rng.choice([0, 1, 1, 2, 3, 4])
  if raw:
    recs = [['v', P.line(rng)] for _ in range(n)]
  else:
    # open_jsonl offers no way to pass allow_partial: records are complete values
    recs = [storable(rng, c, rng.choice([0, 0, 1, 2]), partial_ok=False) for _ in range(n)]
  append = rng.random() < 0.6
  if append and n == 0:
    recs = [['v', 'x']] if raw else [['v', 1]]
  return P.seq_write(path, recs, append=append, raw=raw,
                     api=rng.choice(['open_jsonl', 'open_sequence']),
                     use_with=rng.random() < 0.7)
